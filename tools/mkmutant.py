#!/usr/bin/env python3
"""create a one-site mutant patch: mkmutant.py <Cxx> <name> <expect-key-substring> <file rel to /repo> <old> <new> [<old2> <new2> ...]
writes /verif/mutants/<Cxx>/<name>.patch (unified diff with '# expect:' header)"""
import difflib, os, sys
pid, name, expect, rel = sys.argv[1:5]
pairs = sys.argv[5:]
src = open('/repo/' + rel).read()
new = src
for i in range(0, len(pairs), 2):
    old, rep = pairs[i], pairs[i + 1]
    if new.count(old) != 1:
        sys.exit('pattern occurs %d times: %r' % (new.count(old), old[:60]))
    new = new.replace(old, rep)
diff = ''.join(difflib.unified_diff(src.splitlines(True), new.splitlines(True), 'a/' + rel, 'b/' + rel, n=3))
os.makedirs('/verif/mutants/' + pid, exist_ok=True)
with open('/verif/mutants/%s/%s.patch' % (pid, name), 'w') as f:
    for e in expect.split('|'):
        f.write('# expect: %s\n' % e)
    f.write(diff)
print('wrote mutants/%s/%s.patch' % (pid, name))
