#!/usr/bin/env python3
"""regenerate the generated tables of DESIGN.md (between <!-- BEGIN GENERATED:x --> / <!-- END GENERATED:x --> markers)
from seeded/*/meta.json, seeded/matrix.json, mutants/*/*.patch and the current evidence files."""
import glob, json, os, re, sys
V = os.path.dirname(os.path.dirname(os.path.abspath(__file__)))


def first_line(path):
    try:
        for l in open(path):
            l = l.strip()
            if l and not l.startswith('#'):
                return l
    except OSError:
        pass
    return ''


def seeds_table():
    mx = json.load(open(os.path.join(V, 'seeded', 'matrix.json')))
    rows = ['| seed | what was changed (file: function) | caught by own property | violation keys raised (all properties) |', '|---|---|---|---|']
    n = own = anyc = 0
    for d in sorted(glob.glob(os.path.join(V, 'seeded', 'C*-*'))):
        name = os.path.basename(d)
        meta = json.load(open(os.path.join(d, 'meta.json')))
        patch = open(os.path.join(d, 'patch.diff')).read()
        files = sorted(set(re.findall(r'^\+\+\+ b/(\S+)', patch, re.M)))
        fns = sorted(set(re.findall(r'^@@.*@@.*?fn (\w+)', patch, re.M)))
        det = (mx.get(name) or {}).get('detected', {})
        keys = [k for p in sorted(det) for k in det[p]]
        n += 1
        o = name.split('-')[0] in det
        own += o
        anyc += bool(det)
        short = [re.sub(r'@quinn(_proto|_udp)?::', '@', k) for k in keys]
        rows.append('| %s | %s: %s | %s | %s |' % (name, ', '.join(f.replace('quinn-proto/src/', 'proto/').replace('quinn-udp/src/', 'udp/').replace('quinn/src/', 'quinn/') for f in files),
                                                 ', '.join(fns)[:60], 'yes' if o else ('no (other property)' if det else '**no**'), '<br>'.join('`%s`' % k for k in short[:4]) + (' …' if len(short) > 4 else '')))
    head = '%d independently seeded changes kept (each confirmed: demo passes on the clean tree, fails with the patch, 319/319 suite passes with the patch). ' \
           'Caught by the seeded property\'s own check: %d; caught by some check: %d.\n\n' % (n, own, anyc)
    return head + '\n'.join(rows)


def mutants_table():
    rows = ['| property | own mutants (one instance broken each; `# expect:` key must appear) |', '|---|---|']
    tot = 0
    for d in sorted(glob.glob(os.path.join(V, 'mutants', 'C*'))):
        ms = sorted(glob.glob(os.path.join(d, '*.patch')))
        tot += len(ms)
        items = []
        for m in ms:
            exp = [l[len('# expect:'):].strip() for l in open(m) if l.startswith('# expect:')]
            items.append('%s → `%s`' % (os.path.basename(m)[:-6], exp[0] if exp else '?'))
        rows.append('| %s | %s |' % (os.path.basename(d), '<br>'.join(items)))
    return '%d own mutants.\n\n' % tot + '\n'.join(rows)


def obligations_table():
    rows = ['| property | obligations | discharged | distinct rule instances bound to real sites | units analysed |', '|---|---|---|---|---|']
    for p in sorted(glob.glob(os.path.join(V, 'evidence', 'C??.json'))):
        e = json.load(open(p))
        c = e.get('coverage', {})
        u = c.get('units', c.get('analysed', ''))
        if isinstance(u, dict):
            u = ', '.join('%s %s' % (v, k) for k, v in u.items())
        rows.append('| %s | %s | %s | %s | %s |' % (e.get('property_id'), c.get('obligations', ''), c.get('discharged', ''), c.get('distinct_nontrivial', ''), str(u)[:80]))
    return '\n'.join(rows)


GEN = {'seeds': seeds_table, 'mutants': mutants_table, 'obligations': obligations_table}
p = os.path.join(V, 'DESIGN.md')
s = open(p).read()
for k, f in GEN.items():
    b, e = '<!-- BEGIN GENERATED:%s -->' % k, '<!-- END GENERATED:%s -->' % k
    if b in s and e in s:
        s = s[:s.index(b) + len(b)] + '\n' + f() + '\n' + s[s.index(e):]
open(p, 'w').write(s)
print('DESIGN.md tables regenerated')
