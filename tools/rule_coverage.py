#!/usr/bin/env python3
"""which rule instances (ok on the current tree) have never been seen to FIRE on any own mutant or seeded change?
reads evidence/Cxx.json (samples are truncated, so re-evaluates the rules), seeded/matrix.json and mutants/*/results cache"""
import glob, importlib, json, os, re, sys
sys.path.insert(0, os.path.join(os.path.dirname(os.path.abspath(__file__)), '..'))
from engine import run as R
from engine.facts import Facts
V = R.VERIF
fd, _, _, _ = R.get_facts(R.REPO)
F = Facts(fd)
fired = set()
mx = json.load(open(os.path.join(V, 'seeded', 'matrix.json')))
for name, e in mx.items():
    for pid, ks in (e.get('detected') or {}).items():
        for k in ks:
            fired.add(k.split('@')[0])
for p in glob.glob(os.path.join(V, 'mutants', '*', '*.patch')):
    for l in open(p):
        if l.startswith('# expect:'):
            fired.add(l[len('# expect:'):].strip().split('@')[0])
rc = os.path.join(V, 'mutants', 'results.json')
if os.path.exists(rc):
    for k in json.load(open(rc)):
        fired.add(k.split('@')[0])
tot = unc = 0
for pid in [json.loads(l)['id'] for l in open(os.path.join(V, 'properties.jsonl'))]:
    mod = importlib.import_module('rules.' + pid)
    ctx = R.Ctx(pid, F, 'quick', 0)
    R.run_module(mod, ctx)
    inst = sorted({'%s/%s' % (o['rule'], o['instance']) for o in ctx.obligations if not o['instance'].startswith('floor_')})
    miss = [i for i in inst if not any(f == i or f.startswith(i + '/') or i.startswith(f) for f in fired)]
    tot += len(inst)
    unc += len(miss)
    print('%s: %d instances, %d never seen firing' % (pid, len(inst), len(miss)))
    for m in miss:
        print('    ', m)
print('total', tot, 'never fired', unc)
