#!/usr/bin/env python3
"""(re)generate rules/name_pins.json from the CURRENT /repo tree — run only on a tree whose names the rules were written for"""
import json, os, sys
sys.path.insert(0, os.path.join(os.path.dirname(os.path.abspath(__file__)), '..'))
from engine import run as R, pins
from engine.facts import Facts
if os.path.exists(pins.PIN_FILE):
    os.rename(pins.PIN_FILE, pins.PIN_FILE + '.old')
pins._PINS = {'params': {}, 'locals': {}}
fd, _, _, _ = R.get_facts(R.REPO)
F = Facts(fd)
p = pins.snapshot(F)
json.dump(p, open(pins.PIN_FILE, 'w'), indent=0, sort_keys=True)
if os.path.exists(pins.PIN_FILE + '.old'):
    os.remove(pins.PIN_FILE + '.old')
print('pinned', len(p['params']), 'functions (params),', sum(len(v) for v in p['locals'].values()), 'named locals in', len(p['locals']), 'bodies')
