#!/usr/bin/env python3
"""(re)generate rules/name_pins.json from the CURRENT /repo tree — run only on a tree whose names the rules were written for"""
import json, os, sys
sys.path.insert(0, os.path.join(os.path.dirname(os.path.abspath(__file__)), '..'))
from engine import run as R, pins
from engine.facts import Facts
if os.path.exists(pins.PIN_FILE):
    os.rename(pins.PIN_FILE, pins.PIN_FILE + '.old')
pins._PINS = {'params': {}, 'locals': {}}
fd, _, _, _ = R.get_facts(R.REPO)
F = Facts(fd)
p = pins.snapshot(F)
# functions and locals that exist only in the alternative (all-on) build are anchors too: without them the loader would
# treat e.g. mutex::tracking::Mutex::lock as "a helper that did not exist" and inline it into every caller
import importlib
from engine import thorough as T
for alt in T.DEFAULT_ALT_BUILDS:
    ctx = R.Ctx('C01', F, 'thorough', 0)
    th, _ = R.tree_hash(R.REPO)
    out = os.path.join(R.CACHE, 'alt-facts', '%s-%s' % (alt['name'], th))
    if not os.path.exists(os.path.join(out, 'OK')):
        T.run_alt(ctx, 'C01', importlib.import_module('rules.C01'), alt)
    FA = Facts(out)
    pa = pins.snapshot(FA)
    for k, v in pa['params'].items():
        p['params'].setdefault(k, v)
    for k, v in pa['locals'].items():
        p['locals'].setdefault(k, v)
json.dump(p, open(pins.PIN_FILE, 'w'), indent=0, sort_keys=True)
if os.path.exists(pins.PIN_FILE + '.old'):
    os.remove(pins.PIN_FILE + '.old')
print('pinned', len(p['params']), 'functions (params),', sum(len(v) for v in p['locals'].values()), 'named locals in', len(p['locals']), 'bodies')
