#!/usr/bin/env python3
"""Run every claimed check against every seeded change (and own mutants optionally); write seeded/matrix.json and update each
seed's meta.json `detected_by` with the violation keys raised (across all properties)."""
import glob, importlib, json, os, shutil, subprocess, sys
sys.path.insert(0, os.path.join(os.path.dirname(os.path.abspath(__file__)), '..'))
from engine import thorough as T, run as R
from engine.facts import Facts, CheckBroken

only = sys.argv[1:] 
pids = [json.loads(l)['id'] for l in open(os.path.join(R.VERIF, 'properties.jsonl'))]
mods = {}
for p in pids:
    if os.path.exists(os.path.join(R.VERIF, 'rules', p + '.py')):
        mods[p] = importlib.import_module('rules.' + p)
known = {k['key'] for k in R.load_known() if k.get('status') == 'known'}
# baseline keys on the unchanged tree
fdir, _, _, _ = R.get_facts(R.REPO)
base = set()
F0 = Facts(fdir)
for p, m in mods.items():
    c = R.Ctx(p, F0, 'thorough', 0)
    R.run_module(m, c)
    base |= {v['key'] for v in c.violations}
matrix = {}
mp = os.path.join(R.VERIF, 'seeded', 'matrix.json')
if os.path.exists(mp):
    matrix = json.load(open(mp))
for d in sorted(glob.glob(os.path.join(R.VERIF, 'seeded', 'C*-*'))):
    name = os.path.basename(d)
    if only and not any(o in name for o in only):
        continue
    _, body = T.parse_patch(os.path.join(d, 'patch.diff'))
    sc = T.scratch_copy(R.REPO)
    try:
        p = subprocess.run(['patch', '-p1', '-s', '--no-backup-if-mismatch'], input=body, text=True, cwd=sc, stdout=subprocess.PIPE, stderr=subprocess.STDOUT)
        if p.returncode != 0:
            matrix[name] = {'status': 'patch does not apply', 'log': p.stdout[-300:]}
            print(name, 'PATCH FAILS', p.stdout[-200:])
            continue
        try:
            fd, st, th, log = R.get_facts(sc)
        except R.CompileFailed as e:
            matrix[name] = {'status': 'does not compile under -Dunused_must_use', 'detected': {'compile': ['compile/unused_must_use']}}
            print(name, 'COMPILE FAIL (unused_must_use?)')
            continue
        F = Facts(fd)
        det = {}
        for pid, m in mods.items():
            c = R.Ctx(pid, F, 'thorough', 0)
            try:
                R.run_module(m, c)
            except CheckBroken as e:
                det.setdefault(pid, []).append('CHECK-BROKEN ' + str(e)[:100])
                continue
            ks = sorted({v['key'] for v in c.violations} - base - known)
            if ks:
                det[pid] = ks
        matrix[name] = {'status': 'evaluated', 'detected': det}
        own = name.split('-')[0]
        print(name, 'own=%s' % ('YES' if own in det else 'no'), {k: len(v) for k, v in det.items()})
        mj = os.path.join(d, 'meta.json')
        meta = json.load(open(mj))
        meta['detected_by'] = [k for v in det.values() for k in v] or None
        meta['detected_by_own_property_check'] = own in det
        json.dump(meta, open(mj, 'w'), indent=1)
    finally:
        shutil.rmtree(sc, ignore_errors=True)
    # several shards may run in parallel (private QV_CACHE each): merge under a lock
    import fcntl
    with open(mp + '.lock', 'w') as lk:
        fcntl.flock(lk, fcntl.LOCK_EX)
        cur = json.load(open(mp)) if os.path.exists(mp) else {}
        if name in matrix:
            cur[name] = matrix[name]
        json.dump(cur, open(mp, 'w'), indent=1, sort_keys=True)
print('done')
