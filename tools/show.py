#!/usr/bin/env python3
"""Development aid: pretty-print the MIR facts of one function.
usage: tools/show.py <facts-dir> <fn pattern> [--calls]"""
import sys, os
sys.path.insert(0, os.path.join(os.path.dirname(__file__), '..'))
from engine.facts import Facts, short


def pl(b, p):
    s = '_%d' % p[0]
    n = b.locals[p[0]][1]
    if n:
        s += '(%s)' % n
    for e in p[1]:
        if e == '*':
            s = '(*%s)' % s
        elif isinstance(e, list) and e[0] == 'f':
            s += '.%s' % e[1]
        elif isinstance(e, list) and e[0] == 'v':
            s += ' as %s' % e[1]
        elif isinstance(e, list) and e[0] == 'i':
            s += '[_%d]' % e[1]
        elif isinstance(e, list) and e[0] == 'ci':
            s += '[%s%d]' % ('-' if e[2] else '', e[1])
        else:
            s += '.%s' % e
    return s


def op(b, o):
    if o[0] in ('c', 'm'):
        return ('move ' if o[0] == 'm' else '') + pl(b, o[1])
    if o[1] == 'fn':
        return 'fn ' + short(o[2])
    return 'const %s%s' % (o[2], ('{%s}' % short(o[4])) if len(o) > 4 and o[4] else '')


def rv(b, r):
    k = r[0]
    if k == 'use':
        return op(b, r[1])
    if k == 'ref':
        return ('&mut ' if r[1] else '&') + pl(b, r[2])
    if k == 'ptr':
        return '&raw ' + pl(b, r[2])
    if k == 'bin':
        return '%s(%s, %s)' % (r[1], op(b, r[2]), op(b, r[3]))
    if k == 'un':
        return '%s(%s)' % (r[1], op(b, r[2]))
    if k == 'cast':
        return '%s as %s [%s]' % (op(b, r[2]), r[3], r[1])
    if k == 'discr':
        return 'discr(%s)' % pl(b, r[1])
    if k == 'agg':
        kd = r[1]
        if kd[0] == 'adt':
            return '%s::%s{%s}' % (short(kd[1]), kd[2], ', '.join('%s: %s' % (f, op(b, o)) for f, o in zip(kd[3], r[2])))
        return '%s(%s)' % (kd[0] + (':' + short(kd[1]) if len(kd) > 1 else ''), ', '.join(op(b, o) for o in r[2]))
    if k == 'rep':
        return '[%s; %s]' % (op(b, r[1]), r[2])
    return str(r)


def show(b, calls_only=False):
    print('fn %s  (%s:%d) kind=%s argc=%d' % (b.id, b.file, b.line, b.kind, b.argc))
    if not calls_only:
        for i, (t, n) in enumerate(b.locals):
            print('   let _%d: %s%s' % (i, t, ('  // ' + n) if n else ''))
    for i, blk in enumerate(b.blocks):
        if blk['c']:
            continue
        if not calls_only:
            print(' bb%d:' % i)
        for s in blk['s']:
            if calls_only:
                continue
            if s[0] == '=':
                print('    %s = %s   // L%d' % (pl(b, s[1]), rv(b, s[2]), s[3]))
            elif s[0] == 'sd':
                print('    discr(%s) := %s  // L%d' % (pl(b, s[1]), s[2], s[3]))
            elif s[0] == 'dead':
                pass
        t = blk['t']
        if t[0] == 'call':
            c = t[1]
            print('    %s%s = %s[%s](%s) -> %s  // L%d %s' % ('bb%d: ' % i if calls_only else '', pl(b, c['dst']), short(c['f'] or c['df'] or '?'), c['k'],
                                                         ', '.join(op(b, a) for a in c['args']), 'bb%s' % c['t'], c['line'], ','.join(c.get('mac', []))))
        elif calls_only:
            continue
        elif t[0] == 'switch':
            print('    switch %s -> %s else bb%d  // L%d' % (op(b, t[1]), ', '.join('%s:bb%d' % (v, x) for v, x in t[2]), t[3], t[4]))
        elif t[0] == 'drop':
            print('    drop(%s) -> bb%d' % (pl(b, t[1]), t[2]))
        elif t[0] == 'assert':
            print('    assert(%s == %s, %s) -> bb%d' % (op(b, t[1]), t[2], t[3], t[4]))
        elif t[0] == 'yield':
            print('    yield %s -> bb%d' % (op(b, t[1]), t[2]))
        else:
            print('    %s' % ' '.join(str(x) for x in t))


if __name__ == '__main__':
    f = Facts(sys.argv[1])
    for b in f.fns(sys.argv[2]):
        show(b, '--calls' in sys.argv)
