#!/usr/bin/env python3
"""evaluate one property's rules on the alternative all-on build (qlog + lock_tracking + cfg fuzzing) of the CURRENT /repo
tree: altcheck.py <Cxx> [-v].  (The thorough tier does the same; this is the quick way to debug an alt-build alarm.)"""
import importlib, os, sys
sys.path.insert(0, os.path.join(os.path.dirname(os.path.abspath(__file__)), '..'))
from engine import run as R, thorough as T
from engine.facts import Facts
pid = sys.argv[1]
mod = importlib.import_module('rules.' + pid)
fd, _, _, _ = R.get_facts(R.REPO)
ctx = R.Ctx(pid, Facts(fd), 'thorough', 0)
for alt in getattr(mod, 'ALT_BUILDS', T.DEFAULT_ALT_BUILDS):
    r = T.run_alt(ctx, pid, mod, alt)
    print(alt['name'], r['status'], r.get('obligations'), 'obligations')
    for k in r.get('violations', []):
        print('  VIOLATION-IN-ALT-BUILD', k)
    if r.get('why'):
        print('  ', r['why'])
if '-v' in sys.argv:
    for v in ctx.violations:
        print('  ', v['key'], '::', v['detail'][:300])
