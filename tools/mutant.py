#!/usr/bin/env python3
"""run one or all mutants of a property: mutant.py <Cxx> [name-substring]"""
import importlib, os, sys
sys.path.insert(0, os.path.join(os.path.dirname(os.path.abspath(__file__)), '..'))
from engine import thorough as T, run as R
pid = sys.argv[1]
sub = sys.argv[2] if len(sys.argv) > 2 else ''
mod = importlib.import_module('rules.' + pid)
known = {k['key'] for k in R.load_known() if k.get('status') == 'known'}
for name, path, meta in T.mutant_files(pid):
    if sub and sub not in name:
        continue
    r = T.run_mutant(pid, mod, name, path, meta, known_keys=known)
    print(r['name'], r['status'], r.get('keys', r.get('why')))
    if r['status'] == 'fired' and name.startswith('own:'):
        T._remember(name, r.get('all_keys', r['keys']))
