#!/usr/bin/env python3
"""run one or all mutants of a property: mutant.py <Cxx> [name-substring] [--names-file f] [--json out]
(--names-file/--json are used by the thorough tier to evaluate shards of mutants in parallel worker processes)"""
import importlib, json, os, sys
sys.path.insert(0, os.path.join(os.path.dirname(os.path.abspath(__file__)), '..'))
from engine import thorough as T, run as R
args = sys.argv[1:]
names = None
out = None
if '--names-file' in args:
    i = args.index('--names-file')
    names = set(open(args[i + 1]).read().split('\n'))
    del args[i:i + 2]
if '--json' in args:
    i = args.index('--json')
    out = args[i + 1]
    del args[i:i + 2]
pid = args[0]
sub = args[1] if len(args) > 1 else ''
mod = importlib.import_module('rules.' + pid)
known = {k['key'] for k in R.load_known() if k.get('status') == 'known'}
results = []
for name, path, meta in T.mutant_files(pid):
    if sub and sub not in name:
        continue
    if names is not None and name not in names:
        continue
    r = T.run_mutant(pid, mod, name, path, meta, known_keys=known)
    results.append(r)
    print(r['name'], r['status'], r.get('keys', r.get('why')))
    sys.stdout.flush()
    if r['status'] == 'fired' and name.startswith('own:'):
        T._remember(name, r.get('all_keys', r['keys']))
if out:
    json.dump(results, open(out, 'w'))
