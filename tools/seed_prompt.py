#!/usr/bin/env python3
"""Print the prompt handed to an independent sub-agent that seeds a property-breaking change.
Only the property text and the scratch worktree path are given (nothing from /verif)."""
import json, sys
pid = sys.argv[1]
wt = sys.argv[2] if len(sys.argv) > 2 else f"/tmp/seed-{pid}"
for l in open('/verif/properties.jsonl'):
    p = json.loads(l)
    if p['id'] == pid:
        break
else:
    sys.exit("no such property")
print(f"""You are helping to evaluate a verification framework for the Rust QUIC library quinn (crates quinn-proto, quinn, quinn-udp).
You have your own scratch git worktree of the repository at {wt} (a detached checkout; work ONLY there, never touch /repo or /verif, and do not read anything under /verif). The sandbox has no network; use `--offline` with cargo.

Here is a semantic property that the library is supposed to satisfy:

  Title: {p['title']}
  Statement: {p['statement']}
  Quantified over: {p['quantifier']['text']}

Your task: produce TWO different, independent, realistic source changes to the library (each a small patch to non-test code under quinn-proto/src, quinn/src or quinn-udp/src, like a plausible refactoring slip or logic bug a developer could introduce) such that, for EACH change:
  1. the workspace still compiles,
  2. the ENTIRE existing test suite still passes (run in the worktree: `cargo nextest run --workspace --no-fail-fast --test-threads 8 --offline`, or `cargo test --workspace --no-fail-fast --offline`; all 319 tests must pass; if a test is flaky re-run it),
  3. the change really breaks the property above, and
  4. you have a demonstration: a new test (preferably a new #[test] function added to quinn-proto/src/tests/mod.rs or another existing test module, or a small new test file) that FAILS with the change applied and PASSES on the unmodified code.
Prefer changes that need something specific to manifest: a particular interleaving, a fault at a particular point, a multi-step sequence of operations, an unusual input or configuration, or two cooperating sites that each look fine alone — NOT changes that ordinary use would expose at once (those would fail the existing tests anyway). The two changes should touch different mechanisms/functions relevant to the property.

Deliverables — write them under /tmp/seed-out/{pid}/ (create it):
  a/patch.diff   — `git diff` of ONLY the library change A (no test code)
  a/demo.diff    — `git diff` of ONLY the demonstration test for A (applies on the unmodified tree)
  a/notes.md     — which part of the property it breaks, what it needs in order to manifest, the exact commands you ran and their results (demo test name, that it fails with the patch and passes without, that the full suite passes with the patch)
  b/patch.diff, b/demo.diff, b/notes.md — likewise for change B.
Make sure each patch.diff applies cleanly with `git apply` to a clean checkout of the worktree's HEAD, and demo.diff too (independently of patch.diff). When finished, leave the worktree clean (`git checkout -- . && git clean -fd` but keep the target/ dir if it is ignored) and reply with a short summary of the two changes. Be economical: build once, iterate on tests with `cargo test -p quinn-proto <name> --offline`.""")
