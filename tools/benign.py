#!/usr/bin/env python3
"""negative controls at repository level: every patch in /verif/benign/*.patch is a behaviour-preserving edit of /repo
(rename, reorder, extract, reformulate).  Each is applied to a scratch copy; ALL rule modules must stay silent
(apart from known findings).  usage: benign.py [name-substring]"""
import glob, importlib, json, os, shutil, subprocess, sys
sys.path.insert(0, os.path.join(os.path.dirname(os.path.abspath(__file__)), '..'))
from engine import thorough as T, run as R
from engine.facts import Facts, CheckBroken
sub = sys.argv[1] if len(sys.argv) > 1 else ''
pids = [json.loads(l)['id'] for l in open(os.path.join(R.VERIF, 'properties.jsonl'))]
mods = {p: importlib.import_module('rules.' + p) for p in pids}
known = {k['key'] for k in R.load_known() if k.get('status') == 'known'}
bad = 0
res = {}
for p in sorted(glob.glob(os.path.join(R.VERIF, 'benign', '*.patch'))):
    name = os.path.basename(p)[:-6]
    if sub and sub not in name:
        continue
    _, body = T.parse_patch(p)
    sc = T.scratch_copy(R.REPO)
    try:
        r = subprocess.run(['patch', '-p1', '-s', '--no-backup-if-mismatch'], input=body, text=True, cwd=sc, stdout=subprocess.PIPE, stderr=subprocess.STDOUT)
        if r.returncode != 0:
            print(name, 'PATCH DOES NOT APPLY', r.stdout[-200:])
            res[name] = 'does not apply'
            continue
        try:
            fd, st, th, log = R.get_facts(sc)
        except R.CompileFailed as e:
            print(name, 'DOES NOT COMPILE', str(e)[-400:])
            res[name] = 'does not compile'
            bad += 1
            continue
        F = Facts(fd)
        fired = {}
        for pid, m in mods.items():
            c = R.Ctx(pid, F, 'quick', 0)
            try:
                R.run_module(m, c)
            except CheckBroken as e:
                fired[pid] = ['CHECK-BROKEN ' + str(e)[:120]]
                continue
            ks = sorted({v['key'] for v in c.violations} - known)
            if ks:
                fired[pid] = ks
        res[name] = fired or 'silent'
        print(name, 'FALSE ALARM %s' % fired if fired else 'silent', '| aliases:', F.name_aliases[:4])
        bad += bool(fired)
    finally:
        shutil.rmtree(sc, ignore_errors=True)
import fcntl
rp = os.path.join(R.VERIF, 'benign', 'results.json')
with open(rp + '.lock', 'w') as lk:
    fcntl.flock(lk, fcntl.LOCK_EX)
    allres = {}
    if sub and os.path.exists(rp):
        allres = json.load(open(rp))
    allres.update(res)
    allres = {k: v for k, v in allres.items() if os.path.exists(os.path.join(R.VERIF, 'benign', k + '.patch'))}
    json.dump(allres, open(rp, 'w'), indent=1, sort_keys=True)
sys.exit(1 if bad else 0)
