#!/bin/bash
# verify_batch.sh C04 C09 ... : verify seeds a,b of each id in /tmp/seed-<id>, keep confirmed ones, remove the worktree
for id in "$@"; do
 (
  for x in a b; do
    [ -f /tmp/seed-out/$id/$x/patch.diff ] || continue
    python3 /verif/tools/verify_seed.py /tmp/seed-out/$id/$x /tmp/seed-$id > /tmp/seed-out/$id/$x/verify.json 2>&1
    python3 /verif/tools/keep_seed.py $id $x 2>&1 | tail -1
  done
  git -C /repo worktree remove --force /tmp/seed-$id
 ) &
done
wait
