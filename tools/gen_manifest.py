#!/usr/bin/env python3
"""regenerate MANIFEST.json from the rule modules present in rules/"""
import importlib, json, os, sys
V = os.path.dirname(os.path.dirname(os.path.abspath(__file__)))
sys.path.insert(0, V)
props = [json.loads(l) for l in open(os.path.join(V, 'properties.jsonl'))]
checks, na = [], []
for p in props:
    pid = p['id']
    path = os.path.join(V, 'rules', pid + '.py')
    if not os.path.exists(path):
        na.append({'property_id': pid, 'reason': 'static rules for this property are not built yet at this commit (work in progress); no claim is made'})
        continue
    mod = importlib.import_module('rules.' + pid)
    if getattr(mod, 'NOT_APPLICABLE', None):
        na.append({'property_id': pid, 'reason': mod.NOT_APPLICABLE})
        continue
    checks.append({
        'property_id': pid,
        'quick_cmd': './check %s --tier quick' % pid,
        'thorough_cmd': './check %s --tier thorough' % pid,
        'evidence_file': 'evidence/%s.json' % pid,
        'replay_cmd_template': './check %s --replay {path}' % pid,
        'engine': 'qvfacts+rules',
        'level_claimed': {
            'category': 'other',
            'text': mod.EXPLANATION,
            'design_ref': 'DESIGN.md section 5 (%s)' % pid,
        },
        'level_note': getattr(mod, 'NOTE', 'Trusted: rustc nightly MIR construction and Instance resolution; the fact extractor; the hand-confirmed rule tables (anchors, idioms, floors). Only the Linux x86-64 default-feature non-test build is analysed. The behaviour itself (values over histories/schedules) is not decided; only the structural necessary conditions listed are.'),
        'technique': getattr(mod, 'TECHNIQUE', 'static analysis: custom rustc_private MIR fact extractor + repository-specific rule tables (who-may-call/write/construct, dominance must-precede/must-follow, guard relations, value-flow descriptors)'),
    })
m = {
    'version': 1,
    'setup_cmd': './setup.sh',
    'hooks': {
        'guard': 'quinn_rs_quinn_verif',
        'enable': 'none needed: static analysis reads the unmodified source (RUSTFLAGS would carry --cfg quinn_rs_quinn_verif if hooks existed)',
        'baseline_off_cmd': 'cd /repo && cargo nextest run --workspace --no-fail-fast --test-threads 8 --offline',
        'source_commits': [],
        'add_only': True,
    },
    'engines': [
        {'name': 'qvfacts', 'path': 'driver/', 'serves_properties': [c['property_id'] for c in checks],
         'kind_free_text': 'rustc_private driver (RUSTC_WORKSPACE_WRAPPER) dumping MIR facts of quinn-proto, quinn, quinn-udp'},
        {'name': 'rules', 'path': 'engine/ + rules/', 'serves_properties': [c['property_id'] for c in checks],
         'kind_free_text': 'python3 rule engine: CFG/dominators/call graph/value descriptors + per-property rule tables'},
    ],
    'checks': checks,
    'notes': 'Static analysis only (see DESIGN.md). Genuine defects found on the pinned tree were repaired by fix: commits in /repo (known_findings.json, findings/).',
    'not_applicable': na,
}
json.dump(m, open(os.path.join(V, 'MANIFEST.json'), 'w'), indent=1)
print('checks:', [c['property_id'] for c in checks], 'n/a:', [x['property_id'] for x in na])
