#!/usr/bin/env python3
"""Confirm a seeded change: usage verify_seed.py <seed dir containing patch.diff, demo.diff> <scratch worktree>
1. demo alone on clean tree: demo test(s) pass   2. patch + demo: demo test(s) fail
3. patch alone: full suite passes.  Prints a JSON summary."""
import json, os, re, subprocess, sys
seed, wt = sys.argv[1], sys.argv[2]
def sh(cmd, **kw):
    return subprocess.run(cmd, shell=True, cwd=wt, stdout=subprocess.PIPE, stderr=subprocess.STDOUT, text=True, **kw)
def clean():
    sh('git checkout -q -- . && git clean -fdq -e target')
def apply(f):
    r = sh('git apply %s' % os.path.join(seed, f))
    return r.returncode == 0, r.stdout
demo = open(os.path.join(seed, 'demo.diff')).read()
names = []
lines = demo.splitlines()
crate = 'quinn-proto'
for i, l in enumerate(lines):
    if l.startswith('+++ b/'):
        crate = l[6:].split('/')[0]
    m = re.match(r'\+\s*(?:pub(?:\([a-z]+\))? )?(?:async )?fn (\w+)\s*\(', l)
    if m:
        # test attr within previous 4 added lines
        prev = ' '.join(lines[max(0, i - 4):i])
        if '#[test]' in prev or '#[tokio::test' in prev or 'test]' in prev:
            names.append((crate, m.group(1)))
res = {'seed': seed, 'tests': names}
def run_demo():
    out = {}
    for cr, n in names:
        r = sh('cargo test -p %s --offline %s 2>&1 | grep -E "^test |test result|error(\\[|:)" | head -20' % (cr, n))
        ok = bool(re.search(r'test .*%s \.\.\. ok' % n, r.stdout))
        failed = bool(re.search(r'test .*%s \.\.\. FAILED' % n, r.stdout))
        out[n] = 'pass' if ok and not failed else ('fail' if failed else 'norun:' + r.stdout[-300:])
    return out
clean()
ok, msg = apply('demo.diff'); res['demo_applies'] = ok
if not ok: res['err'] = msg
res['demo_on_clean'] = run_demo() if ok else {}
ok2, msg = apply('patch.diff'); res['patch_applies'] = ok2
if not ok2: res['err2'] = msg
res['demo_with_patch'] = run_demo() if ok and ok2 else {}
clean()
ok3, _ = apply('patch.diff')
r = sh('cargo nextest run --workspace --no-fail-fast --test-threads 8 --offline 2>&1 | tail -3')
m = re.search(r'(\d+) tests run: (\d+) passed', r.stdout)
res['suite_with_patch'] = m.group(0) if m else r.stdout[-300:]
res['suite_ok'] = bool(m and m.group(1) == m.group(2) and int(m.group(1)) >= 319)
clean()
# helper fns mistaken for tests: matched no test in either run
for n in [n for n in list(res['demo_on_clean']) if res['demo_on_clean'][n].startswith('norun') and '0 passed; 0 failed' in res['demo_on_clean'][n]
          and res['demo_with_patch'].get(n, '').startswith('norun') and len(res['demo_on_clean']) > 1]:
    res['demo_on_clean'].pop(n); res['demo_with_patch'].pop(n)
    res['tests'] = [t for t in res['tests'] if t[1] != n]
    names = [t for t in names if t[1] != n]
res['confirmed'] = bool(names) and all(v == 'pass' for v in res['demo_on_clean'].values()) and \
    all(v == 'fail' for v in res['demo_with_patch'].values()) and res['suite_ok']
print(json.dumps(res, indent=1))
