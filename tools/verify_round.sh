#!/bin/bash
# verify_round.sh <round> <name-for-a> <name-for-b> C04 C09 ... : seeds a,b of each id written by the round's sub-agent to
# /tmp/seed<round>-out/<id>/{a,b}/ are verified in the scratch worktree /tmp/seed<round>-<id>; confirmed ones are kept as
# /verif/seeded/<id>-<name>; the worktree (with its build output) is removed.
r=$1; na=$2; nb=$3; shift 3
for id in "$@"; do
 (
  for x in a b; do
    [ -f /tmp/seed$r-out/$id/$x/patch.diff ] || continue
    n=$na; [ $x = b ] && n=$nb
    python3 /verif/tools/verify_seed.py /tmp/seed$r-out/$id/$x /tmp/seed$r-$id > /tmp/seed$r-out/$id/$x/verify.json 2>&1
    python3 /verif/tools/keep_seed.py $id $x /tmp/seed$r-out $n 2>&1 | tail -1
  done
  git -C /repo worktree remove --force /tmp/seed$r-$id
 ) &
done
wait
