#!/bin/bash
# verify_batch2.sh C04 C09 ... : round 2 — verify seeds a,b of each id written to /tmp/seed2-out/<id>/ in worktree
# /tmp/seed2-<id>, keep confirmed ones as <id>-c / <id>-d, remove the worktree
for id in "$@"; do
 (
  for x in a b; do
    [ -f /tmp/seed2-out/$id/$x/patch.diff ] || continue
    n=c; [ $x = b ] && n=d
    python3 /verif/tools/verify_seed.py /tmp/seed2-out/$id/$x /tmp/seed2-$id > /tmp/seed2-out/$id/$x/verify.json 2>&1
    python3 /verif/tools/keep_seed.py $id $x /tmp/seed2-out $n 2>&1 | tail -1
  done
  git -C /repo worktree remove --force /tmp/seed2-$id
 ) &
done
wait
