#!/usr/bin/env python3
"""keep a confirmed seeded change under /verif/seeded/<Cxx>-<x>/ (patch.diff, demo.diff, notes.md, meta.json)"""
import json, os, shutil, sys
pid, x = sys.argv[1], sys.argv[2]
out = sys.argv[3] if len(sys.argv) > 3 else '/tmp/seed-out'      # where the sub-agent wrote
name = sys.argv[4] if len(sys.argv) > 4 else x                    # suffix under /verif/seeded
src = '%s/%s/%s' % (out, pid, x)
v = json.load(open(os.path.join(src, 'verify.json')))
if not v['confirmed']:
    sys.exit('not confirmed: %s' % v)
dst = '/verif/seeded/%s-%s' % (pid, name)


def _norm(t):
    import re
    return '\n'.join(l for l in t.splitlines() if (l.startswith('+') or l.startswith('-')) and not l.startswith('+++') and not l.startswith('---'))


import glob
mine = _norm(open(os.path.join(src, 'patch.diff')).read())
for other in sorted(glob.glob('/verif/seeded/C*-*/patch.diff')):
    if os.path.dirname(other) != dst and _norm(open(other).read()) == mine:
        print('duplicate of %s: not kept' % os.path.basename(os.path.dirname(other)))
        with open('/verif/seeded/duplicates.txt', 'a') as f:
            f.write('%s/%s (round dir %s) == %s\n' % (pid, x, out, os.path.basename(os.path.dirname(other))))
        sys.exit(0)
os.makedirs(dst, exist_ok=True)
for f in ('patch.diff', 'demo.diff', 'notes.md'):
    shutil.copy(os.path.join(src, f), os.path.join(dst, f))
notes = open(os.path.join(src, 'notes.md')).read()
meta = {
    'property': pid,
    'origin': 'independent sub-agent given only the property text and a scratch worktree',
    'needs_to_manifest': '(see notes.md)',
    'demo_tests': [n for _, n in v['tests']],
    'confirmed_by_me': {
        'command': 'tools/verify_seed.py (scratch worktree): demo alone -> pass; patch+demo -> fail; patch alone -> full nextest suite',
        'demo_on_clean_tree': v['demo_on_clean'], 'demo_with_patch': v['demo_with_patch'], 'suite_with_patch': v['suite_with_patch'],
    },
    'detected_by': None,
}
json.dump(meta, open(os.path.join(dst, 'meta.json'), 'w'), indent=1)
print('kept', dst)
