"""Name pins: make the rules insensitive to renaming parameters and local variables.

Rules refer to parameters and a few locals by their source names (`offset`, `hwin`, `pad_datagram`, ...).  Renaming one is
a behaviour-preserving edit and must not raise an alarm.  rules/name_pins.json records, for the pinned tree, the
parameter names of every function (by position) and, for every user-named local, its type and a NAME-FREE signature of
its definitions.  When facts are loaded:
  * parameters: if a function still has the pinned arity, each parameter is presented to the rules under its pinned name;
  * locals: if a pinned name is missing from a function, and exactly one new (un-pinned) named local of the same type
    has the same definition signature, that local is presented under the pinned name (also to closures capturing it).
Anything else (arity changed, definition changed, ambiguous) is left alone and the rules see the code as it is.
"""
import json, os
from . import desc as D

PIN_FILE = os.path.join(os.path.dirname(os.path.dirname(os.path.abspath(__file__))), 'rules', 'name_pins.json')


def sig(d, depth=0):
    """canonical string of a descriptor with every parameter/local/upvar NAME erased (parameters keep their position)"""
    if not isinstance(d, tuple) or not d:
        return str(d)
    if depth > 14:
        return '~'
    t = d[0]
    if t == 'param':
        return 'p%s' % d[1]
    if t == 'local':
        return 'L'
    if t == 'upvar':
        return 'U'
    if t == 'env':
        return 'E'
    if t == 'field':
        return '%s.%s' % (sig(d[1], depth + 1), d[2])
    if t == 'variant':
        return '%s@%s' % (sig(d[1], depth + 1), d[2])
    if t == 'index':
        return '%s[]' % sig(d[1], depth + 1)
    if t == 'discr':
        return 'discr(%s)' % sig(d[1], depth + 1)
    if t == 'const':
        return 'k(%s,%s,%s)' % (d[1], str(d[2])[:40], d[3] if len(d) > 3 else '')
    if t == 'call':
        return '%s(%s)' % (d[1], ','.join(sig(x, depth + 1) for x in d[3]))
    if t == 'bin':
        return '(%s %s %s)' % (sig(d[2], depth + 1), d[1], sig(d[3], depth + 1))
    if t == 'un':
        return '%s(%s)' % (d[1], sig(d[2], depth + 1))
    if t == 'agg':
        return 'agg:%s:%s(%s)' % (d[1], d[2] if d[1] != 'closure' else 'closure', ','.join(sig(x, depth + 1) for x in d[3]))
    if t == 'phi':
        return 'phi[%s]' % '|'.join(sorted(sig(x, depth + 1) for x in d[1]))
    if t == 'overflow':
        return sig(d[1], depth + 1)
    return t


def local_signature(facts, body, l):
    from .prims import describer
    d = describer(facts, body)
    outs = []
    for df in body.defs_of(l):
        try:
            if df[0] == 'stmt':
                outs.append(sig(d.rvalue(df[3], df[1], df[2], 0)))
            elif df[0] == 'call':
                outs.append(sig(d.call_desc(df[2], 0)))
            else:
                outs.append(df[0])
        except Exception:
            outs.append('?')
    return '|'.join(sorted(set(outs)))[:4000]


def named_locals(body):
    return [(l, ty, nm) for l, (ty, nm) in enumerate(body.locals) if nm and l > body.argc]


def snapshot(facts):
    pins = {'params': {}, 'locals': {}}
    for b in facts.bodies.values():
        if b.kind not in ('fn', 'closure', 'coroutine') or b.crate == 'qvfix':
            continue
        if b.kind == 'fn':
            pins['params'][b.id] = [b.locals[i][1] for i in range(1, b.argc + 1)]
        nl = named_locals(b)
        if nl:
            ent = {}
            for l, ty, nm in nl:
                ent.setdefault(nm, []).append([ty, local_signature(facts, b, l), l])
            pins['locals'][b.id] = ent
    return pins


_PINS = None


def load():
    global _PINS
    if _PINS is None:
        try:
            _PINS = json.load(open(PIN_FILE))
        except (OSError, ValueError):
            _PINS = {'params': {}, 'locals': {}}
    return _PINS


def apply(facts):
    """rewrite Body.locals names in place; returns the list of aliases made (for the evidence file)"""
    pins = load()
    made = []
    for b in list(facts.bodies.values()):
        pp = pins['params'].get(b.id)
        if pp is not None and b.kind == 'fn' and len(pp) == b.argc:
            for i, nm in enumerate(pp):
                cur = b.locals[i + 1][1]
                if nm and cur and cur != nm:
                    b.locals[i + 1] = [b.locals[i + 1][0], nm]
                    made.append('%s: parameter %d `%s` presented as `%s`' % (b.short, i, cur, nm))
                    _alias_upvar(facts, b, cur, nm)
        pl = pins['locals'].get(b.id)
        if not pl:
            continue
        cur = named_locals(b)
        # pinned items (one per pinned local; a shadowed name has several) in declaration order
        items = []
        for nm, ents in pl.items():
            if ents and not isinstance(ents[0], list):
                ents = [ents + [0]]          # old file format: [ty, sig]
            for e in ents:
                items.append((e[2] if len(e) > 2 else 0, nm, e[0], e[1]))
        items.sort()
        by_name = {}
        for l, ty, nm in cur:
            by_name.setdefault(nm, []).append(l)
        unmatched = []
        used = set()
        for idx, nm, ty, sg in items:
            ls = [l for l in by_name.get(nm, []) if l not in used]
            if ls:
                used.add(ls[0])               # same name still present: nothing to do
            else:
                unmatched.append((idx, nm, ty, sg))
        if not unmatched:
            continue
        pinned_names = set(pl)
        fresh = [(l, ty, nm) for l, ty, nm in cur if l not in used and nm not in pinned_names]
        if not fresh:
            continue
        sigs = {l: local_signature(facts, b, l) for l, ty, nm in fresh}
        # group by (type, signature); several pinned locals with the same signature are re-bound in declaration order
        groups = {}
        for it in unmatched:
            groups.setdefault((it[2], it[3]), []).append(it)
        for (ty, sg), its in groups.items():
            if ' || ' in sg:
                continue
            cands = sorted(l for l, t2, n2 in fresh if t2 == ty and sigs[l] == sg and l not in used)
            if len(cands) != len(its):
                continue
            for (idx, nm, _, _), l in zip(sorted(its), cands):
                old_name = b.locals[l][1]
                b.locals[l] = [b.locals[l][0], nm]
                used.add(l)
                made.append('%s: local `%s` presented as `%s`' % (b.short, old_name, nm))
                _alias_upvar(facts, b, old_name, nm)
    return made


def _alias_upvar(facts, parent, cur, pinned):
    for c in facts.bodies.values():
        if c.parent == parent.id or (c.root == parent.id and c.kind in ('closure', 'coroutine')):
            if not hasattr(c, 'upvar_alias'):
                c.upvar_alias = {}
            c.upvar_alias[cur] = pinned
