"""Generic rule shapes used by rules/Cxx.py.  Each takes the Ctx and records obligations."""
from .facts import CheckBroken, path_matches, short, canon
from .prims import *
from . import desc as D


def _root(ctx, body):
    return ctx.facts.root_of(body)


def root_matches(ctx, body, allowed):
    r = _root(ctx, body)
    return any(path_matches(r.id, a) for a in allowed)


def who_may_call(ctx, rule, instance, targets, allowed, floor=None, crate='quinn_proto', skip_noise=True, why=''):
    """P1: every live call site resolving to `targets` lies in a function of `allowed` (closures -> parent)."""
    sites = ctx.facts.callers_of(*targets, crate=crate)
    n = 0
    for c in sites:
        if skip_noise and is_noise(c):
            continue
        n += 1
        r = _root(ctx, c.body)
        if root_matches(ctx, c.body, allowed):
            ctx.ok(rule, instance, r, c.where(), 'call of %s from allowed caller' % short(c.f))
        else:
            ctx.bad(rule, instance + '/unexpected_caller', r, c.where(),
                    'call of %s from %s, allowed callers are %s. %s' % (short(c.f), r.short, sorted(allowed), why))
    if floor is not None:
        ctx.floor(rule, instance, n, floor)
    return sites


def who_may_write(ctx, rule, instance, adt, field, allowed, floor=None, crate='quinn_proto', kinds=('assign', 'mutborrow', 'callresult'),
                  exempt_consumers=(), why=''):
    """P2: every write / &mut borrow of S.f lies in `allowed` functions."""
    ws = [w for w in field_writes(ctx.facts, adt, field, crate=crate) if w.kind in kinds]
    n = 0
    for w in ws:
        if w.kind == 'mutborrow' and w.call is not None and (is_noise(w.call) or w.call.is_(*exempt_consumers)):
            continue
        n += 1
        r = _root(ctx, w.body)
        if root_matches(ctx, w.body, allowed):
            ctx.ok(rule, instance, r, w.where(), '%s of %s.%s' % (w.kind, adt, field))
        else:
            ctx.bad(rule, instance + '/unexpected_writer', r, w.where(),
                    '%s of %s.%s in %s; allowed writers: %s. %s' % (w.kind, adt, field, r.short, sorted(allowed), why))
    if floor is not None:
        ctx.floor(rule, instance, n, floor)
    return ws


def who_may_construct(ctx, rule, instance, adt, variant, allowed, floor=None, crate='quinn_proto', pred=None, why=''):
    """P3: aggregate construction sites of ADT(::variant) [satisfying pred] lie in `allowed`."""
    cs = [c for c in constructions(ctx.facts, adt, variant, crate=crate) if not c.body.trait.endswith('::Clone')]
    if pred:
        cs = [c for c in cs if pred(c)]
    for c in cs:
        r = _root(ctx, c.body)
        if root_matches(ctx, c.body, allowed):
            ctx.ok(rule, instance, r, c.where(), 'construction of %s::%s' % (short(c.adt), c.variant))
        else:
            ctx.bad(rule, instance + '/unexpected_constructor', r, c.where(),
                    'construction of %s::%s in %s; allowed: %s. %s' % (short(c.adt), c.variant, r.short, sorted(allowed), why))
    if floor is not None:
        ctx.floor(rule, instance, len(cs), floor)
    return cs


def fmt_path(body, path):
    if not path:
        return ''
    def ln(bb):
        t = body.blocks[bb]['t']
        if t[0] == 'call':
            return t[1]['line']
        if t[0] in ('switch',):
            return t[4]
        for s in body.blocks[bb]['s']:
            if s[0] in ('=', 'sd'):
                return s[-1]
        return 0
    pts = []
    last = None
    for bb in path:
        l = ln(bb)
        if l and l != last:
            pts.append('bb%d(L%d)' % (bb, l))
            last = l
    if len(pts) > 14:
        pts = pts[:6] + ['...'] + pts[-6:]
    return ' -> '.join(pts)


def must_follow_sites(ctx, rule, instance, body, sites, then_pats, depth=3, exempt_returns=(), extra_blocks=(), detail='', site_class=''):
    """P5 for each site (Call or block index) in `sites`."""
    okall = True
    for s in sites:
        bb = s.bb if hasattr(s, 'bb') else s
        line = s.line if hasattr(s, 'line') else 0
        p = must_follow(ctx.facts, body, bb, then_pats, depth, exempt_returns, extra_blocks)
        where = '%s:%d' % (body.file, line) if line else body.where()
        if p is None:
            ctx.ok(rule, instance, body, where, 'every normal path after the site passes %s. %s' % ('|'.join(then_pats), detail))
        else:
            okall = False
            ctx.bad(rule, instance, body, where, 'a path from the site to a normal return avoids %s: %s. %s' % ('|'.join(then_pats), fmt_path(body, p), detail), site_class)
    return okall


def must_precede_sites(ctx, rule, instance, body, sites, before_pats, depth=3, detail='', site_class=''):
    """P4 for each site."""
    okall = True
    for s in sites:
        bb = s.bb if hasattr(s, 'bb') else s
        line = s.line if hasattr(s, 'line') else 0
        p = must_precede(ctx.facts, body, bb, before_pats, depth)
        where = '%s:%d' % (body.file, line) if line else body.where()
        if p is None:
            ctx.ok(rule, instance, body, where, 'every path to the site passes a site reaching %s. %s' % ('|'.join(before_pats), detail))
        else:
            okall = False
            ctx.bad(rule, instance, body, where, 'a path entry -> site avoids %s: %s. %s' % ('|'.join(before_pats), fmt_path(body, p), detail), site_class)
    return okall


def find_branches(ctx, body, pred):
    """branches of body whose discriminant descriptor satisfies pred(desc)"""
    return [b for b in branches(ctx.facts, body) if pred(b.desc)]


def desc_has(d, fields=(), calls=(), consts=(), params=(), upvars=(), named=()):
    for f in fields:
        if not D.has_field(d, f):
            return False
    for c in calls:
        if not D.has_call(d, c):
            return False
    for c in consts:
        if not D.has_const(d, value=c):
            return False
    for n in named:
        if not D.has_const(d, named=n):
            return False
    for p in params:
        if not D.has_param(d, name=p):
            return False
    for u in upvars:
        if not D.has_upvar(d, u):
            return False
    return True


def cmp_branch(ctx, body, op_set, lhs=None, rhs=None, either=False):
    """find bool branches whose condition is a comparison; returns list of (Branch, relation_when_true)
    where lhs/rhs are predicates over descriptors of the *true* relation (op,a,b)."""
    out = []
    for br in branches(ctx.facts, body):
        rel = relation_on(br.desc, True)
        if rel is None:
            continue
        out.append((br, rel))
    return out


def returns_on_edge(ctx, body, frm, to, pred, avoid_sites=()):
    """every return reachable after taking edge frm->to has a returned-value descriptor satisfying pred,
    and no block in avoid_sites is reachable."""
    reach = body.reachable_from(to)
    d = describer(ctx.facts, body)
    bad = []
    for r in body.return_blocks():
        if r in reach:
            rd = d.place([0, []], r, term_idx(body, r))
            if not pred(rd):
                bad.append((r, rd))
    hit = [s for s in avoid_sites if s in reach]
    return bad, hit


def err_code_calls(ctx, body, code):
    """blocks calling TransportError::<CODE>(..)"""
    return {c.bb for c in body.calls() if c.is_('transport_error::Error::' + code)}


def edge_leads_to_error(ctx, body, br, truth_value, code, stop_sites=()):
    """on the edge of `br` taken when the discriminant == truth_value, every path reaches a call of
    TransportError::<code> before any of stop_sites and before a normal return not carrying it."""
    tgt = br.target(truth_value)
    errs = err_code_calls(ctx, body, code)
    if not errs:
        return False, 'no TransportError::%s site in %s' % (code, body.short)
    # path from tgt to any return or stop site avoiding errs?
    goals = set(body.return_blocks()) | set(stop_sites)
    p = path_avoiding(body, [tgt], goals, errs)
    if p is None:
        return True, ''
    return False, 'path avoiding TransportError::%s: %s' % (code, fmt_path(body, p))


# --------------------------------------------------------------------------
# guards (P6)
# --------------------------------------------------------------------------

def effect_blocks(ctx, body, code=None, variant=None, calls=()):
    """blocks that realise an effect: TransportError::<code>(..) call, construction of (adt, variant), or a call"""
    res = set()
    if code:
        res |= err_code_calls(ctx, body, code)
    if variant:
        adt, var = variant
        for i, j, pl, rv, line in body.assigns():
            if rv[0] == 'agg' and rv[1][0] == 'adt' and path_matches(rv[1][1], adt) and rv[1][2] == var:
                res.add(i)
    if calls:
        res |= {c.bb for c in body.calls() if c.is_(*calls)}
    return res


OFFSETS_SEEN = []


def guard_edges(ctx, body, relpred, stop_named=False, offsets=()):
    """(Branch, truth, target) for every branch edge on which a relation satisfying relpred(op,a,b) holds.
    A relation whose operands carry literal arithmetic offsets (`x + 1`, `x.saturating_sub(2)`) other than the
    ones listed in `offsets` is NOT accepted as the stated relation (off-by-N edits keep every anchor but change
    the bound)."""
    out = []
    for br in branches(ctx.facts, body, stop_named):
        for truth in (True, False):
            rel = relation_on(br.desc, truth)
            if rel is not None and relpred(*rel):
                offs = D.const_offsets(rel[1]) | D.const_offsets(rel[2])
                extra = offs - set(offsets)
                if extra:
                    OFFSETS_SEEN.append((body.short, br.where(), sorted(extra)))
                    continue
                out.append((br, truth, br.target(1 if truth else 0)))
    return out


def _offset_note(body):
    xs = [(w, e) for f, w, e in OFFSETS_SEEN if f == body.short]
    return '' if not xs else ' (a branch at %s has the relation but with literal offset(s) %s on an operand — bound shifted)' % (xs[-1][0], xs[-1][1])


def bool_edges(ctx, body, pred, stop_named=False):
    """(Branch, truth, target) for branches whose (negation-peeled) bool discriminant satisfies pred; truth is the
    value of the peeled descriptor on that edge"""
    out = []
    for br in branches(ctx.facts, body, stop_named):
        inner, neg = peel_not(br.desc)
        if pred(inner):
            out.append((br, True, br.target(0 if neg else 1)))
            out.append((br, False, br.target(1 if neg else 0)))
    return out


def discr_edges(ctx, body, pred, stop_named=False):
    """branches on discr(x) where pred(x): returns list of Branch"""
    return [br for br in branches(ctx.facts, body, stop_named) if br.desc[0] == 'discr' and pred(br.desc[1])]


def guard_error(ctx, rule, instance, body, relpred, code=None, variant=None, calls=(), protect=(), what='', floor=1, offsets=()):
    """P6: on every edge where the violating relation holds, every path reaches the effect before any protected
    block and before a normal return."""
    edges = guard_edges(ctx, body, relpred, offsets=offsets)
    eff = effect_blocks(ctx, body, code, variant, calls)
    n = 0
    for br, truth, tgt in edges:
        n += 1
        goals = set(body.return_blocks()) | set(protect)
        p = path_avoiding(body, [tgt], goals, eff) if eff else [tgt]
        if p is None:
            ctx.ok(rule, instance, body, br.where(), '%s: violating edge always reaches %s' % (what, code or variant or calls))
        else:
            ctx.bad(rule, instance, body, br.where(), '%s: on the violating edge a path avoids %s: %s' % (what, code or variant or calls, fmt_path(body, p)))
    if n < floor:
        ctx.bad(rule, instance + '/guard_missing', body, body.where(), '%s: no branch with the required relation found (guard removed or relation changed)' % what + _offset_note(body))
    return edges


def guard_protects(ctx, rule, instance, body, relpred, sites, what='', need_dom=True, stop_named=False, offsets=()):
    """P4+edge: every protected site (block) has a guard with the stated relation that dominates it and from whose
    violating edge it is unreachable without re-evaluating the guard.  (need_dom is kept for call compatibility.)"""
    edges = guard_edges(ctx, body, relpred, stop_named, offsets=offsets)
    if not edges:
        ctx.bad(rule, instance + '/guard_missing', body, body.where(), '%s: no branch with the required relation found' % what + _offset_note(body))
        return
    sites = [s for s in sites if s in body.live_blocks()]
    bad = []
    for s in sites:
        covered = False
        for br, truth, tgt in edges:
            if body.dominates(br.bb, s) and s not in body.reachable_from(tgt, avoid=[br.bb]):
                covered = True
        if not covered:
            bad.append(s)
    br0 = edges[0][0]
    ctx.check(not bad, rule, instance, body, br0.where(), '%s: %d protected site(s) only reachable over the pass edge of a dominating guard' % (what, len(sites)),
              '%s: protected site blocks %s are not protected by a dominating guard with this relation' % (what, bad))


def store_values(ctx, adt, field, in_fn=None, crate='quinn_proto'):
    """(Write, value descriptor) for direct stores to S.f and for stores through a local `&mut` borrow of it"""
    out = []
    ws = []
    for w in field_writes(ctx.facts, adt, field, crate=crate, include_borrows=True):
        if w.kind == 'mutborrow':
            ws.extend(borrow_stores(ctx.facts, w))
        else:
            ws.append(w)
    for w in ws:
        if in_fn is not None and ctx.facts.root_of(w.body).id != in_fn.id:
            continue
        d = describer(ctx.facts, w.body)
        if w.kind in ('assign', 'viaborrow') and w.rv and w.rv[0] != 'sd':
            out.append((w, d.rvalue(w.rv, w.bb, w.idx, 0)))
        elif w.kind == 'callresult':
            out.append((w, d.call_desc(w.call, 0)))
    return out


def local_defs_desc(ctx, body, name):
    """descriptors of every value assigned to the user-named local `name` (whole-local stores and call results)"""
    out = []
    d = describer(ctx.facts, body)
    for l, (ty, nm) in enumerate(body.locals):
        if nm != name:
            continue
        for df in body.defs_of(l):
            if df[0] == 'stmt':
                out.append(d.rvalue(df[3], df[1], df[2], 0))
            elif df[0] == 'call':
                out.append(d.call_desc(df[2], 0))
    return out


def flat(d):
    """flatten phi alternatives"""
    if d[0] == 'phi':
        r = []
        for x in d[1]:
            r.extend(flat(x))
        return r
    return [d]


# ---- rules shared between properties ------------------------------------------------------------
class Relabel:
    """a Ctx that records under another rule letter: an obligation that two properties rest on is evaluated by the module
    that owns it and reported under both properties (instance names are kept, the key carries the borrower's id/letter)"""

    def __init__(self, ctx, rule):
        self._c, self._r = ctx, rule

    def __getattr__(self, n):
        return getattr(self._c, n)

    def ok(self, rule, *a, **k):
        return self._c.ok(self._r, *a, **k)

    def bad(self, rule, *a, **k):
        return self._c.bad(self._r, *a, **k)

    def check(self, cond, rule, *a, **k):
        return self._c.check(cond, self._r, *a, **k)

    def floor(self, rule, *a, **k):
        return self._c.floor(self._r, *a, **k)

    def info(self, rule, *a, **k):
        return self._c.info(self._r, *a, **k)


def share(ctx, owner, fn_name, letter, why):
    """run rule function `fn_name` of module rules.<owner> under this property's letter; fail closed if it is gone"""
    import importlib
    mod = importlib.import_module('rules.' + owner)
    fn = getattr(mod, fn_name, None)
    if fn is None:
        ctx.bad(letter, 'shared_rule_present', 'rules.%s.%s' % (owner, fn_name), '', 'the shared rule is gone: the obligation (%s) is not checked' % why)
        return
    ctx.info(letter, 'shared with %s.%s: %s' % (owner, fn_name, why))
    fn(Relabel(ctx, letter))
