"""Fixture controls: every primitive is exercised on /verif/fixtures (crate qvfix) on every run.
A primitive whose positive control stays silent or whose negative control fires makes the check CHECK-BROKEN."""
from .prims import *
from .rulelib import guard_edges, flat, local_defs_desc
from . import desc as D
from . import guarded as G


class _Shim:
    """minimal ctx for helper functions that only need .facts"""
    def __init__(self, facts):
        self.facts = facts


def run(ctx, fx):
    F = fx
    s = _Shim(F)

    def fn(name):
        return F.fn(name, 'qvfix')

    # P1 who-may-call (closures attributed to the parent)
    roots_ = {F.root_of(c.body).short for c in F.callers_of('qvfix::target', crate='qvfix')}
    ctx.control('P1.rogue_caller_found', 'qvfix::rogue_caller' in roots_, True)
    ctx.control('P1.allowed_caller_found', 'qvfix::allowed_caller' in roots_, True)
    # P5 must-follow
    for name, expect in (('pair_ok', False), ('pair_bad', True)):
        b = fn(name)
        c = b.calls_to('qvfix::acquire')[0]
        p = must_follow(F, b, c.bb, ['qvfix::release'], 0)
        ctx.control('P5.' + name, p is not None, expect)
    # P4 must-precede + edge
    for name, expect in (('guarded_ok', False), ('guarded_bad', True)):
        b = fn(name)
        act = b.calls_to('qvfix::act')[0]
        v = b.calls_to('qvfix::validate')[0]
        fired = True
        for br in branches(F, b):
            inner, neg = peel_not(br.desc)
            if contains_site(inner, v):
                t_bad = br.target(1 if neg else 0)
                fired = act.bb in b.reachable_from(t_bad, avoid=[br.bb])
        ctx.control('P4.' + name, fired, expect)
    b = fn('guarded_closure_ok')
    act = b.calls_to('qvfix::act')[0]
    ctx.control('P4.closure_lookthrough', must_precede(F, b, act.bb, ['qvfix::validate'], 2) is None, True)
    # P6 guard relation
    for name, expect in (('Res::open_ok', False), ('Res::open_bad', True)):
        b = fn(name)
        es = guard_edges(s, b, lambda o, a, c: o == 'Le' and D.has_field(a, 'limit') and D.has_field(c, 'count'))
        ctx.control('P6.' + name, not es, expect)
    # jump threading (matches!)
    b = fn('Res::matches_ok')
    st = [w.bb for w in field_writes(F, 'Res', 'count', crate='qvfix') if w.body.id == b.id and w.kind == 'assign']
    ok = False
    for br in branches(F, b):
        if br.desc[0] == 'discr':
            for v, t in br.edges:
                reach = b.reachable_from(t, avoid=[br.bb])
                if st and st[0] not in reach:
                    ok = True
    ctx.control('CFG.jump_threading', ok, True)
    # P2 / P8 write idiom
    for name, expect in (('Res::raise_ok', False), ('Res::raise_bad', True)):
        b = fn(name)
        ws = [w for w in field_writes(F, 'Res', 'limit', crate='qvfix', include_borrows=False) if w.body.id == b.id]
        d = describer(F, b)
        v = d.rvalue(ws[0].rv, ws[0].bb, ws[0].idx, 0) if ws[0].rv else d.call_desc(ws[0].call, 0)
        fired = not (v[0] == 'call' and v[1].endswith('::max') and D.has_field(v, 'limit'))
        ctx.control('P8.' + name, fired, expect)
    # capped container
    for name, expect in (('Res::push_ok', False), ('Res::push_bad', True)):
        b = fn(name)
        push = b.calls_to('Vec::push')[0]
        es = guard_edges(s, b, lambda o, a, c: o == 'Le' and D.has_const(a, 16) and D.has_call(c, 'Vec::len'))
        fired = not any(b.dominates(br.bb, push.bb) and push.bb not in b.reachable_from(tgt, avoid=[br.bb]) for br, truth, tgt in es)
        ctx.control('P6cap.' + name, fired, expect)
    # P7 flows-always
    for name, expect in (('flow_ok', False), ('flow_bad', True), ('flow_missing', True)):
        b = fn(name)
        c = b.calls_to('qvfix::take')[0]
        sinks, path = flows_always(F, c, ['qvfix::account'])
        ctx.control('P7.' + name, (not sinks) or path is not None, expect)
    b = fn('flow_ok')
    c = b.calls_to('qvfix::take')[0]
    ctx.control('P7.via_field', bool(flow_sinks(F, c, ['qvfix::retransmit'], via_field='frames')), True)
    # P16 guarded read (bounds asserts)
    for name, expect in (('read_ok', False), ('read_bad', True), ('read_named_ok', False), ('read_named_bad', True)):
        b = fn(name)
        asserts = [i for i, blk in enumerate(b.blocks) if blk['t'][0] == 'assert' and blk['t'][3] == 'bounds']
        fired = True
        for a in asserts:
            gs = G._controlling(F, b, a, True)
            fired = not gs
        ctx.control('P16.' + name, fired, expect)
    # P17 ordered bounds
    from rules.C03 import ordered
    for name, expect in (('clamp_ok', False), ('clamp_bad', True)):
        b = fn(name)
        c = [x for x in b.calls() if short(x.f).endswith('clamp')][0]
        ok, why = ordered(arg_desc(F, c, 1), arg_desc(F, c, 2))
        ctx.control('P17.' + name, not ok, expect)
    # P13 held-at
    for name, expect in (('held_ok', False), ('held_bad', True)):
        b = fn(name)
        lk = [x for x in b.calls() if x.is_('Result::unwrap')][0]
        g = lk.dst[0]
        drops = set()
        for i, blk in enumerate(b.blocks):
            if not blk['c'] and blk['t'][0] == 'drop' and blk['t'][1][0] == g:
                drops.add(i)
            if not blk['c'] and blk['t'][0] == 'call' and (blk['t'][1]['f'] or '').endswith('mem::drop'):
                drops.add(i)
        reg = b.calls_to('qvfix::register')[0]
        held = reg.bb in b.reachable_from(lk.t, avoid=drops) and not any(reg.bb in b.reachable_from(b.succ[d_][0]) for d_ in drops if b.succ[d_])
        ctx.control('P13.' + name, not held, expect)
    # P14 pending-justified
    for name, expect in (('pending_ok', False), ('pending_bad', True)):
        b = fn(name)
        pend = [c for c in constructions(F, 'Poll', 'Pending', crate='qvfix') if c.body.id == b.id][0]
        reg = {c.bb for c in b.calls_to('qvfix::register')}
        p = path_avoiding(b, [0], [pend.bb], reg)
        ctx.control('P14.' + name, p is not None, expect)
    # P9 no-reach
    for name, expect in (('reach_bad', True), ('reach_ok', False)):
        b = fn(name)
        ctx.control('P9.' + name, may_reach(F, b, ['Instant::now'], 3), expect)
    # zero-count rule control: RandomState iteration must be detectable
    b = fn('iter_random_state')
    hit = False
    for c in b.calls():
        sh = short(c.f)
        if sh.split('::')[0] == 'HashMap' and sh.split('::')[-1] == 'values':
            recv = b.local_ty(c.args[0][1][0])
            hit = 'FxBuildHasher' not in recv
    ctx.control('P1zero.random_state_iteration_detected', hit, True)
    # P11 path partition
    b = fn('partition')
    acts = b.calls_to('qvfix::act')
    gate = [c for c in acts if D.has_const(arg_desc(F, c, 0), 7)][0]
    other = [c for c in acts if D.has_const(arg_desc(F, c, 0), 9)][0]
    r = reach_under(F, b, {'close': True})
    ctx.control('P11.gate_unreachable_under_close', gate.bb not in r, True)
    ctx.control('P11.other_reachable_under_close', other.bb in r, True)
    # P12 path sum: generic argument sizes recorded
    b = fn('pathsum')
    szs = sorted(c.sz[-1] for c in b.calls_to('qvfix::push_bytes') if c.sz)
    ctx.control('P12.sizes_of_type_arguments', szs == [1, 2, 4, 20], True)
