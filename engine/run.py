"""Check runner: facts cache, rule evaluation, known findings, evidence, exit codes."""
import fcntl, glob, hashlib, importlib, json, os, shutil, subprocess, sys, time, traceback

VERIF = os.path.dirname(os.path.dirname(os.path.abspath(__file__)))
REPO = os.environ.get('QV_REPO', '/repo')
CACHE = os.environ.get('QV_CACHE') or os.path.join(VERIF, '.cache')   # QV_CACHE: private cache for parallel mutant work
DRIVER = os.path.join(VERIF, 'driver', 'target', 'release', 'qvfacts')
ENGINE_VERSION = 'engine-3'
PACKAGES = ['-p', 'quinn-proto', '-p', 'quinn', '-p', 'quinn-udp']

from .facts import Facts, CheckBroken, short


def sh(cmd, **kw):
    return subprocess.run(cmd, shell=isinstance(cmd, str), stdout=subprocess.PIPE, stderr=subprocess.STDOUT, text=True, **kw)


def nightly_sysroot():
    r = sh('rustc +nightly --print sysroot')
    return r.stdout.strip()


def tree_hash(repo):
    h = hashlib.sha256()
    files = []
    for root, dirs, fs in os.walk(repo):
        dirs[:] = sorted(d for d in dirs if d not in ('target', '.git', 'fuzz', 'bench', 'perf', 'docs'))
        for f in sorted(fs):
            if f.endswith('.rs') or f in ('Cargo.toml', 'Cargo.lock', 'build.rs'):
                files.append(os.path.join(root, f))
    for p in files:
        h.update(os.path.relpath(p, repo).encode())
        h.update(b'\0')
        with open(p, 'rb') as fh:
            h.update(fh.read())
        h.update(b'\0')
    for extra in (os.path.join(VERIF, 'driver', 'src', 'main.rs'),):
        with open(extra, 'rb') as fh:
            h.update(fh.read())
    fx = os.path.join(VERIF, 'fixtures', 'src', 'lib.rs')
    if os.path.exists(fx):
        with open(fx, 'rb') as fh:
            h.update(fh.read())
    return h.hexdigest()[:20], len(files)


def ensure_driver():
    if os.path.exists(DRIVER):
        src = os.path.join(VERIF, 'driver', 'src', 'main.rs')
        if os.path.getmtime(DRIVER) >= os.path.getmtime(src):
            return
    r = sh('cargo +nightly build --release --offline', cwd=os.path.join(VERIF, 'driver'),
           env=dict(os.environ, CARGO_NET_OFFLINE='true'))
    if r.returncode != 0 or not os.path.exists(DRIVER):
        raise CheckBroken('driver build failed:\n' + r.stdout[-3000:])


def run_driver(repo, outdir, features=None, cfgs=(), tag='', packages=None, target_dir=None):
    """compile the workspace libs of `repo` with the fact extractor; returns (ok, log)"""
    ensure_driver()
    sysroot = nightly_sysroot()
    tdir = target_dir or os.path.join(CACHE, 'target')
    os.makedirs(tdir, exist_ok=True)
    os.makedirs(outdir, exist_ok=True)
    # cargo's freshness cache would skip the wrapper: drop the members' fingerprints
    for prof in glob.glob(os.path.join(tdir, '*', '.fingerprint')) + glob.glob(os.path.join(tdir, '.fingerprint')):
        for d in glob.glob(os.path.join(prof, 'quinn-*')) + glob.glob(os.path.join(prof, 'qvfix-*')):
            shutil.rmtree(d, ignore_errors=True)
    env = dict(os.environ)
    flags = '-Zmir-opt-level=0 -Awarnings -Dunused_must_use'
    for c in cfgs:
        flags += ' --cfg ' + c
    env.update({
        'LD_LIBRARY_PATH': sysroot + '/lib' + (':' + env['LD_LIBRARY_PATH'] if env.get('LD_LIBRARY_PATH') else ''),
        'RUSTFLAGS': flags,
        'RUSTC_WORKSPACE_WRAPPER': DRIVER,
        'QV_OUT': outdir,
        'QV_TAG': tag,
        'CARGO_TARGET_DIR': tdir,
        'CARGO_NET_OFFLINE': 'true',
        'CARGO_INCREMENTAL': '0',
    })
    cmd = ['cargo', '+nightly', 'check', '--offline', '--lib'] + (packages or PACKAGES)
    if features:
        cmd += features
    r = subprocess.run(cmd, cwd=repo, env=env, stdout=subprocess.PIPE, stderr=subprocess.STDOUT, text=True)
    return r.returncode == 0, r.stdout


def run_driver_fixtures(outdir):
    fx = os.path.join(VERIF, 'fixtures')
    if not os.path.exists(os.path.join(fx, 'Cargo.toml')):
        return True, ''
    ensure_driver()
    sysroot = nightly_sysroot()
    tdir = os.path.join(CACHE, 'target-fix')
    for d in glob.glob(os.path.join(tdir, '*', '.fingerprint', 'qvfix-*')):
        shutil.rmtree(d, ignore_errors=True)
    env = dict(os.environ)
    env.update({
        'LD_LIBRARY_PATH': sysroot + '/lib',
        'RUSTFLAGS': '-Zmir-opt-level=0 -Awarnings',
        'RUSTC_WORKSPACE_WRAPPER': DRIVER,
        'QV_OUT': outdir,
        'QV_TAG': '',
        'CARGO_TARGET_DIR': tdir,
        'CARGO_NET_OFFLINE': 'true',
        'CARGO_INCREMENTAL': '0',
    })
    r = subprocess.run(['cargo', '+nightly', 'check', '--offline', '--lib'], cwd=fx, env=env,
                       stdout=subprocess.PIPE, stderr=subprocess.STDOUT, text=True)
    return r.returncode == 0, r.stdout


def get_facts(repo=REPO, verbose=True):
    """returns (facts_dir, cache_state, tree_hash, build_log_or_None).  A compile failure raises
    CompileFailed (reported by the caller)."""
    os.makedirs(CACHE, exist_ok=True)
    th, nfiles = tree_hash(repo)
    fdir = os.path.join(CACHE, 'facts', th)
    marker = os.path.join(fdir, 'OK')
    if os.path.exists(marker):
        try:
            os.utime(fdir, None)
        except OSError:
            pass
        return fdir, 'hit', th, None
    lock = open(os.path.join(CACHE, 'lock'), 'w')
    fcntl.flock(lock, fcntl.LOCK_EX)
    try:
        if os.path.exists(marker):
            return fdir, 'hit', th, None
        tmp = fdir + '.tmp%d' % os.getpid()
        shutil.rmtree(tmp, ignore_errors=True)
        os.makedirs(tmp)
        t0 = time.time()
        ok, log = run_driver(repo, tmp)
        if not ok:
            shutil.rmtree(tmp, ignore_errors=True)
            raise CompileFailed(log)
        for cr in ('quinn_proto', 'quinn', 'quinn_udp'):
            if not os.path.exists(os.path.join(tmp, cr + '.json')):
                shutil.rmtree(tmp, ignore_errors=True)
                raise CheckBroken('driver wrote no facts for %s (cargo skipped the wrapper?)\n%s' % (cr, log[-2000:]))
        ok2, log2 = run_driver_fixtures(tmp)
        if not ok2:
            shutil.rmtree(tmp, ignore_errors=True)
            raise CheckBroken('fixtures crate failed to compile:\n' + log2[-3000:])
        with open(os.path.join(tmp, 'build.log'), 'w') as f:
            f.write(log)
        with open(os.path.join(tmp, 'OK'), 'w') as f:
            f.write('%.1f\n' % (time.time() - t0))
        shutil.rmtree(fdir, ignore_errors=True)
        os.rename(tmp, fdir)
        # keep the newest 4 fact dirs
        ds = sorted(glob.glob(os.path.join(CACHE, 'facts', '*')), key=os.path.getmtime, reverse=True)
        for d in ds[10:]:
            if '.tmp' not in d:
                shutil.rmtree(d, ignore_errors=True)
        return fdir, 'miss', th, log
    finally:
        fcntl.flock(lock, fcntl.LOCK_UN)
        lock.close()


class CompileFailed(Exception):
    pass


# --------------------------------------------------------------------------
# rule context
# --------------------------------------------------------------------------

class Ctx:
    def __init__(self, pid, facts, tier, seed):
        self.pid = pid
        self.facts = facts
        self.tier = tier
        self.seed = seed
        self.obligations = []   # dicts
        self.violations = []
        self.infos = []
        self.rules_seen = {}
        self.assumptions = []
        self.fixture_controls = {'positive_fired': 0, 'negative_silent': 0, 'total': 0, 'failed': []}

    def pfn(self, pat):
        """function of quinn-proto by pattern (fail-closed)"""
        return self.facts.fn(pat, 'quinn_proto')

    def qfn(self, pat):
        return self.facts.fn(pat, 'quinn')

    def ufn(self, pat):
        return self.facts.fn(pat, 'quinn_udp')

    def _rec(self, rule, instance, verdict, fn, where, detail):
        o = {'rule': '%s.%s' % (self.pid, rule), 'instance': instance, 'function': fn, 'where': where,
             'verdict': verdict, 'detail': detail}
        self.obligations.append(o)
        r = self.rules_seen.setdefault(rule, {'ok': 0, 'bad': 0})
        r['ok' if verdict == 'ok' else 'bad'] += 1
        return o

    def ok(self, rule, instance, fn='', where='', detail=''):
        fn = fn.short if hasattr(fn, 'short') else fn
        self._rec(rule, instance, 'ok', fn, where, detail)

    def bad(self, rule, instance, fn, where, detail, site_class=''):
        fnid = fn.id if hasattr(fn, 'id') else fn
        fns = fn.short if hasattr(fn, 'short') else fn
        from .facts import canon
        key = '%s.%s/%s@%s%s' % (self.pid, rule, instance, canon(fnid), ('#' + site_class) if site_class else '')
        o = self._rec(rule, instance, 'violation', fns, where, detail)
        o['key'] = key
        self.violations.append(o)

    def check(self, cond, rule, instance, fn, where, detail_ok='', detail_bad='', site_class=''):
        if cond:
            self.ok(rule, instance, fn, where, detail_ok)
        else:
            self.bad(rule, instance, fn, where, detail_bad or detail_ok, site_class)
        return cond

    def info(self, rule, text):
        self.infos.append({'rule': '%s.%s' % (self.pid, rule), 'text': text})

    def floor(self, rule, what, count, floor):
        """a rule matching fewer sites than confirmed by hand fails closed"""
        if count < floor:
            self.bad(rule, 'floor_' + what, 'floor', '', 'matched %d sites, floor is %d (sites confirmed by reading): the obligation set shrank' % (count, floor))
        else:
            self.ok(rule, 'floor_' + what, '', '', 'matched %d >= floor %d' % (count, floor))

    def assume(self, text):
        if text not in self.assumptions:
            self.assumptions.append(text)

    def control(self, name, fired, expect_fire):
        self.fixture_controls['total'] += 1
        if expect_fire and fired:
            self.fixture_controls['positive_fired'] += 1
        elif not expect_fire and not fired:
            self.fixture_controls['negative_silent'] += 1
        else:
            self.fixture_controls['failed'].append(name)


def load_known():
    p = os.path.join(VERIF, 'known_findings.json')
    if not os.path.exists(p):
        return []
    with open(p) as f:
        return json.load(f).get('findings', [])


def write_evidence(pid, tier, seed, ctx, stats, wall, cache_state, th, explanation, rule_text, extra=None, nviol=0, known_printed=0):
    os.makedirs(os.path.join(VERIF, 'evidence'), exist_ok=True)
    obs = ctx.obligations if ctx else []
    distinct = set()
    for o in obs:
        if o['verdict'] in ('ok', 'violation') and o['where']:
            distinct.add((o['rule'], o['instance'], o['function']))
    samples = []
    seen_rules = set()
    for o in obs:
        if o['rule'] not in seen_rules and o['where']:
            seen_rules.add(o['rule'])
            samples.append(o)
    for o in obs:
        if o['verdict'] == 'violation' and o not in samples:
            samples.append(o)
    cov = {
        'explanation': explanation,
        'rule': rule_text,
        'evaluations': len(obs),
        'distinct_nontrivial': len(distinct),
        'obligations': len(obs),
        'discharged': sum(1 for o in obs if o['verdict'] == 'ok'),
        'samples': samples[:40],
        'units': stats,
        'rules': {('%s.%s' % (pid, k)): v for k, v in (ctx.rules_seen.items() if ctx else [])},
        'fixture_controls': ctx.fixture_controls if ctx else {},
        'inventory': (ctx.infos if ctx else [])[:200],
        'known_findings_printed': known_printed,
        'facts_cache': cache_state,
        'tree_hash': th,
        'exhaustive': False,
    }
    if extra:
        cov.update(extra)
    ev = {
        'property_id': pid, 'tier': tier, 'seed': seed, 'level': 'other', 'coverage': cov,
        'assumptions': (ctx.assumptions if ctx else []) + [
            'rustc nightly MIR construction and Instance resolution are trusted',
            'only the Linux x86-64 default-feature non-test build of quinn-proto, quinn, quinn-udp is analysed',
            'rule tables (anchors, accepted idioms, floors) were confirmed by reading the pinned tree',
        ],
        'wall_s': round(wall, 2), 'violations': nviol,
    }
    with open(os.path.join(VERIF, 'evidence', pid + '.json'), 'w') as f:
        json.dump(ev, f, indent=1)


def main(argv):
    import argparse
    ap = argparse.ArgumentParser()
    ap.add_argument('pid')
    ap.add_argument('--tier', default=os.environ.get('VERIF_TIER', 'quick'))
    ap.add_argument('--replay', default=None)
    ap.add_argument('--repo', default=REPO)
    ap.add_argument('--no-evidence', action='store_true')
    ap.add_argument('--verbose', '-v', action='store_true')
    a = ap.parse_args(argv)
    pid = a.pid
    tier = a.tier if a.tier in ('quick', 'thorough') else 'quick'
    try:
        seed = int(os.environ.get('VERIF_SEED', '0'))
    except ValueError:
        seed = 0
    t0 = time.time()
    try:
        mod = importlib.import_module('rules.' + pid)
    except ImportError as e:
        print('CHECK-BROKEN no rules module for %s: %s' % (pid, e))
        return 2
    explanation = getattr(mod, 'EXPLANATION', '')
    rule_text = getattr(mod, 'RULE', '')
    ctx = None
    stats = {}
    cache_state = 'n/a'
    th = ''
    try:
        fdir, cache_state, th, log = get_facts(a.repo)
        facts = Facts(fdir)
        stats = facts.stats()
        ctx = Ctx(pid, facts, tier, seed)
        # fixtures (controls) if the module has them
        fx = None
        if os.path.exists(os.path.join(fdir, 'qvfix.json')):
            fx = Facts(fdir, crates=('qvfix',))
        if fx is None:
            raise CheckBroken('fixtures facts missing')
        from . import selftest
        selftest.run(ctx, fx)
        if hasattr(mod, 'selftest'):
            mod.selftest(ctx, fx)
        if ctx.fixture_controls['failed'] or ctx.fixture_controls['total'] < 34:
            raise CheckBroken('selftest: fixture controls misbehave: %s' % ctx.fixture_controls)
        run_module(mod, ctx)
        extra = None
        if tier == 'thorough' and hasattr(mod, 'thorough'):
            extra = mod.thorough(ctx)
        elif tier == 'thorough':
            from . import thorough as th_mod
            extra = th_mod.run_generic(ctx, pid, mod)
    except CompileFailed as e:
        # a tree that does not compile with -Dunused_must_use: report the diagnostics
        log = str(e)
        if 'unused_must_use' in log or 'unused `' in log:
            print(log[-4000:])
            rp = write_replay(pid, 'compile/unused_must_use', {'log': log[-8000:]})
            print('VIOLATION property=%s replay=%s' % (pid, rp))
            return 1
        print('CHECK-BROKEN the tree does not compile:\n' + log[-4000:])
        return 2
    except CheckBroken as e:
        print('CHECK-BROKEN %s' % e)
        if not a.no_evidence:
            write_evidence(pid, tier, seed, ctx, stats, time.time() - t0, cache_state, th, explanation + ' [CHECK BROKEN: %s]' % e, rule_text)
        return 2
    except Exception:
        traceback.print_exc()
        print('CHECK-BROKEN internal error')
        return 2
    # known findings
    known = {k['key']: k for k in load_known() if k.get('status') == 'known' and k.get('property') == pid}
    rc = 0
    nviol = 0
    printed = 0
    seen_keys = set()
    for v in ctx.violations:
        key = v['key']
        if key in seen_keys:
            continue
        seen_keys.add(key)
        base_key = key.split('#build=')[0]      # the same construct seen in an alternative build of the same source
        if base_key in known:
            if base_key == key or base_key not in seen_keys:
                print('KNOWN-FINDING: property=%s %s [%s]' % (pid, known[base_key].get('what', ''), key))
                printed += 1
            continue
        nviol += 1
        rp = write_replay(pid, key, v)
        print('  rule %s instance %s in %s at %s: %s' % (v['rule'], v['instance'], v['function'], v['where'], v['detail']))
        print('VIOLATION property=%s replay=%s' % (pid, rp))
        rc = 1
    if a.verbose:
        for o in ctx.obligations:
            print('  [%s] %s %s %s %s :: %s' % (o['verdict'], o['rule'], o['instance'], o['function'], o['where'], o['detail'][:200]))
    if not a.no_evidence:
        write_evidence(pid, tier, seed, ctx, stats, time.time() - t0, cache_state, th, explanation, rule_text, extra if 'extra' in dir() else None, nviol, printed)
    nob = len(ctx.obligations)
    print('%s %s: %d obligations, %d discharged, %d violations (%d known), facts %s, %.1fs' % (
        pid, tier, nob, sum(1 for o in ctx.obligations if o['verdict'] == 'ok'), nviol + printed, printed, cache_state, time.time() - t0))
    if tier == 'thorough' and extra and extra.get('mutants_broken'):
        print('CHECK-BROKEN thorough self-test: mutants not detected: %s' % extra['mutants_broken'])
        return 2 if rc == 0 else rc
    return rc


def run_module(mod, ctx):
    """evaluate a rule module; a rule function that raises on an unexpected code shape does not abort the run and is
    not silent either: it is reported as a violation of that rule letter (fail closed), the other rules still run"""
    import functools
    for name in dir(mod):
        f = getattr(mod, name)
        if name.startswith('rule_') and callable(f) and not getattr(f, '_qv_wrapped', False):
            def mk(f, name):
                @functools.wraps(f)
                def w(c, *a, **kw):
                    try:
                        return f(c, *a, **kw)
                    except CheckBroken:
                        raise
                    except Exception as e:
                        tb = traceback.extract_tb(e.__traceback__)
                        loc = '%s:%d' % (os.path.basename(tb[-1].filename), tb[-1].lineno) if tb else '?'
                        c.bad(name[5:], 'rule_could_not_be_evaluated', 'rules.%s.%s' % (c.pid, name), '',
                              'the code has a shape this rule does not understand (%s: %s at %s): it can no longer establish its obligations' % (type(e).__name__, str(e)[:120], loc))
                w._qv_wrapped = True
                return w
            setattr(mod, name, mk(f, name))
    mod.run(ctx)


def write_replay(pid, key, payload):
    d = os.path.join(VERIF, 'evidence', 'replay')
    os.makedirs(d, exist_ok=True)
    h = hashlib.sha1(key.encode()).hexdigest()[:12]
    p = os.path.join(d, '%s-%s.json' % (pid, h))
    with open(p, 'w') as f:
        json.dump({'property': pid, 'key': key, 'violation': payload,
                   'replay_cmd': './check %s --replay %s' % (pid, p)}, f, indent=1)
    return p
