"""Thorough tier: mutant self-test (both-ways test of the rules) and alternative cfg builds.

Mutant patches live in /verif/mutants/<Cxx>/*.patch (own planned mutants) and /verif/seeded/<Cxx>-*/patch.diff
(independently seeded changes).  A patch file may start with `# expect: <substring of a violation key>` lines;
seeded changes have `detected_by` in meta.json.  Each is applied to an rsync copy of /repo under /var/tmp, analysed with
the shared dependency target dir, and the copy is removed immediately.
"""
import glob, json, os, shutil, subprocess, sys, time, hashlib

from . import run as R
from .facts import Facts, CheckBroken

VERIF = R.VERIF


def scratch_copy(repo):
    d = '/var/tmp/qv-%d-%d' % (os.getpid(), int(time.time() * 1000) % 100000)
    os.makedirs(d)
    subprocess.check_call(['rsync', '-a', '--exclude', 'target', '--exclude', '.git', repo.rstrip('/') + '/', d + '/'])
    return d


def parse_patch(path):
    expects = []
    lines = open(path).read().splitlines(True)
    body = []
    for l in lines:
        if l.startswith('# expect:'):
            expects.append(l[len('# expect:'):].strip())
        elif l.startswith('#') and not body:
            continue
        else:
            body.append(l)
    return expects, ''.join(body)


def eval_on(repo_dir, pid, mod):
    """evaluate the rule module on another tree; returns (violation keys, error or None)"""
    try:
        fdir, state, th, log = R.get_facts(repo_dir)
    except R.CompileFailed as e:
        s = str(e)
        if 'unused_must_use' in s or 'unused `' in s or 'unused return value' in s:
            return ['compile/unused_must_use'], None
        return [], 'does not compile: ' + s[-600:]
    facts = Facts(fdir)
    ctx = R.Ctx(pid, facts, 'thorough', 0)
    try:
        R.run_module(mod, ctx)
    except CheckBroken as e:
        return [], 'CHECK-BROKEN %s' % e
    return sorted({v['key'] for v in ctx.violations}), None


def mutant_files(pid):
    res = []
    for p in sorted(glob.glob(os.path.join(VERIF, 'mutants', pid, '*.patch'))):
        res.append(('own:' + os.path.basename(p)[:-6], p, None))
    for d in sorted(glob.glob(os.path.join(VERIF, 'seeded', pid + '-*'))):
        meta = {}
        try:
            meta = json.load(open(os.path.join(d, 'meta.json')))
        except Exception:
            pass
        res.append(('seeded:' + os.path.basename(d), os.path.join(d, 'patch.diff'), meta))
    return res


def run_mutant(pid, mod, name, path, meta, repo=R.REPO, known_keys=()):
    expects, body = parse_patch(path)
    d = scratch_copy(repo)
    try:
        p = subprocess.run(['patch', '-p1', '-s', '--no-backup-if-mismatch'], input=body, text=True, cwd=d,
                           stdout=subprocess.PIPE, stderr=subprocess.STDOUT)
        if p.returncode != 0:
            return {'name': name, 'status': 'skipped', 'why': 'patch does not apply: ' + p.stdout[-200:]}
        keys, err = eval_on(d, pid, mod)
        keys = [k for k in keys if k not in known_keys]
        if err:
            return {'name': name, 'status': 'error', 'why': err}
        must = True
        if meta is not None:
            det = meta.get('detected_by')
            must = bool(det) and (pid in str(det))
            # a seeded change counts as detected when this property's rules raise ANY violation on it: the recorded keys
            # are informational (rule instances get renamed when rules are made more exact)
        fired = bool(keys) and (not expects or any(any(e in k for k in keys) for e in expects))
        return {'name': name, 'status': 'fired' if fired else ('missed' if must else 'not_claimed'), 'keys': keys[:6], 'all_keys': keys, 'expects': expects}
    finally:
        shutil.rmtree(d, ignore_errors=True)


def _remember(name, keys):
    """mutants/results.json: violation key -> own mutants that raised it (input of tools/rule_coverage.py)"""
    import fcntl
    rp = os.path.join(VERIF, 'mutants', 'results.json')
    with open(rp, 'a+') as f:
        fcntl.flock(f, fcntl.LOCK_EX)
        f.seek(0)
        txt = f.read()
        d = json.loads(txt) if txt.strip() else {}
        for k in keys:
            d.setdefault(k, [])
            if name not in d[k]:
                d[k].append(name)
        f.seek(0)
        f.truncate()
        json.dump(d, f, indent=0, sort_keys=True)


def run_generic(ctx, pid, mod):
    known = {k['key'] for k in R.load_known() if k.get('status') == 'known'}
    base = {v['key'] for v in ctx.violations}
    results = []
    files = mutant_files(pid)
    seed = ctx.seed
    if seed:
        import random
        random.Random(seed).shuffle(files)
    workers = int(os.environ.get('QV_WORKERS', '8'))
    if len(files) <= 3 or workers <= 1:
        for name, path, meta in files:
            r = run_mutant(pid, mod, name, path, meta, known_keys=known | base)
            results.append(r)
            print('  mutant %-40s %s %s' % (r['name'], r['status'], r.get('keys', r.get('why', ''))))
            if r['status'] == 'fired' and name.startswith('own:'):
                _remember(name, r.get('all_keys', r['keys']))
    else:
        # shards of mutants are evaluated by parallel worker processes, each with a private cache / target dir
        # (kept under .cache/worker-<k> so that the dependency build is paid once per worker, not per run)
        k = min(workers, len(files))
        shards = [files[i::k] for i in range(k)]
        procs = []
        tmpd = os.path.join(R.CACHE, 'shards-%s-%d' % (pid, os.getpid()))
        os.makedirs(tmpd, exist_ok=True)
        for i, sh in enumerate(shards):
            nf = os.path.join(tmpd, 'names-%d' % i)
            open(nf, 'w').write('\n'.join(n for n, _, _ in sh))
            env = dict(os.environ, QV_CACHE=os.path.join(R.CACHE, 'worker-%d' % i))
            procs.append((i, subprocess.Popen([sys.executable, os.path.join(VERIF, 'tools', 'mutant.py'), pid, '--names-file', nf, '--json', os.path.join(tmpd, 'out-%d.json' % i)],
                                              env=env, stdout=subprocess.PIPE, stderr=subprocess.STDOUT, text=True)))
        for i, pr in procs:
            log, _ = pr.communicate()
            of = os.path.join(tmpd, 'out-%d.json' % i)
            if pr.returncode != 0 or not os.path.exists(of):
                for n, _, _ in shards[i]:
                    results.append({'name': n, 'status': 'error', 'why': 'worker %d failed: %s' % (i, log[-300:])})
                continue
            results.extend(json.load(open(of)))
        shutil.rmtree(tmpd, ignore_errors=True)
        # known/baseline keys of this run are not failures of the mutant
        for r in results:
            if 'keys' in r:
                ks = [x for x in r.get('all_keys', r['keys']) if x not in base]
                if r['status'] == 'fired' and not ks:
                    r['status'] = 'missed'
            print('  mutant %-40s %s %s' % (r['name'], r['status'], r.get('keys', r.get('why', ''))))
    broken = [r['name'] for r in results if r['status'] in ('missed', 'error')]
    extra = {
        'mutants': {
            'applied': sum(1 for r in results if r['status'] in ('fired', 'missed', 'not_claimed')),
            'fired': sum(1 for r in results if r['status'] == 'fired'),
            'skipped': sum(1 for r in results if r['status'] == 'skipped'),
            'not_claimed': [r['name'] for r in results if r['status'] == 'not_claimed'],
            'results': results,
        },
        'mutants_broken': broken,
    }
    # alternative builds
    alts = []
    for alt in getattr(mod, 'ALT_BUILDS', DEFAULT_ALT_BUILDS):
        r = run_alt(ctx, pid, mod, alt)
        alts.append(r)
        print('  alt build %-12s %s %s' % (r['name'], r['status'], r.get('violations', r.get('why', ''))))
    extra['alt_builds'] = alts
    return extra


# other configurations of the same source that compile offline; the same rule tables must hold on them
# (features are additive and `fuzzing` only adds items, so one build with everything switched on shows every line that
# the default build compiles out; the default build shows the `not(..)` sides)
DEFAULT_ALT_BUILDS = [
    {'name': 'allcfg', 'features': ['--features', 'quinn-proto/qlog,quinn/lock_tracking'], 'cfgs': ['fuzzing']},
]


def run_alt(ctx, pid, mod, alt):
    """alt = dict(name, cfgs=[..], features=[..], packages=[..])"""
    import fcntl
    th, _ = R.tree_hash(R.REPO)
    out = os.path.join(R.CACHE, 'alt-facts', '%s-%s' % (alt['name'], th))
    os.makedirs(os.path.join(R.CACHE, 'alt-facts'), exist_ok=True)
    lock = open(os.path.join(R.CACHE, 'lock-alt-' + alt['name']), 'w')
    fcntl.flock(lock, fcntl.LOCK_EX)
    try:
        if not os.path.exists(os.path.join(out, 'OK')):
            shutil.rmtree(out, ignore_errors=True)
            ok, log = R.run_driver(R.REPO, out, features=alt.get('features'), cfgs=alt.get('cfgs', ()),
                                   target_dir=os.path.join(R.CACHE, 'target-alt-' + alt['name']))
            if not ok:
                shutil.rmtree(out, ignore_errors=True)
                return {'name': alt['name'], 'status': 'skipped', 'why': 'does not build offline: ' + log[-300:]}
            R.run_driver_fixtures(out)
            open(os.path.join(out, 'OK'), 'w').write('ok')
            # keep only the newest two alt fact dirs per build
            ds = sorted(glob.glob(os.path.join(R.CACHE, 'alt-facts', alt['name'] + '-*')), key=os.path.getmtime, reverse=True)
            for d in ds[2:]:
                shutil.rmtree(d, ignore_errors=True)
    finally:
        fcntl.flock(lock, fcntl.LOCK_UN)
        lock.close()
    try:
        facts = Facts(out)
        c2 = R.Ctx(pid, facts, 'thorough', 0)
        R.run_module(mod, c2)
        keys = sorted({v['key'] for v in c2.violations})
        for v in c2.violations:
            v2 = dict(v)
            v2['key'] = v['key'] + '#build=' + alt['name']
            ctx.violations.append(v2)
        return {'name': alt['name'], 'status': 'evaluated', 'obligations': len(c2.obligations), 'violations': keys}
    except CheckBroken as e:
        return {'name': alt['name'], 'status': 'broken', 'why': str(e)}
