"""Fact base loader + per-function CFG utilities for the quinn static checks.

Everything here reads the JSON written by the qvfacts driver (one file per crate,
MIR after drop elaboration, before optimisation).  No quinn code is executed.
"""
import json, os, re, sys
from functools import lru_cache


class CheckBroken(Exception):
    """The check cannot be evaluated on this tree (missing anchor, selftest failure)."""


# --------------------------------------------------------------------------
# path canonicalisation
# --------------------------------------------------------------------------

def strip_generics(p):
    """Remove `::<...>` generic argument lists (balanced), keep `<T as Tr>` / `<impl X>` forms."""
    out = []
    i = 0
    n = len(p)
    while i < n:
        if p.startswith('::<', i) and not p.startswith('::<impl ', i):
            # generic args after a path segment: skip balanced
            j = i + 3
            depth = 1
            has_as = False
            while j < n and depth:
                c = p[j]
                if c == '<':
                    depth += 1
                elif c == '>' and p[j - 1] != '-':
                    depth -= 1
                elif depth == 1 and p.startswith(' as ', j):
                    has_as = True
                j += 1
            if has_as:
                # qualified path segment `::<T as Trait>`: keep (generics inside are stripped)
                out.append('::<' + strip_generics(p[i + 3:j - 1]) + '>')
                i = j
                continue
            i = j
            continue
        out.append(p[i])
        i += 1
    return ''.join(out)


def _split_top(s, sep):
    """split on sep at angle/bracket depth 0"""
    parts = []
    depth = 0
    cur = []
    i = 0
    while i < len(s):
        c = s[i]
        if c in '<[(':
            depth += 1
        elif c in ')]' or (c == '>' and (i == 0 or s[i - 1] != '-')):
            depth -= 1
        if depth == 0 and s.startswith(sep, i):
            parts.append(''.join(cur))
            cur = []
            i += len(sep)
            continue
        cur.append(c)
        i += 1
    parts.append(''.join(cur))
    return parts


def _last_ident(t):
    """last path identifier of a type string, generics removed: a::b::C<T> -> C"""
    t = t.strip()
    t = re.sub(r"^&('?\w+ )?(mut )?", '', t)
    t = re.sub(r"^dyn ", '', t)
    # drop generic args
    depth = 0
    out = []
    for i, c in enumerate(t):
        if c == '<':
            depth += 1
            continue
        if c == '>' and (i == 0 or t[i - 1] != '-'):
            depth -= 1
            continue
        if depth == 0:
            out.append(c)
    t = ''.join(out)
    if t.startswith('['):
        # [a::B; 3] -> [B; 3]
        m = re.match(r'\[(.*?)(;.*)?\]$', t)
        if m:
            return '[' + _last_ident(m.group(1)) + (m.group(2) or '') + ']'
    return t.split('::')[-1]


@lru_cache(maxsize=None)
def canon(p):
    return strip_generics(p)


@lru_cache(maxsize=None)
def short(p):
    """Short key: `Type::method`, `<Type as Trait>::method`, `u64::saturating_sub`."""
    p = canon(p)
    segs = _split_top(p, '::')
    # find an `<X as Y>` or `<impl ...>` segment
    name = segs[-1]
    tail = []
    # closures: keep {closure#n} chain
    while name.startswith('{') and len(segs) > 1:
        tail.insert(0, name)
        segs = segs[:-1]
        name = segs[-1]
    owner = segs[-2] if len(segs) > 1 else ''
    if owner.startswith('<impl '):
        inner = owner[6:-1]
        if ' for ' in inner:
            tr, ty = inner.split(' for ', 1)
            owner = '<%s as %s>' % (_last_ident(ty), _last_ident(tr))
        else:
            owner = _last_ident(inner)
    elif owner.startswith('<') and ' as ' in owner:
        inner = owner[1:-1]
        ty, tr = _split_top(inner, ' as ')[:2] if len(_split_top(inner, ' as ')) >= 2 else (inner, '')
        owner = '<%s as %s>' % (_last_ident(ty), _last_ident(tr))
    else:
        owner = _last_ident(owner)
    s = owner + '::' + name if owner else name
    if tail:
        s += '::' + '::'.join(tail)
    return s


def _qualified_parts(p):
    """`[crate::]<Type as Trait>::name[::{closure#n}]` -> (type, trait, rest) or None"""
    i = p.find('<')
    if i < 0 or ' as ' not in p:
        return None
    depth = 0
    j = i
    while j < len(p):
        ch = p[j]
        if ch == '<':
            depth += 1
        elif ch == '>' and p[j - 1] != '-':
            depth -= 1
            if depth == 0:
                break
        j += 1
    inner = p[i + 1:j]
    parts = _split_top(inner, ' as ')
    if len(parts) < 2:
        return None
    rest = p[j + 1:]
    if rest.startswith('::'):
        rest = rest[2:]
    return parts[0].strip(), parts[1].strip(), rest


@lru_cache(maxsize=None)
def path_matches(path, pat):
    """pattern match used by every rule: exact canonical path, canonical suffix at a `::`
    boundary, or the short key; `<mod::Type as Trait>::name` patterns compare the type as a suffix."""
    if not path:
        return False
    c = canon(path)
    if pat.startswith('<') and ' as ' in pat:
        pp = _qualified_parts(pat)
        cp = _qualified_parts(c)
        if pp and cp:
            ty_ok = cp[0] == pp[0] or cp[0].endswith('::' + pp[0]) or _last_ident(cp[0]) == pp[0]
            tr_ok = _last_ident(cp[1]) == _last_ident(pp[1])
            return ty_ok and tr_ok and cp[2] == pp[2]
        return short(path) == pat
    if c == pat or c.endswith('::' + pat):
        return True
    if short(path) == pat:
        return True
    return False


def any_match(path, pats):
    return any(path_matches(path, p) for p in pats)


# --------------------------------------------------------------------------
# facts
# --------------------------------------------------------------------------

class Call:
    __slots__ = ('body', 'bb', 'k', 'f', 'df', 'tr', 'ga', 'args', 'dst', 't', 'line', 'mac', 'sz', 'fo')

    def __init__(self, body, bb, d):
        self.body = body
        self.bb = bb
        self.k = d['k']
        self.f = d['f'] or d['df']
        self.df = d['df']
        self.tr = d.get('tr', '')
        self.ga = d['ga']
        self.args = d['args']
        self.dst = d['dst']
        self.t = d['t']
        self.line = d['line']
        self.mac = d.get('mac', [])
        self.sz = d.get('sz', [])
        self.fo = d.get('fo')

    @property
    def callee(self):
        return self.f

    def is_(self, *pats):
        return any(path_matches(self.f, p) or path_matches(self.df, p) for p in pats)

    @property
    def in_macro(self):
        return bool(self.mac)

    def where(self):
        return '%s:%d' % (self.body.file, self.line)

    def __repr__(self):
        return 'Call(%s @%s bb%d %s)' % (short(self.f) if self.f else '?', self.body.short, self.bb, self.where())


NOISE_MACROS = ('trace', 'debug', 'info', 'warn', 'error', 'event', 'span', 'trace_span', 'debug_span',
                'info_span', 'warn_span', 'error_span', 'debug_assert', 'debug_assert_eq', 'debug_assert_ne',
                'format_args', 'enabled', 'level_enabled', 'callsite', 'valueset', 'fieldset', 'log')


class Body:
    def __init__(self, crate, d):
        self.crate = crate
        self.d = d
        self.id = d['id']
        self.kind = d['kind']
        self.name = d['name']
        self.file = d['file']
        self.line = d['line']
        self.argc = d['argc']
        self.locals = d['locals']
        self.blocks = d['blocks']
        self.root = d.get('root') or d['id']
        self.parent = d.get('parent')
        self.self_ty = d.get('self_ty', '')
        self.trait = d.get('trait', '')
        self.is_pub = d.get('pub', False)
        self.reach = d.get('reach', False)
        self.is_async = d.get('async', False)
        self.cokind = d.get('cokind')
        self.canon = canon(self.id)
        self.short = short(self.id)
        self._calls = None
        self._succ = None
        self._pred = None
        self._dom = None
        self._pdom = None
        self._defs = None

    # ---- CFG -----------------------------------------------------------
    def _build_cfg(self):
        n = len(self.blocks)
        succ = [[] for _ in range(n)]
        for i, b in enumerate(self.blocks):
            if b['c']:
                continue
            t = b['t']
            k = t[0]
            if k == 'goto':
                succ[i] = [t[1]]
            elif k == 'switch':
                s = [x[1] for x in t[2]] + [t[3]]
                seen = []
                for x in s:
                    if x not in seen:
                        seen.append(x)
                succ[i] = seen
            elif k == 'drop':
                succ[i] = [t[2]]
            elif k == 'call':
                succ[i] = [t[1]['t']] if t[1]['t'] is not None else []
            elif k == 'assert':
                succ[i] = [t[4]]
            elif k == 'yield':
                succ[i] = [t[2]]
            elif k == 'asm':
                succ[i] = list(t[1])
            else:
                succ[i] = []
        # drop edges into cleanup blocks (should not exist on normal edges)
        for i in range(n):
            succ[i] = [s for s in succ[i] if not self.blocks[s]['c']]
        # jump threading for materialised booleans (`matches!`, `&&`, `||`):
        #   bbA: L = const c; goto bbS      bbS: (no assignments) switch L -> ...
        # the edge A->S is redirected to the switch target selected by c (removes infeasible paths only)
        for i in range(n):
            b = self.blocks[i]
            if b['c'] or b['t'][0] != 'goto':
                continue
            S = b['t'][1]
            sb = self.blocks[S]
            if sb['c'] or sb['t'][0] != 'switch':
                continue
            if any(st[0] in ('=', 'sd') for st in sb['s']):
                continue
            op = sb['t'][1]
            if op[0] not in ('c', 'm') or op[1][1]:
                continue
            L = op[1][0]
            val = None
            for st in b['s']:
                if st[0] == '=' and st[1][0] == L:
                    if not st[1][1] and st[2][0] == 'use' and st[2][1][0] == 'k' and st[2][1][1] == 'int':
                        val = st[2][1][2]
                    else:
                        val = None
            if val is None:
                continue
            tgt = sb['t'][3]
            for v, t in sb['t'][2]:
                if str(v) == str(val):
                    tgt = t
            if not self.blocks[tgt]['c']:
                succ[i] = [tgt]
        pred = [[] for _ in range(n)]
        for i in range(n):
            for s in succ[i]:
                pred[s].append(i)
        self._succ = succ
        self._pred = pred

    @property
    def succ(self):
        if self._succ is None:
            self._build_cfg()
        return self._succ

    @property
    def pred(self):
        if self._pred is None:
            self._build_cfg()
        return self._pred

    def reachable_from(self, start, avoid=(), avoid_edges=()):
        """blocks reachable from `start` (inclusive) on normal edges not entering `avoid`
        blocks and not using `avoid_edges` (set of (from,to))."""
        avoid = set(avoid)
        seen = set()
        starts = [start] if isinstance(start, int) else list(start)
        stack = [s for s in starts if s not in avoid]
        while stack:
            b = stack.pop()
            if b in seen:
                continue
            seen.add(b)
            for s in self.succ[b]:
                if s in avoid or (b, s) in avoid_edges:
                    continue
                if s not in seen:
                    stack.append(s)
        return seen

    def reachable_strict(self, start, avoid=(), avoid_edges=()):
        """blocks reachable from the successors of `start` (start itself only if on a cycle)"""
        res = set()
        avoid = set(avoid)
        for s in self.succ[start]:
            if s in avoid or (start, s) in avoid_edges:
                continue
            res |= self.reachable_from(s, avoid, avoid_edges)
        return res

    def return_blocks(self):
        return [i for i, b in enumerate(self.blocks) if not b['c'] and b['t'][0] == 'ret']

    def live_blocks(self):
        return self.reachable_from(0)

    def _dominators(self, succ, pred, entry_nodes, n):
        # iterative set-based dominators (n small enough; use bitsets via python ints)
        full = (1 << n) - 1
        dom = [full] * n
        reach = set()
        stack = list(entry_nodes)
        while stack:
            b = stack.pop()
            if b in reach:
                continue
            reach.add(b)
            stack.extend(succ[b])
        for e in entry_nodes:
            dom[e] = 1 << e
        order = sorted(reach)
        changed = True
        while changed:
            changed = False
            for b in order:
                if b in entry_nodes:
                    continue
                new = full
                for p in pred[b]:
                    if p in reach:
                        new &= dom[p]
                new |= (1 << b)
                if new != dom[b]:
                    dom[b] = new
                    changed = True
        for b in range(n):
            if b not in reach:
                dom[b] = 0
        return dom

    @property
    def dom(self):
        if self._dom is None:
            self._dom = self._dominators(self.succ, self.pred, [0], len(self.blocks))
        return self._dom

    @property
    def pdom(self):
        """post-dominators w.r.t. normal returns (virtual exit = all `ret` blocks)."""
        if self._pdom is None:
            n = len(self.blocks)
            rets = self.return_blocks()
            # add virtual exit n
            succ = [list(x) for x in self.pred] + [list(rets)]
            pred = [list(x) for x in self.succ] + [[]]
            for r in rets:
                pred[r] = pred[r] + [n]
            d = self._dominators(succ, pred, [n], n + 1)
            self._pdom = d
        return self._pdom

    def dominates(self, a, b):
        return bool(self.dom[b] >> a & 1)

    def postdominates(self, a, b):
        """a post-dominates b (every path from b to a normal return passes a)"""
        return bool(self.pdom[b] >> a & 1)

    # ---- sites ---------------------------------------------------------
    def calls(self):
        if self._calls is None:
            cs = []
            for i, b in enumerate(self.blocks):
                if b['c']:
                    continue
                if b['t'][0] == 'call':
                    cs.append(Call(self, i, b['t'][1]))
            self._calls = cs
        return self._calls

    def calls_to(self, *pats, live_only=True):
        live = self.live_blocks() if live_only else None
        return [c for c in self.calls() if c.is_(*pats) and (live is None or c.bb in live)]

    def stmts(self):
        """yield (bb, idx, stmt) for assignment-like statements in non-cleanup blocks"""
        for i, b in enumerate(self.blocks):
            if b['c']:
                continue
            for j, s in enumerate(b['s']):
                yield i, j, s

    def assigns(self):
        for i, j, s in self.stmts():
            if s[0] == '=':
                yield i, j, s[1], s[2], s[3]

    def local_ty(self, l):
        return self.locals[l][0]

    def local_name(self, l):
        return self.locals[l][1]

    def defs_of(self, local):
        """all definition sites of a local: ('stmt', bb, idx, rvalue) | ('call', bb, Call) | ('arg',)
        (whole-local assignments only; partial field writes are reported as ('field', bb, idx, place, rv))."""
        if self._defs is None:
            defs = {}
            for i, j, s in self.stmts():
                if s[0] == '=':
                    pl = s[1]
                    if not pl[1]:
                        defs.setdefault(pl[0], []).append(('stmt', i, j, s[2]))
                    else:
                        defs.setdefault(pl[0], []).append(('field', i, j, pl, s[2]))
                elif s[0] == 'sd':
                    defs.setdefault(s[1][0], []).append(('sd', i, j, s[1], s[2]))
            for c in self.calls():
                pl = c.dst
                if not pl[1]:
                    defs.setdefault(pl[0], []).append(('call', c.bb, c))
                else:
                    defs.setdefault(pl[0], []).append(('callfield', c.bb, c))
            for i, b in enumerate(self.blocks):
                if b['c']:
                    continue
                if b['t'][0] == 'yield':
                    pl = b['t'][3]
                    defs.setdefault(pl[0], []).append(('yield', i))
            self._defs = defs
        r = list(self._defs.get(local, []))
        if 1 <= local <= self.argc:
            r.append(('arg',))
        return r

    def where(self, line=None):
        return '%s:%d' % (self.file, line if line is not None else self.line)

    def __repr__(self):
        return 'Body(%s)' % self.id


import itertools
_FACTS_UID = itertools.count(1)
# memo tables keyed by (facts.uid, ...) or facts.uid register here; a long run (mutant campaign, seed matrix) loads
# hundreds of fact bases in one process, and the tables (whose values keep the Facts alive) would otherwise grow until
# the process is killed.  Kept: the first fact base of the process (the unchanged tree) and the two newest.
MEMO_TABLES = []


def register_memo(table):
    MEMO_TABLES.append(table)
    return table


def _purge_memos(current_uid):
    keep = {1, current_uid, current_uid - 1}
    for t in MEMO_TABLES:
        dead = [k for k in t if (k[0] if isinstance(k, tuple) else k) not in keep]
        for k in dead:
            del t[k]


class Facts:
    def __init__(self, directory, crates=('quinn_proto', 'quinn', 'quinn_udp'), tag=''):
        self.dir = directory
        self.uid = next(_FACTS_UID)      # cache key for per-fact-base memo tables (id() can be reused after a Facts is freed)
        _purge_memos(self.uid)
        self.bodies = {}
        self.by_short = {}
        self.adts = {}
        self.consts = {}
        self.impls = []
        self.crates = []
        self.version = None
        for cr in crates:
            fn = os.path.join(directory, cr + ('-' + tag if tag else '') + '.json')
            if not os.path.exists(fn):
                raise CheckBroken('facts file missing: ' + fn)
            with open(fn) as f:
                d = json.load(f)
            self.version = d.get('version')
            self.crates.append(cr)
            for bd in d['bodies']:
                b = Body(cr, bd)
                # duplicate ids can occur for cfg-duplicated items; keep first, suffix others
                key = b.id
                k = 1
                while key in self.bodies:
                    k += 1
                    key = '%s#%d' % (b.id, k)
                self.bodies[key] = b
                self.by_short.setdefault(b.short, []).append(b)
            for a in d['adts']:
                a['crate'] = cr
                self.adts[a['path']] = a
            for c in d['consts']:
                self.consts.setdefault(c['path'], c)
            for im in d['impls']:
                im['crate'] = cr
                self.impls.append(im)
        self._closures_of = None
        self._callers = None
        self.name_aliases = []
        self.inlined = []
        if 'qvfix' not in crates:
            from . import pins, inline
            self.inlined = inline.apply(self, set(pins.load()['params']))
            self.name_aliases = pins.apply(self)

    # ---- lookup ----------------------------------------------------------
    def fns(self, pat, kinds=('fn', 'closure', 'coroutine')):
        res = []
        for b in self.bodies.values():
            if b.kind in kinds and path_matches(b.id, pat):
                res.append(b)
        return res

    def fn(self, pat, crate=None):
        r = [b for b in self.fns(pat) if crate is None or b.crate == crate]
        if len(r) != 1:
            raise CheckBroken('anchor=%s matches %d functions%s' % (pat, len(r), (': ' + ', '.join(b.id for b in r[:4])) if r else ''))
        return r[0]

    def try_fn(self, pat, crate=None):
        r = [b for b in self.fns(pat) if crate is None or b.crate == crate]
        return r[0] if len(r) == 1 else None

    def adt(self, pat):
        r = [a for p, a in self.adts.items() if path_matches(p, pat)]
        if len(r) != 1:
            raise CheckBroken('anchor=adt %s matches %d types' % (pat, len(r)))
        return r[0]

    def const(self, pat):
        r = [c for p, c in self.consts.items() if path_matches(p, pat)]
        if len(r) != 1:
            raise CheckBroken('anchor=const %s matches %d consts' % (pat, len(r)))
        return r[0]

    def const_int(self, pat):
        c = self.const(pat)
        if c['kind'] != 'int':
            raise CheckBroken('anchor=const %s is not an integer' % pat)
        return int(c['val'])

    def const_body(self, pat):
        r = [b for b in self.bodies.values() if b.kind == 'const' and path_matches(b.id, pat)]
        if len(r) != 1:
            raise CheckBroken('anchor=const body %s matches %d' % (pat, len(r)))
        return r[0]

    def code_bodies(self, crate=None):
        for b in self.bodies.values():
            if b.kind in ('const', 'promoted'):
                continue
            if crate and b.crate != crate:
                continue
            yield b

    # ---- closures / call graph ----------------------------------------------
    def closures_of(self, body):
        """closure/coroutine bodies whose typeck root is `body` (transitively nested)"""
        if self._closures_of is None:
            m = {}
            for b in self.bodies.values():
                if b.kind in ('closure', 'coroutine') and b.root != b.id:
                    m.setdefault(b.root, []).append(b)
            self._closures_of = m
        return self._closures_of.get(body.root if body.kind != 'fn' else body.id, []) if body.kind == 'fn' else []

    def family(self, body):
        """the function together with all closures defined inside it"""
        root = self.bodies.get(body.root, body)
        return [root] + self.closures_of(root)

    def root_of(self, body):
        return self.bodies.get(body.root, body)

    def all_calls(self, crate=None):
        for b in self.code_bodies(crate):
            live = b.live_blocks()
            for c in b.calls():
                if c.bb in live:
                    yield c

    def callers_of(self, *pats, crate=None):
        """call sites (in live blocks) resolving to a callee matching any pattern"""
        return [c for c in self.all_calls(crate) if c.is_(*pats)]

    def impl_targets(self, trait_method_path):
        """workspace impl methods of a trait method (for virtual / unresolved calls)"""
        res = []
        for im in self.impls:
            if not im['trait']:
                continue
            for name, path, titem, kind in im['items']:
                if titem and canon(titem) == canon(trait_method_path):
                    if path in self.bodies:
                        res.append(self.bodies[path])
        return res

    def callees(self, body, with_closures=True, through_virtual=True):
        """resolved callee bodies (workspace-local) called from body (and, optionally, from
        the closures it defines)."""
        res = []
        fam = self.family(body) if with_closures and body.kind == 'fn' else [body]
        for b in fam:
            live = b.live_blocks()
            for c in b.calls():
                if c.bb not in live:
                    continue
                if c.k in ('item', 'closurecall') and c.f in self.bodies:
                    res.append((c, self.bodies[c.f]))
                elif c.k in ('virtual', 'unresolved') and through_virtual:
                    for t in self.impl_targets(c.f or c.df):
                        res.append((c, t))
        return res

    def stats(self):
        nb = 0
        nblocks = 0
        ncalls = 0
        unresolved = 0
        for b in self.code_bodies():
            nb += 1
            nblocks += len(b.blocks)
            for c in b.calls():
                ncalls += 1
                if c.k in ('unresolved', 'fnptr'):
                    unresolved += 1
        return {'crates': len(self.crates), 'bodies': nb, 'blocks': nblocks, 'call_sites': ncalls,
                'unresolved_calls': unresolved, 'adts': len(self.adts), 'consts': len(self.consts)}
