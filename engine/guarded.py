"""P16 GUARDED-READ: profile of every consuming buffer read in the decode side of quinn-proto.

For each consuming site (Buf::get_*, copy_to_slice, advance, split_to, split_off, slice, take, get_uint, slice range indexing,
bounds-checked indexing) in a decode-side function we compute a *profile*:
   need    = normalised descriptor of the number of bytes / index range consumed
   guards  = the normalised relations (on the edge leading to the site) of every dominating branch that controls the site and
             whose condition mentions a length/position query
The rule compares the profile with the table confirmed by reading (rules/guard_table.py).  A site without a controlling length
guard, a site whose guard relation changed, and a new unclassified site are all reported.
"""
from .facts import short, canon, path_matches
from .prims import *
from . import desc as D

CONSUMERS = {
    'Buf::get_u8': '1', 'Buf::get_u16': '2', 'Buf::get_u32': '4', 'Buf::get_u64': '8',
    'Buf::copy_to_slice': 'arg1len', 'Buf::advance': 'arg1', 'BytesMut::split_to': 'arg1', 'BytesMut::split_off': 'arg1',
    'Bytes::split_to': 'arg1', 'Bytes::split_off': 'arg1', 'Bytes::slice': 'arg1', 'Buf::copy_to_bytes': 'arg1',
    'Buf::get_uint': 'arg1', 'Buf::take': 'arg1', '<Cursor as Buf>::advance': 'arg1', 'Bytes::advance': 'arg1', 'BytesMut::advance': 'arg1',
    '[T]::split_at': 'arg1', '[T]::split_at_mut': 'arg1', '[T]::copy_from_slice': 'arg1len',
    # obligations exported to callers (the callee reads without a guard of its own)
    'HeaderKey::decrypt': 'arg1', 'PacketNumber::decode': 'arg0', 'ConnectionId::from_buf': 'arg1',
}
LEN_QUERIES = ('Buf::remaining', 'Buf::has_remaining', 'len', 'is_empty', 'Cursor::position', 'Bytes::len', 'BytesMut::len', '[T]::len',
               '<Cursor as Buf>::remaining', '<Cursor as Buf>::has_remaining', 'Bytes::is_empty', 'Vec::len')

DECODE_FILES = ('quinn-proto/src/coding.rs', 'quinn-proto/src/varint.rs', 'quinn-proto/src/frame.rs', 'quinn-proto/src/packet.rs', 'quinn-proto/src/shared.rs',
                'quinn-proto/src/transport_parameters.rs', 'quinn-proto/src/token.rs', 'quinn-proto/src/connection/packet_crypto.rs', 'quinn-proto/src/crypto/rustls.rs')
EXTRA_FUNCS = ('ConnectionIndex::get', 'HashedConnectionIdGenerator', 'Connection::process_decrypted_packet')
# encode-side / non-peer-input functions living in the decode files (never fed peer bytes)
ENCODE_SIDE = ('encode', 'write', 'finish', 'random', 'new', 'fmt', 'deref', 'deref_mut', 'generate_cid', 'encrypt', 'size', 'from', 'retry_tag',
               'is_valid_retry', 'into_iter', 'new_in_range')


def _norm(d):
    """render with parameter names kept, locals anonymised (stable under temp renumbering)"""
    r = D.render(d)
    import re
    r = re.sub(r'_\d+\((\w+)\)', r'\1', r)
    r = re.sub(r'_\d+', '_', r)
    r = r.replace('quinn_proto::', '')
    return r[:160]


def _has_len_query(d):
    for x in walk(d):
        if x[0] == 'call':
            m = x[1]
            if m in LEN_QUERIES or m.rsplit('::', 1)[-1] in ('remaining', 'has_remaining', 'len', 'is_empty', 'position'):
                return True
    return False


def is_decode_fn(facts, b):
    r = facts.root_of(b)
    if r.crate != 'quinn_proto':
        return False
    if any(x in r.id for x in EXTRA_FUNCS):
        return r.name not in ENCODE_SIDE
    if not any(r.file.endswith(f[len('quinn-proto/'):]) or r.file == f for f in DECODE_FILES):
        return False
    return r.name not in ENCODE_SIDE


def sites(facts):
    out = []
    for b in facts.code_bodies('quinn_proto'):
        if not is_decode_fn(facts, b):
            continue
        live = b.live_blocks()
        for c in b.calls():
            if c.bb not in live or is_noise(c):
                continue
            sh = short(c.f)
            kind = None
            for k in CONSUMERS:
                if c.is_(k):
                    kind = k
                    break
            if kind is None and (sh.endswith('::index') or sh.endswith('::index_mut')) and any('Range' in g for g in c.ga):
                kind = 'range_index'
            if kind is None:
                continue
            out.append(('call', b, c.bb, kind, c))
        for i, blk in enumerate(b.blocks):
            if i in live and blk['t'][0] == 'assert' and blk['t'][3] == 'bounds' and not blk['t'][6]:
                out.append(('bounds', b, i, 'bounds_index', blk['t']))
    return out


def need_of(facts, b, kind, c):
    if kind == 'bounds_index':
        return 'index'
    how = CONSUMERS.get(kind)
    if kind == 'range_index':
        return _norm(arg_desc(facts, c, 1))
    if how in ('1', '2', '4', '8'):
        return how
    if how == 'arg1':
        return _norm(arg_desc(facts, c, 1))
    if how == 'arg0':
        return _norm(arg_desc(facts, c, 0))
    if how == 'arg1len':
        a = arg_desc(facts, c, 1)
        # slice of a local array: index_mut(arr, range) -> the range ; whole array -> its type
        r = _norm(a)
        if a[0] == 'call' and (a[1].endswith('::index_mut') or a[1].endswith('::index')) and len(a[3]) > 1:
            return 'slice ' + _norm(a[3][1])
        # unsize of array local: type length
        return 'whole ' + r
    return '?'


def _tracked_bools(b):
    """bool locals whose value can be followed: assigned as a whole only, never borrowed"""
    c = getattr(b, '_qv_tracked_bools', None)
    if c is not None:
        return c
    out = {l for l, t in enumerate(b.locals) if t[0] == 'bool'}
    for blk in b.blocks:
        for st in blk['s']:
            if st[0] == '=':
                if st[1][1]:
                    out.discard(st[1][0])
                if st[2][0] == 'ref' and not st[2][2][1]:
                    out.discard(st[2][2][0])
    b._qv_tracked_bools = out
    return out


def _const_reach(b, start, goal, avoid=None, avoid_edge=None):
    """`goal` is reachable from `start` (not through `avoid`) when a switch on a bool local that holds a literal constant on
    the path walked (`L = const c`, copies and `!` followed, no other store in between) only takes the edge selected by c.
    This is the named-bool form of a short-circuit condition: `let bad = p || q || r; if bad { return }` assigns `bad = true`
    on the true edge of p and of q and then branches once; the edges pruned here are infeasible, nothing else is removed."""
    tracked = _tracked_bools(b)
    can = set()            # blocks from which goal is reachable at all (search space)
    stack = [goal]
    while stack:
        x = stack.pop()
        if x in can or x == avoid:
            continue
        can.add(x)
        stack.extend(b.pred[x])
    seen = set()
    stack = [(start, frozenset())]
    plain = lambda o: o[0] in ('c', 'm') and not o[1][1]
    while stack:
        cur, env = stack.pop()
        if cur == goal:
            return True
        if (cur, env) in seen or cur not in can or len(seen) > 20000:
            if len(seen) > 20000:
                return True
            continue
        seen.add((cur, env))
        e = dict(env)
        blk = b.blocks[cur]
        for st in blk['s']:
            if st[0] == 'dead':
                e.pop(st[1], None)
                continue
            if st[0] != '=':
                continue
            dst, rv = st[1], st[2]
            if dst[1]:
                continue
            v = None
            if dst[0] in tracked:
                if rv[0] == 'use' and rv[1][0] == 'k' and rv[1][1] == 'int' and str(rv[1][2]) in ('0', '1'):
                    v = int(rv[1][2])
                elif rv[0] == 'use' and plain(rv[1]) and rv[1][1][0] in e:
                    v = e[rv[1][1][0]]
                elif rv[0] == 'un' and rv[1] == 'Not' and plain(rv[2]) and rv[2][1][0] in e:
                    v = 1 - e[rv[2][1][0]]
            if v is None:
                e.pop(dst[0], None)
            else:
                e[dst[0]] = v
        t = blk['t']
        succ = list(b.succ[cur])
        if t[0] == 'call' and isinstance(t[1], dict) and t[1].get('dst'):
            e.pop(t[1]['dst'][0], None)
        if t[0] == 'switch' and plain(t[1]) and t[1][1][0] in e:
            val = e[t[1][1][0]]
            tgt = t[3]
            for v_, t_ in t[2]:
                if str(v_) == str(val):
                    tgt = t_
            if tgt in succ:
                succ = [tgt]
        ne = frozenset(e.items())
        for s_ in succ:
            if avoid_edge is None or (cur, s_) != avoid_edge:
                stack.append((s_, ne))
    return False


def _controlling(facts, b, bb, only_len):
    guards = []
    reach0 = None
    for br in branches(facts, b):
        if br.bb == bb:
            continue
        if only_len and not _has_len_query(br.desc):
            continue
        sides = []
        if b.dominates(br.bb, bb):
            for v, t in br.edges:
                if bb in b.reachable_from(t, avoid=[br.bb]) or bb == t:
                    sides.append(v)
            if len(sides) == 2 and len(br.edges) == 2 and relation_on(br.desc, True) is not None:
                # both edges rejoin before the site: the comparison may still decide it through a named bool
                sides = [v for v, t in br.edges if bb == t or _const_reach(b, t, bb, br.bb)]
        elif len(br.edges) == 2 and relation_on(br.desc, True) is not None and br.edges[0][1] != br.edges[1][1]:
            # not a dominator of the plain CFG: an earlier operand of the same short-circuit condition jumps past this test
            # with the named bool already decided (`let bad = p || q; if bad { return }`: the true edge of p skips q).  The
            # edge controls the site when no feasible path (switches on constant-holding bools followed) reaches it otherwise
            if reach0 is None:
                reach0 = b.reachable_from(0)
            if br.bb in reach0 and bb in b.reachable_from(br.bb):
                sides = [v for v, t in br.edges if not _const_reach(b, 0, bb, None, (br.bb, t))]
        if len(sides) != 1:
            continue
        v = sides[0]
        truth = True if v is None else (v != 0)
        rel = relation_on(br.desc, truth)
        if rel is not None:
            guards.append('%s %s %s' % (_norm(rel[1]), rel[0], _norm(rel[2])))
        else:
            inner, neg = peel_not(br.desc)
            if inner[0] == 'discr':
                guards.append('discr(%s)==%s' % (_norm(inner[1]), v))
            else:
                guards.append(('!' if (neg != (not truth)) else '') + _norm(inner))
    return guards


def profile(facts, site):
    tag, b, bb, kind, c = site
    root = facts.root_of(b)
    guards = _controlling(facts, b, bb, True)
    allg = _controlling(facts, b, bb, False)
    # a closure handed to bool::then / Option::filter etc. inherits the condition it is run under
    if b.kind == 'closure' and b.parent in facts.bodies:
        pb = facts.bodies[b.parent]
        for pc in pb.calls():
            if pc.is_('bool::then') and any(cb.id == b.id for cb in closure_args(facts, pc)):
                cd = arg_desc(facts, pc, 0)
                rel = relation_on(cd, True)
                if rel is not None:
                    g = '%s %s %s' % (_norm(rel[1]), rel[0], _norm(rel[2]))
                    g = g.replace('self.', '^*self.').replace('(buffer)', '(^*buffer)')
                    guards.append(g)
                    allg.append(g)
    if tag == 'call':
        recv = _norm(arg_desc(facts, c, 0))
        need = need_of(facts, b, kind, c)
        line = c.line
        callee = short(c.f)
    else:
        recv = ''
        d = describer(facts, b)
        cd = d.operand(c[1], bb, term_idx(b, bb))
        need = 'index ' + _norm(cd)
        line = c[5]
        callee = '[bounds]'
    for w in ('BytesMut::freeze(', 'Bytes::clone('):
        if recv.startswith(w) and recv.endswith(')'):
            recv = recv[len(w):-1]
    return {'fn': root.short, 'fn_id': root.id, 'callee': callee, 'recv': recv[:80], 'need': need, 'guards': sorted(set(guards)), 'all_guards': sorted(set(allg)),
            'file': b.file, 'line': line, 'body': b}


def key_of(p):
    return (p['fn'], p['callee'], p['need'])


import re as _re


def _const_of(s):
    s = s.strip()
    m = _re.fullmatch(r'(?:[\w:]+=)?(\d+)', s)
    return int(m.group(1)) if m else None


def _range_len(need):
    """constant length of `Range{a, b}` / `RangeTo{b}` needs"""
    m = _re.search(r'Range::Range\{([^,{}]+), ([^{}]+)\}$', need)
    if m:
        a, b = _const_of(m.group(1)), _const_of(m.group(2))
        if a is not None and b is not None:
            return b - a, a, b
        if a == 0:
            return m.group(2).strip(), 0, m.group(2).strip()
    m = _re.search(r'RangeTo::RangeTo\{([^{}]+)\}$', need)
    if m:
        b = _const_of(m.group(1))
        return (b, 0, b) if b is not None else (m.group(1).strip(), 0, m.group(1).strip())
    return None


def auto_verdict(p):
    """('ok', reason) when the profile is discharged by a built-in sufficiency idiom, else None"""
    need = p['need']
    guards = p['guards']
    recv = p['recv']
    callee = p['callee']
    if 'RangeFull' in need:
        return 'ok', 'full-range slicing cannot go out of bounds'
    mb = _re.fullmatch(r'index \\((\\d+) Lt (\\d+)\\)', need)
    if mb and int(mb.group(1)) < int(mb.group(2)):
        return 'ok', 'constant index %s into a fixed array of %s' % (mb.group(1), mb.group(2))
    if recv.startswith('u64::to_le_bytes(') and 'index' in callee:
        rl = _range_len(need)
        if rl and isinstance(rl[2], int) and rl[2] <= 8:
            return 'ok', 'constant range within the 8-byte array returned by to_le_bytes'
    # local fixed-size array receiver
    m = _re.match(r'repeat\[(\d+)\]', recv)
    if m and ('index' in callee):
        n = int(m.group(1))
        rl = _range_len(need)
        if rl and isinstance(rl[2], int) and rl[2] <= n:
            return 'ok', 'constant range %s within local array of %d' % (need[-20:], n)
        # `arr[0..x]` / `arr[..x]` (the same prefix, two spellings) under a controlling `x <= K`, K <= N
        if rl and rl[1] == 0 and isinstance(rl[2], str):
            for g in p.get('all_guards', guards):
                mg = _re.fullmatch(r'(.+) (Le|Lt) (.+)', g)
                if not mg or mg.group(1) != rl[2]:
                    continue
                k = _const_of(mg.group(3))
                if k is not None and (k if mg.group(2) == 'Le' else k - 1) <= n:
                    return 'ok', 'guard `%s` keeps the prefix range within the local array of %d' % (g, n)
    # `&recv[start..]` where start is the payload of `recv.len().checked_sub(K)`: the payload exists only when K <= len and is
    # then len - K <= len (the `if len < K { return }; &recv[len - K..]` idiom with the test and the subtraction fused)
    if recv and 'index' in callee:
        mcs = _re.search(r'RangeFrom::RangeFrom\{\(usize::checked_sub\((.+), [^{}]+\) as (?:Some|Continue)\)\.0\}$', need)
        if mcs and _re.fullmatch(r'\S*len\(%s\)' % _re.escape(recv), mcs.group(1)):
            return 'ok', 'start index is the Some payload of len(%s).checked_sub(..), at most the length' % recv[:40]
    # needed byte count
    n_need = None
    expr_need = None
    if need in ('1', '2', '4', '8'):
        n_need = int(need)
    elif need.startswith('whole repeat['):
        n_need = int(_re.match(r'whole repeat\[(\d+)\]', need).group(1))
    elif need.startswith('slice '):
        rl = _range_len(need)
        if rl:
            if isinstance(rl[0], int):
                n_need = rl[0]
            else:
                expr_need = rl[0]
    elif _const_of(need) is not None:
        n_need = _const_of(need)
    else:
        expr_need = need
    for g in guards:
        m2 = _re.fullmatch(r'(.+) (Le|Lt) (.+)', g)
        if g.endswith('has_remaining(%s)' % recv) and not g.startswith('!') and n_need == 1:
            return 'ok', 'has_remaining() guards a 1-byte read'
        if not m2:
            continue
        lhs, op, rhs = m2.group(1), m2.group(2), m2.group(3)
        if not (rhs.endswith('remaining(%s)' % recv) or rhs.endswith('len(%s)' % recv) or (recv and recv in rhs and ('remaining(' in rhs or 'len(' in rhs))):
            continue
        k = _const_of(lhs)
        if n_need is not None and k is not None and (k >= n_need if op == 'Le' else k + 1 >= n_need):
            return 'ok', 'guard `%s` covers %d byte(s)' % (g, n_need)
        if expr_need is not None and lhs == expr_need:
            return 'ok', 'guard `%s` covers the same length expression' % g
        # need = len(X) - K  (or RangeFrom{len(X) - K}) under K' <= len(X)
        m3 = _re.search(r'\((\S*len\([^()]*(?:\([^()]*\))?[^()]*\)) Sub ([\w:=]+)\)', need)
        if m3 and k is not None or (m3 and _re.search(r'(\d+) Add (\d+)', lhs)):
            kk = _const_of(m3.group(2))
            k2 = k
            if k2 is None:
                mm = _re.search(r'=(\d+) Add (\d+)', lhs) or _re.search(r'(\d+) Add (\d+)', lhs)
                k2 = int(mm.group(1)) + int(mm.group(2)) if mm else None
            if kk is not None and k2 is not None and k2 >= kk and m3.group(1) in rhs:
                return 'ok', 'guard `%s` makes `%s` non-negative and in range' % (g, m3.group(0))
    return None
