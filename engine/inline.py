"""See through helper functions that did not exist when the rules were written.

Rules are anchored in named functions of the pinned tree.  Extracting a few lines of an anchored function into a new
private helper (`fn account_reset(..)`, `fn stream_budget(&self)`) is behaviour-preserving, but the stores, guards and
calls the rules look for move out of the anchored body.  On load, every call from a crate-local body to a crate-local
`fn` that is NOT in the pin file (rules/name_pins.json lists every function of the tree the rules were written for) is
inlined at the MIR-fact level: the callee's locals and blocks are appended to the caller, arguments become assignments
to the callee's parameter locals, `return` becomes an assignment to the call's destination plus a goto to its target.
Two levels deep; recursive and very large callees are left alone.  A new private function all of whose call sites
were inlined is removed from the fact base (its body now lives in its callers), so writer / caller allow-lists see
the caller.  Functions that exist in the pin file are never inlined: they are the anchors."""
import copy

MAX_BLOCKS = 400      # tracing macros expand to many blocks
MAX_DEPTH = 2


def _mp(place, loff):
    l, proj = place
    return [l + loff, [(['i', e[1] + loff] if isinstance(e, list) and e and e[0] == 'i' else e) for e in proj]]


def _mo(op, loff):
    if isinstance(op, list) and op and op[0] in ('c', 'm'):
        return [op[0], _mp(op[1], loff)]
    return op


def _mrv(rv, loff):
    k = rv[0]
    if k == 'use':
        return ['use', _mo(rv[1], loff)]
    if k in ('ref', 'ptr'):
        return [k, rv[1], _mp(rv[2], loff)]
    if k == 'bin':
        return ['bin', rv[1], _mo(rv[2], loff), _mo(rv[3], loff)]
    if k == 'un':
        return ['un', rv[1], _mo(rv[2], loff)]
    if k == 'cast':
        return ['cast', rv[1], _mo(rv[2], loff)] + list(rv[3:])
    if k == 'discr':
        return ['discr', _mp(rv[1], loff)]
    if k == 'rep':
        return ['rep', _mo(rv[1], loff)] + list(rv[2:])
    if k == 'agg':
        return ['agg', rv[1], [_mo(o, loff) for o in rv[2]]] + list(rv[3:])
    return copy.deepcopy(rv)


def _ms(s, loff):
    if s[0] == '=':
        return ['=', _mp(s[1], loff), _mrv(s[2], loff)] + list(s[3:])
    if s[0] == 'sd':
        return ['sd', _mp(s[1], loff)] + list(s[2:])
    if s[0] in ('live', 'dead'):
        return [s[0], s[1] + loff]
    return copy.deepcopy(s)


def _inline_site(caller, bi, callee):
    cd = caller.blocks[bi]['t'][1]
    loff, boff = len(caller.locals), len(caller.blocks)
    names = {nm for _, nm in caller.locals if nm}
    for li, (ty, nm) in enumerate(callee.locals):
        if 1 <= li <= callee.argc:
            nm = ''      # a parameter of the inlined helper is just a temporary holding the argument: look through it
        caller.locals.append([ty, (nm if nm not in names else '%s::%s' % (callee.name, nm)) if nm else nm])
    line = cd.get('line', 0)
    for blk in callee.blocks:
        nb = {'c': blk['c'], 's': [_ms(s, loff) for s in blk['s']]}
        t = blk['t']
        k = t[0]
        if k == 'goto':
            nt = ['goto', t[1] + boff]
        elif k == 'switch':
            nt = ['switch', _mo(t[1], loff), [[v, x + boff] for v, x in t[2]], t[3] + boff] + list(t[4:])
        elif k == 'ret':
            nb['s'].append(['=', copy.deepcopy(cd['dst']), ['use', ['m', [loff, []]]], line])
            nt = ['goto', cd['t']] if cd.get('t') is not None else ['unreach']
        elif k == 'drop':
            nt = ['drop', _mp(t[1], loff), t[2] + boff] + list(t[3:])
        elif k == 'call':
            d = dict(t[1])
            d['args'] = [_mo(a, loff) for a in d['args']]
            d['dst'] = _mp(d['dst'], loff)
            if d.get('t') is not None:
                d['t'] = d['t'] + boff
            if isinstance(d.get('fo'), list):
                d['fo'] = _mo(d['fo'], loff)
            nt = ['call', d]
        elif k == 'assert':
            nt = ['assert', _mo(t[1], loff), t[2], t[3], t[4] + boff] + list(t[5:])
        else:
            nt = copy.deepcopy(t)
        nb['t'] = nt
        caller.blocks.append(nb)
    blk = caller.blocks[bi]
    for k, a in enumerate(cd['args']):
        blk['s'].append(['=', [loff + k + 1, []], ['use', a], line])
    blk['t'] = ['goto', boff]
    for attr in ('_calls', '_succ', '_pred', '_dom', '_pdom', '_defs'):
        setattr(caller, attr, None)
    for attr in list(vars(caller)) if hasattr(caller, '__dict__') else []:
        if attr.startswith('_cache'):
            setattr(caller, attr, None)


def apply(facts, pinned_ids):
    """returns the list of inlinings made (for the evidence file)"""
    if not pinned_ids:
        return []
    made = []
    inlined_callees = set()
    for depth in range(MAX_DEPTH):
        changed = False
        for b in list(facts.bodies.values()):
            if b.kind not in ('fn', 'closure', 'coroutine') or b.crate == 'qvfix':
                continue
            n0 = len(b.blocks)
            for bi in range(n0):
                blk = b.blocks[bi]
                if blk['c'] or blk['t'][0] != 'call':
                    continue
                cd = blk['t'][1]
                f = cd.get('f')
                cal = facts.bodies.get(f) if f else None
                if cal is None or cal is b or cal.kind != 'fn' or cal.crate != b.crate or cal.id in pinned_ids:
                    continue
                if len(cal.blocks) > MAX_BLOCKS or len(cd['args']) != cal.argc:
                    continue
                if any((not x['c']) and x['t'][0] == 'call' and x['t'][1].get('f') == cal.id for x in cal.blocks):
                    continue        # recursive
                if cal.root != cal.id and cal.root == b.root:
                    pass
                _inline_site(b, bi, cal)
                inlined_callees.add(cal.id)
                made.append('%s inlined into %s' % (cal.short, b.short))
                changed = True
                for x in facts.bodies.values():
                    if x.parent == cal.id and x.kind in ('closure', 'coroutine'):
                        x.parent = b.id
                        x.root = b.root
        if not changed:
            break
    # a new function whose every call site was inlined lives on in its callers only
    still_called = set()
    for b in facts.bodies.values():
        for blk in b.blocks:
            if blk['t'][0] == 'call' and blk['t'][1].get('f') in inlined_callees and not blk['c']:
                still_called.add(blk['t'][1]['f'])
    for cid in inlined_callees - still_called:
        cal = facts.bodies.get(cid)
        if cal is not None and not cal.is_pub:
            facts.bodies.pop(cid, None)
            lst = facts.by_short.get(cal.short, [])
            if cal in lst:
                lst.remove(cal)
    return made
