"""Rule primitives over the fact base (see DESIGN.md section 4).

Every primitive returns plain data (sites, paths); rules/Cxx.py turn them into obligations.
"""
from . import facts as _facts_mod
from .facts import Facts, Body, Call, CheckBroken, path_matches, short, canon, NOISE_MACROS
from .desc import Describer, walk, render, norm_bin

STD_VARIANTS = {
    'Option': {'None': 0, 'Some': 1},
    'Result': {'Ok': 0, 'Err': 1},
    'Poll': {'Ready': 0, 'Pending': 1},
    'ControlFlow': {'Continue': 0, 'Break': 1},
    'Ordering': {'Less': -1, 'Equal': 0, 'Greater': 1},
}


def mac_names(mac):
    return [m.replace('$crate::', '').rstrip('!').split('::')[-1] for m in mac]


def is_noise(call):
    """tracing / debug_assert / format machinery: never an effect, never a guard"""
    if not call.mac:
        return False
    names = mac_names(call.mac)
    return any(n in NOISE_MACROS for n in names)


def is_panic_call(call):
    return call.is_('panicking::panic', 'panicking::panic_fmt', 'panicking::panic_explicit', 'panicking::unreachable_display',
                    'panicking::assert_failed', 'panicking::panic_nounwind', 'panicking::panic_display',
                    'option::unwrap_failed', 'option::expect_failed', 'result::unwrap_failed',
                    'panicking::panic_bounds_check', 'panicking::panic_const')


# --------------------------------------------------------------------------
# describer cache
# --------------------------------------------------------------------------

_DESC = _facts_mod.register_memo({})


def describer(facts, body, stop_named=False):
    k = (facts.uid, body.id, stop_named)
    d = _DESC.get(k)
    if d is None:
        d = Describer(facts, body, stop_named=stop_named)
        _DESC[k] = d
    return d


def term_idx(body, bb):
    return len(body.blocks[bb]['s'])


def arg_desc(facts, call, i):
    d = describer(facts, call.body)
    if i >= len(call.args):
        return ('const', 'other', '<noarg>', '')
    return d.operand(call.args[i], call.bb, term_idx(call.body, call.bb))


def ret_descs(facts, body):
    """descriptor of the returned value at every normal return block: list of (bb, desc)"""
    d = describer(facts, body)
    out = []
    live = body.live_blocks()
    for r in body.return_blocks():
        if r in live:
            out.append((r, d.place([0, []], r, term_idx(body, r))))
    return out


# --------------------------------------------------------------------------
# branches
# --------------------------------------------------------------------------

class Branch:
    """a SwitchInt: bb, desc of the discriminant, edges = list of (value:int|None(otherwise), target)"""
    __slots__ = ('body', 'bb', 'desc', 'edges', 'line')

    def __init__(self, body, bb, desc, edges, line):
        self.body = body
        self.bb = bb
        self.desc = desc
        self.edges = edges
        self.line = line

    def target(self, value):
        """target block when the discriminant equals `value` (int) ; falls to otherwise"""
        other = None
        for v, t in self.edges:
            if v is None:
                other = t
            elif v == value:
                return t
        return other

    def true_target(self):
        # bool switch: [0 -> F] otherwise -> T
        return self.target(1)

    def false_target(self):
        return self.target(0)

    def other_targets(self, value):
        t = self.target(value)
        return [x for _, x in self.edges if x != t]

    def where(self):
        return '%s:%d' % (self.body.file, self.line)


_BR = _facts_mod.register_memo({})


def branches(facts, body, stop_named=False):
    k = (facts.uid, body.id, stop_named)
    if k not in _BR:
        _BR[k] = _branches(facts, body, stop_named)
    return _BR[k]


def _branches(facts, body, stop_named=False):
    d = describer(facts, body, stop_named)
    live = body.live_blocks()
    res = []
    for i, b in enumerate(body.blocks):
        if b['c'] or i not in live:
            continue
        t = b['t']
        if t[0] != 'switch':
            continue
        desc = d.operand(t[1], i, term_idx(body, i))
        edges = [(int(v), tgt) for v, tgt in t[2]] + [(None, t[3])]
        res.append(Branch(body, i, desc, edges, t[4]))
    return res


def peel_not(desc):
    """returns (inner, negated)"""
    neg = False
    while isinstance(desc, tuple) and desc[0] == 'un' and desc[1] == 'Not':
        desc = desc[2]
        neg = not neg
    return desc, neg


NEGATE = {'Lt': ('Le', True), 'Le': ('Lt', True), 'Eq': ('Ne', False), 'Ne': ('Eq', False)}


def relation_on(desc, truth):
    """canonical (op, a, b) that HOLDS when a bool descriptor evaluates to `truth`;
    op in Lt, Le, Eq, Ne ; None when desc is not a comparison."""
    inner, neg = peel_not(desc)
    if neg:
        truth = not truth
    if not (isinstance(inner, tuple) and inner[0] == 'bin' and inner[1] in ('Lt', 'Le', 'Eq', 'Ne')):
        return None
    op, a, b = inner[1], inner[2], inner[3]
    if truth:
        return (op, a, b)
    nop, swap = NEGATE[op]
    return (nop, b, a) if swap else (nop, a, b)


def edge_dominates(body, a, b, site_bb):
    """every path entry -> site_bb uses edge a->b"""
    if site_bb not in body.live_blocks():
        return True
    return site_bb not in body.reachable_from(0, avoid_edges={(a, b)})


def edge_cut_reach(body, frm, to):
    """blocks reachable after taking edge frm->to"""
    return body.reachable_from(to)


# --------------------------------------------------------------------------
# call graph helpers
# --------------------------------------------------------------------------

def closure_args(facts, call):
    """closure bodies constructed in the caller and passed (directly) as arguments of `call`"""
    res = []
    for i in range(len(call.args)):
        ad = arg_desc(facts, call, i)
        for x in walk(ad):
            if x[0] == 'agg' and x[1] in ('closure', 'coroutine'):
                for b in facts.bodies.values():
                    if b.canon == x[2] and b.kind in ('closure', 'coroutine'):
                        res.append(b)
    return res


_MAY = _facts_mod.register_memo({})


def may_reach(facts, body, pats, depth=3):
    """body (or a closure it defines, or a workspace-local callee up to `depth`) calls a callee matching pats"""
    key = (facts.uid, body.id, tuple(pats), depth)
    if key in _MAY:
        return _MAY[key]
    _MAY[key] = False
    res = False
    for b in facts.family(body) if body.kind == 'fn' else [body] + [c for c in facts.bodies.values() if c.parent == body.id]:
        live = b.live_blocks()
        for c in b.calls():
            if c.bb not in live:
                continue
            if c.is_(*pats):
                res = True
                break
            if depth > 0 and c.k in ('item', 'closurecall') and c.f in facts.bodies:
                if may_reach(facts, facts.bodies[c.f], pats, depth - 1):
                    res = True
                    break
        if res:
            break
    _MAY[key] = res
    return res


def site_may_reach(facts, call, pats, depth=3):
    """the call site is, or may lead to, a call matching pats (callee body, or closures passed to it)"""
    if call.is_(*pats):
        return True
    if call.k in ('item', 'closurecall') and call.f in facts.bodies:
        if may_reach(facts, facts.bodies[call.f], pats, depth - 1):
            return True
    for cb in closure_args(facts, call):
        if may_reach(facts, cb, pats, depth - 1):
            return True
    return False


_MUST = _facts_mod.register_memo({})


def must_call(facts, body, pats, depth=3):
    """every entry->normal-return path of body passes a site that is (or must-calls, depth-limited) pats"""
    key = (facts.uid, body.id, tuple(pats), depth)
    if key in _MUST:
        return _MUST[key]
    _MUST[key] = False
    blocks = must_sites(facts, body, pats, depth)
    rets = body.return_blocks()
    reach = body.reachable_from(0, avoid=blocks)
    res = not any(r in reach for r in rets) if 0 not in blocks else True
    _MUST[key] = res
    return res


def must_sites(facts, body, pats, depth=3):
    """blocks of `body` whose terminator call is / must-call pats"""
    res = set()
    for c in body.calls():
        if c.is_(*pats):
            res.add(c.bb)
        elif depth > 0 and c.k == 'item' and c.f in facts.bodies and facts.bodies[c.f].kind == 'fn':
            if must_call(facts, facts.bodies[c.f], pats, depth - 1):
                res.add(c.bb)
    return res


def may_sites(facts, body, pats, depth=3):
    """blocks whose terminator call may reach pats (callee / closure args)"""
    res = set()
    live = body.live_blocks()
    for c in body.calls():
        if c.bb in live and site_may_reach(facts, c, pats, depth):
            res.add(c.bb)
    return res


def path_avoiding(body, start_blocks, goal_blocks, avoid):
    """a block path from any start to any goal avoiding `avoid` blocks, or None (BFS, shortest)"""
    avoid = set(avoid)
    goal = set(goal_blocks)
    from collections import deque
    q = deque()
    prev = {}
    for s in start_blocks:
        if s in avoid:
            continue
        prev[s] = None
        q.append(s)
    while q:
        b = q.popleft()
        if b in goal:
            path = []
            while b is not None:
                path.append(b)
                b = prev[b]
            return list(reversed(path))
        for s in body.succ[b]:
            if s in avoid or s in prev:
                continue
            prev[s] = b
            q.append(s)
    return None


def must_follow(facts, body, site_bb, pats, depth=3, exempt_returns=(), extra_blocks=()):
    """P5: after the terminator of site_bb every normal path to a return passes pats.
    returns None if it holds, else an offending block path."""
    blocks = must_sites(facts, body, pats, depth) | set(extra_blocks)
    rets = [r for r in body.return_blocks() if r not in exempt_returns]
    starts = [s for s in body.succ[site_bb]]
    return path_avoiding(body, starts, rets, blocks)


def dominated_by_any(body, bb, blocks):
    """some block in `blocks` (other than bb itself unless listed) dominates bb"""
    return any(body.dominates(x, bb) for x in blocks)


def must_precede(facts, body, site_bb, pats, depth=3, same_block_ok=False):
    """P4: every path entry -> site_bb passes a site that may reach pats. returns None or offending path."""
    blocks = may_sites(facts, body, pats, depth)
    if not same_block_ok:
        blocks = blocks - {site_bb}
    if site_bb not in body.live_blocks():
        return None
    return path_avoiding(body, [0], [site_bb], blocks)


# --------------------------------------------------------------------------
# field writes / constructions
# --------------------------------------------------------------------------

def _place_field_chain(place):
    return [e for e in place[1] if isinstance(e, list) and e[0] == 'f']


def place_ends_in_field(place, adt_pat, name):
    ch = _place_field_chain(place)
    if not ch:
        return False
    last = place[1][-1]
    if not (isinstance(last, list) and last[0] == 'f'):
        # allow trailing index / deref after the field? no: a write to x.f[i] mutates f
        pass
    e = ch[-1]
    # last *field* elem must be the field and nothing but derefs/indices after it
    idx = max(i for i, x in enumerate(place[1]) if isinstance(x, list) and x[0] == 'f')
    after = place[1][idx + 1:]
    if any(isinstance(x, list) and x[0] == 'v' for x in after):
        return e[1] == name and path_matches(e[2], adt_pat)
    return e[1] == name and path_matches(e[2], adt_pat)


def place_has_field(place, adt_pat, name):
    return any(e[1] == name and path_matches(e[2], adt_pat) for e in _place_field_chain(place))


class Write:
    __slots__ = ('body', 'bb', 'idx', 'kind', 'place', 'rv', 'line', 'call')

    def __init__(self, body, bb, idx, kind, place, rv, line, call=None):
        self.body, self.bb, self.idx, self.kind, self.place, self.rv, self.line, self.call = body, bb, idx, kind, place, rv, line, call

    def where(self):
        return '%s:%d' % (self.body.file, self.line)

    def __repr__(self):
        return 'Write(%s %s @%s)' % (self.kind, self.where(), self.body.short)


_FW = _facts_mod.register_memo({})


def field_writes(facts, adt_pat, name, crate=None, include_borrows=True):
    k = (facts.uid, adt_pat, name, crate, include_borrows)
    if k not in _FW:
        _FW[k] = _field_writes(facts, adt_pat, name, crate, include_borrows)
    return list(_FW[k])


def _field_writes(facts, adt_pat, name, crate=None, include_borrows=True):
    """P2: sites that write S.f : direct assignment to a place ending in the field (or below it), call
    results stored there, and `&mut` borrows of a place through the field (kind 'mutborrow';
    .call = the call the borrow is passed to, when found in the same block chain)."""
    res = []
    for b in facts.code_bodies(crate):
        live = b.live_blocks()
        for i, j, s in b.stmts():
            if i not in live:
                continue
            if s[0] == '=':
                pl, rv, line = s[1], s[2], s[3]
                if place_has_field(pl, adt_pat, name):
                    res.append(Write(b, i, j, 'assign', pl, rv, line))
                if include_borrows and rv[0] == 'ref' and rv[1] and place_has_field(rv[2], adt_pat, name):
                    # find consumer call
                    tgt = pl[0]
                    consumer = None
                    for c in b.calls():
                        for a in c.args:
                            if a[0] in ('c', 'm') and a[1][0] == tgt and not a[1][1]:
                                consumer = c
                                break
                        if consumer:
                            break
                    res.append(Write(b, i, j, 'mutborrow', rv[2], rv, line, consumer))
                if include_borrows and rv[0] == 'ptr' and 'Mut' in str(rv[1]) and place_has_field(rv[2], adt_pat, name):
                    res.append(Write(b, i, j, 'mutborrow', rv[2], rv, line, None))
            elif s[0] == 'sd':
                if place_has_field(s[1], adt_pat, name):
                    res.append(Write(b, i, j, 'assign', s[1], ['sd', s[2]], s[3]))
        for c in b.calls():
            if c.bb in live and place_has_field(c.dst, adt_pat, name):
                res.append(Write(b, c.bb, term_idx(b, c.bb), 'callresult', c.dst, None, c.line, c))
    return res


def borrow_stores(facts, w):
    """stores made through a local `&mut` borrow of a field place (Write of kind 'mutborrow'): follows the
    borrow's destination local through moves/reborrows inside the same body and returns Write('viaborrow')
    for every statement assigning to `*alias` (or below)."""
    b = w.body
    if w.kind != 'mutborrow':
        return []
    st = b.blocks[w.bb]['s'][w.idx]
    aliases = {st[1][0]} if not st[1][1] else set()
    changed = True
    while changed:
        changed = False
        for i, j, s in b.stmts():
            if s[0] != '=' or s[1][1]:
                continue
            rv = s[2]
            src = None
            if rv[0] == 'use' and rv[1][0] in ('c', 'm') and not rv[1][1][1]:
                src = rv[1][1][0]
            elif rv[0] == 'ref' and rv[1] and rv[2][1] == ['*']:
                src = rv[2][0]
            if src in aliases and s[1][0] not in aliases:
                aliases.add(s[1][0])
                changed = True
    out = []
    live = b.live_blocks()
    for i, j, s in b.stmts():
        if i in live and s[0] == '=' and s[1][0] in aliases and s[1][1] and s[1][1][0] == '*':
            out.append(Write(b, i, j, 'viaborrow', s[1], s[2], s[3]))
    return out


class Construct:
    __slots__ = ('body', 'bb', 'idx', 'adt', 'variant', 'fields', 'ops', 'line')

    def __init__(self, body, bb, idx, adt, variant, fields, ops, line):
        self.body, self.bb, self.idx, self.adt, self.variant, self.fields, self.ops, self.line = body, bb, idx, adt, variant, fields, ops, line

    def where(self):
        return '%s:%d' % (self.body.file, self.line)

    def field_op(self, name):
        if name in self.fields:
            return self.ops[self.fields.index(name)]
        return None

    def __repr__(self):
        return 'Construct(%s::%s @%s %s)' % (short(self.adt), self.variant, self.body.short, self.where())


_CN = _facts_mod.register_memo({})


def constructions(facts, adt_pat, variant=None, crate=None):
    k = (facts.uid, adt_pat, variant, crate)
    if k not in _CN:
        _CN[k] = _constructions(facts, adt_pat, variant, crate)
    return list(_CN[k])


def _constructions(facts, adt_pat, variant=None, crate=None):
    """P3: aggregate construction sites of an ADT (variant)"""
    res = []
    for b in facts.code_bodies(crate):
        if b.trait.endswith('::Clone'):
            continue  # derived Clone re-constructs every variant; never a semantic construction site
        live = b.live_blocks()
        for i, j, pl, rv, line in b.assigns():
            if i not in live:
                continue
            if rv[0] == 'agg' and rv[1][0] == 'adt' and path_matches(rv[1][1], adt_pat):
                if variant is None or rv[1][2] == variant:
                    res.append(Construct(b, i, j, rv[1][1], rv[1][2], rv[1][3], rv[2], line))
    return res


def roots(facts, sites):
    """root function short names of a list of sites (closures attributed to their parent fn)"""
    out = set()
    for s in sites:
        b = s.body
        out.add(facts.root_of(b).short)
    return out


def root_short(facts, body):
    return facts.root_of(body).short


# --------------------------------------------------------------------------
# value flow (P7)
# --------------------------------------------------------------------------

def contains_site(d, call):
    """descriptor d contains the result of the given call site"""
    for x in walk(d):
        if x[0] == 'call' and len(x) > 4 and x[4] == call.bb and path_matches(call.f, x[1]) | (short(call.f) == x[1]):
            return True
        if x[0] == 'bin' and len(x) > 4 and x[4] == call.bb:
            return True  # comparison-operator call normalised to a bin node (site kept as 5th element)
    return False


def is_site(d, call):
    if d[0] == 'phi':
        return any(is_site(x, call) for x in d[1])
    return d[0] == 'call' and len(d) > 4 and d[4] == call.bb and short(call.f) == d[1]


def contains_site_via_field(d, call, field):
    for x in walk(d):
        if x[0] == 'field' and x[2] == field and contains_site(x[1], call):
            return True
    return False


def flow_sinks(facts, producer, sink_pats, via_field=None, arg=None):
    """call sites in producer.body (same body only) matching sink_pats with an argument whose descriptor
    derives from the producer site's result (optionally through `.field`)."""
    b = producer.body
    res = []
    live = b.live_blocks()
    for c in b.calls():
        if c.bb not in live or not c.is_(*sink_pats):
            continue
        idxs = range(len(c.args)) if arg is None else [arg]
        for i in idxs:
            ad = arg_desc(facts, c, i)
            if (contains_site_via_field(ad, producer, via_field) if via_field else contains_site(ad, producer)):
                res.append(c)
                break
    return res


def binding_blocks(facts, producer):
    """blocks where the payload of an Option/Result produced at `producer` is first bound
    (`x = (ret as Some).0`, unwrap/expect of it, or the loop variable of an iterator over it)."""
    b = producer.body
    d = describer(facts, b)
    res = set()
    live = b.live_blocks()
    for i, j, pl, rv, line in b.assigns():
        if i not in live or rv[0] != 'use' or rv[1][0] not in ('c', 'm'):
            continue
        src = rv[1][1]
        # projection (.. as Some).0
        pr = src[1]
        if len(pr) >= 2 and isinstance(pr[-1], list) and pr[-1][0] == 'f' and pr[-1][1] == '0' \
                and isinstance(pr[-2], list) and pr[-2][0] == 'v' and pr[-2][1] in ('Some', 'Ok'):
            base = d.place([src[0], pr[:-2]], i, j)
            if is_site(base, producer) or (base[0] == 'call' and base[1].endswith('::next') and base[3] and is_site(base[3][0], producer)):
                res.add(i)
    for c in b.calls():
        if c.bb in live and c.is_('Option::unwrap', 'Option::expect', 'Result::unwrap', 'Result::expect') and c.args:
            if is_site(arg_desc(facts, c, 0), producer):
                if c.t is not None:
                    res.add(c.t)
    return res


def flows_always(facts, producer, sink_pats, via_field=None, depth=2):
    """P7-ALL: returns (sinks, offending_path|None): the producer's payload reaches a sink, and from every
    binding block every normal path to a return passes such a sink."""
    b = producer.body
    sinks = flow_sinks(facts, producer, sink_pats, via_field)
    if not sinks:
        return [], None
    sink_blocks = {c.bb for c in sinks}
    binds = binding_blocks(facts, producer)
    for bb in binds:
        if bb in sink_blocks:
            continue
        p = path_avoiding(b, [bb], b.return_blocks(), sink_blocks)
        if p is not None:
            return sinks, p
    return sinks, None


# --------------------------------------------------------------------------
# path partition (P11)
# --------------------------------------------------------------------------

def reach_under(facts, body, assume, start=0, avoid=()):
    """blocks reachable from `start` when branches on the named bool locals in `assume` ({name: bool}) only take the
    consistent edge (copies and Not propagated through the stop_named describer)."""
    brs = {br.bb: br for br in branches(facts, body, stop_named=True)}
    avoid = set(avoid)
    seen = set()
    stack = [start]
    while stack:
        b = stack.pop()
        if b in seen or b in avoid:
            continue
        seen.add(b)
        succ = body.succ[b]
        br = brs.get(b)
        if br is not None:
            inner, neg = peel_not(br.desc)
            if inner[0] in ('local', 'param') and inner[2] in assume:
                val = assume[inner[2]]
                if neg:
                    val = not val
                t = br.target(1 if val else 0)
                succ = [t] if t in succ else succ
        for s in succ:
            if s not in seen:
                stack.append(s)
    return seen
