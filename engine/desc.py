"""Value descriptors: backward reaching-definition expansion of MIR operands/places into
normalised expression trees (hashable tuples).

Forms:
  ('param', i, name)                 function parameter
  ('upvar', name)                    closure capture
  ('field', base, name)              field projection (derefs/refs/copies/moves erased)
  ('variant', base, V)               enum downcast
  ('index', base)                    indexing (any index)
  ('const', kind, value, named)      kind in int|fn|other ; named = path of a named const or ''
  ('call', short, full, (args..), bb) call result (bb = block of the call site)
  ('bin', op, a, b)                  op in Add Sub Mul Div Rem Lt Le Gt Ge Eq Ne BitAnd BitOr BitXor Shl Shr
  ('un', op, a)                      Not Neg PtrMetadata
  ('discr', a)                       discriminant read
  ('agg', kind, name, (args..))      aggregate construction
  ('phi', (descs..))                 several reaching definitions
  ('local', n, name)                 not expanded (depth / cycle / no definition found)
"""
from .facts import short, canon

BINOPS = {
    'Add': 'Add', 'AddWithOverflow': 'Add', 'AddUnchecked': 'Add',
    'Sub': 'Sub', 'SubWithOverflow': 'Sub', 'SubUnchecked': 'Sub',
    'Mul': 'Mul', 'MulWithOverflow': 'Mul', 'MulUnchecked': 'Mul',
    'Div': 'Div', 'Rem': 'Rem', 'BitAnd': 'BitAnd', 'BitOr': 'BitOr', 'BitXor': 'BitXor',
    'Shl': 'Shl', 'ShlUnchecked': 'Shl', 'Shr': 'Shr', 'ShrUnchecked': 'Shr',
    'Eq': 'Eq', 'Ne': 'Ne', 'Lt': 'Lt', 'Le': 'Le', 'Gt': 'Gt', 'Ge': 'Ge', 'Cmp': 'Cmp', 'Offset': 'Offset',
}

# calls that are transparent for value provenance (return (a view of) their first argument)
TRANSPARENT = (
    'Deref::deref', 'DerefMut::deref_mut', 'Clone::clone', 'Borrow::borrow', 'BorrowMut::borrow_mut',
    'AsRef::as_ref', 'AsMut::as_mut', 'Into::into', 'From::from', 'Option::as_ref', 'Option::as_mut',
    'Option::as_deref', 'Option::as_deref_mut', 'Result::as_ref', 'Result::as_mut', 'Pin::as_mut', 'Pin::get_mut',
    'Pin::new', 'Pin::new_unchecked', 'Pin::get_unchecked_mut', 'Pin::into_inner', 'Option::copied', 'Option::cloned',
    'Box::new', 'Arc::new', 'IntoIterator::into_iter', 'Try::branch', 'ToOwned::to_owned', 'mem::copy',
)


def _is_transparent(sh, full):
    if sh in TRANSPARENT:
        return True
    # `<X as Deref>::deref` etc
    if sh.startswith('<') and ' as ' in sh:
        tr_m = sh[1:].split(' as ', 1)[1]
        tr_m = tr_m.replace('>::', '::', 1)
        if tr_m in TRANSPARENT:
            return True
    return False


class Describer:
    def __init__(self, facts, body, max_depth=60, stop_named=False):
        self.stop_named = stop_named
        self.facts = facts
        self.b = body
        self.max_depth = max_depth
        self.memo = {}
        self.transparent = True
        # locals whose address is taken mutably: their fields may change behind any aggregate literal
        self.mut_borrowed = set()
        for blk in body.blocks:
            if blk['c']:
                continue
            for st in blk['s']:
                if st[0] == '=' and st[2][0] == 'ref' and st[2][1] and not any(e == '*' for e in st[2][2][1]):
                    self.mut_borrowed.add(st[2][2][0])

    # ---- reaching definitions -------------------------------------------
    def reaching_defs(self, local, bb, idx, proj=None):
        """definition sites of `local` (whole or partial) that reach statement idx of bb
        (idx = len(stmts) means the terminator)."""
        b = self.b
        defs = b.defs_of(local)
        if not defs:
            return []
        sites = [d for d in defs if d[0] != 'arg']
        has_arg = any(d[0] == 'arg' for d in defs)
        if len(sites) == 1 and not has_arg:
            return sites
        if not sites and has_arg:
            return [('arg',)]
        # index defs by block
        byblk = {}
        for d in sites:
            byblk.setdefault(d[1], []).append(d)
        res = []
        seen = set()
        # search backward
        stack = [(bb, idx)]
        first = True
        while stack:
            blk, upto = stack.pop()
            found = None
            cands = byblk.get(blk, [])
            if cands:
                # statement defs with index < upto; call/yield defs are at the terminator (index = +inf) and
                # only count when coming from a successor (upto is None)
                best = -1
                for d in cands:
                    if d[0] in ('stmt', 'field', 'sd'):
                        if upto is None or d[2] < upto:
                            if d[2] > best:
                                best = d[2]
                                found = d
                    # call results are assigned on the edge to the target: treat as end-of-block def
                if upto is None:
                    for d in cands:
                        if d[0] in ('call', 'callfield', 'yield'):
                            found = d
                            # a call def at the terminator supersedes statement defs
                            break
            if found is not None:
                if found not in res:
                    res.append(found)
                # partial defs do not kill, unless they define (a prefix of) exactly the wanted projection
                kills = False
                if proj is not None and found[0] == 'field' and _proj_prefix(found[3][1], proj):
                    kills = True
                if proj is not None and found[0] == 'callfield' and _proj_prefix(found[2].dst[1], proj):
                    kills = True
                if found[0] in ('field', 'sd', 'callfield') and not kills:
                    # continue searching above this def
                    if found[0] == 'callfield':
                        stack.append((blk, len(b.blocks[blk]['s'])))
                    else:
                        stack.append((blk, found[2]))
                continue
            if blk == 0 and (upto is not None or True):
                pass
            preds = b.pred[blk]
            if not preds and blk == 0 and has_arg:
                if ('arg',) not in res:
                    res.append(('arg',))
            for p in preds:
                if p not in seen:
                    seen.add(p)
                    stack.append((p, None))
            if blk == 0 and has_arg and ('arg',) not in res:
                res.append(('arg',))
        return res

    # ---- descriptor construction ------------------------------------------
    def operand(self, o, bb, idx, depth=0):
        if o[0] in ('c', 'm'):
            return self.place(o[1], bb, idx, depth)
        # const
        kind = o[1]
        if kind == 'fn':
            return ('const', 'fn', short(o[2]), canon(o[2]))
        named = o[4] if len(o) > 4 else ''
        if named and 'promoted[' in named and depth < self.max_depth:
            pb = self.facts.bodies.get(named)
            if pb is not None and pb.kind == 'promoted':
                sub = Describer(self.facts, pb, self.max_depth, self.stop_named)
                outs = []
                for r in pb.return_blocks():
                    outs.append(sub.place([0, []], r, len(pb.blocks[r]['s']), depth + 1))
                outs = _dedup(outs)
                if len(outs) == 1:
                    return outs[0]
        return ('const', kind, o[2], short(named) if named else '')

    def _base_local(self, local, bb, idx, depth):
        b = self.b
        name = b.locals[local][1]
        if b.kind in ('closure', 'coroutine') and local == 1:
            return ('env',)
        if depth > self.max_depth:
            return ('local', local, name)
        if self.stop_named and name and not (1 <= local <= b.argc):
            return ('local', local, name)
        key = (local, bb, idx)
        if key in self.memo:
            v = self.memo[key]
            return v if v is not None else ('local', local, name)
        self.memo[key] = None  # cycle guard
        defs = self.reaching_defs(local, bb, idx)
        outs = []
        for d in defs:
            if d[0] == 'arg':
                outs.append(('param', local, name))
            elif d[0] == 'stmt':
                outs.append(self.rvalue(d[3], d[1], d[2], depth + 1))
            elif d[0] == 'call':
                outs.append(self.call_desc(d[2], depth + 1))
            elif d[0] == 'yield':
                outs.append(('local', local, name))
            else:
                # partial definition: keep opaque marker; field-sensitive lookup is in place()
                pass
        outs = _dedup(outs)
        if not outs:
            v = ('local', local, name)
        elif len(outs) == 1:
            v = outs[0]
        else:
            v = ('phi', tuple(sorted(outs, key=repr)))
        self.memo[key] = v
        return v

    def place(self, p, bb, idx, depth=0):
        local, proj = p
        b = self.b
        # field-sensitive: partial defs of local.field
        if proj and proj[0] != '*':
            # field-sensitive expansion only for local aggregates; memory reached through a
            # pointer/reference (`(*_1).f`) stays an opaque field reference
            fd = self._partial(local, proj, bb, idx, depth)
            if fd is not None:
                return fd
        if proj and local in self.mut_borrowed and proj[0] != '*' and isinstance(proj[0], list) and proj[0][0] == 'f' and self.b.locals[local][1]:
            # field of a named local that is also mutated through `&mut`: keep it opaque
            return self._apply_proj(('local', local, self.b.locals[local][1]), proj)
        base = self._base_local(local, bb, idx, depth)
        return self._apply_proj(base, proj)

    def _apply_proj(self, base, proj):
        d = base
        for e in proj:
            if e == '*':
                continue
            if isinstance(e, list):
                if e[0] == 'f':
                    d = self._field(d, e[1], e[2])
                elif e[0] == 'v':
                    d = ('variant', d, e[1])
                elif e[0] in ('i', 'ci'):
                    d = ('index', d)
            elif e == 'sub':
                d = ('index', d)
        return d

    def _field(self, d, name, adt):
        # closure env field -> upvar
        if d == ('env',):
            return ('upvar', getattr(self.b, 'upvar_alias', {}).get(name, name))
        # projection of an aggregate literal -> the operand
        if d[0] == 'agg':
            kind, nm, args = d[1], d[2], d[3]
            if kind == 'tuple' and name.isdigit() and int(name) < len(args):
                return args[int(name)]
            if kind == 'adt':
                fields = d[4] if len(d) > 4 else ()
                if name in fields:
                    return args[fields.index(name)]
        # checked arithmetic tuple: (value, overflow)
        if d[0] == 'bin' and name == '0' and not adt:
            return d
        if d[0] == 'bin' and name == '1' and not adt:
            return ('overflow', d)
        if d[0] == 'phi':
            return ('phi', tuple(sorted(_dedup([self._field(x, name, adt) for x in d[1]]), key=repr)))
        return ('field', d, name)

    def _partial(self, local, proj, bb, idx, depth):
        """If `local.<first field>` has partial definitions reaching here, describe from them."""
        b = self.b
        defs = b.defs_of(local)
        partial = [d for d in defs if d[0] in ('field', 'callfield')]
        if not partial:
            return None
        if depth > self.max_depth:
            return None
        reach = self.reaching_defs(local, bb, idx, proj)
        outs = []
        whole = False
        for d in reach:
            if d[0] == 'field':
                dp = d[3][1]
                if _proj_prefix(dp, proj):
                    sub = self.rvalue(d[4], d[1], d[2], depth + 1)
                    outs.append(self._apply_proj(sub, proj[len(dp):]))
            elif d[0] == 'callfield':
                dp = d[2].dst[1]
                if _proj_prefix(dp, proj):
                    sub = self.call_desc(d[2], depth + 1)
                    outs.append(self._apply_proj(sub, proj[len(dp):]))
            elif d[0] in ('stmt', 'call', 'arg', 'yield'):
                whole = True
        if not outs:
            return None
        if whole:
            # also include whole-definitions projected
            saved = self.memo.get((local, bb, idx))
            base = self._base_local(local, bb, idx, depth)
            outs.append(self._apply_proj(base, proj))
        outs = _dedup(outs)
        return outs[0] if len(outs) == 1 else ('phi', tuple(sorted(outs, key=repr)))

    def rvalue(self, rv, bb, idx, depth):
        k = rv[0]
        if k == 'use':
            return self.operand(rv[1], bb, idx, depth)
        if k in ('ref',):
            return self.place(rv[2], bb, idx, depth)
        if k == 'ptr':
            return self.place(rv[2], bb, idx, depth)
        if k == 'bin':
            op = BINOPS.get(rv[1], rv[1])
            a = self.operand(rv[2], bb, idx, depth)
            c = self.operand(rv[3], bb, idx, depth)
            return norm_bin(op, a, c)
        if k == 'un':
            return ('un', rv[1], self.operand(rv[2], bb, idx, depth))
        if k == 'cast':
            return self.operand(rv[2], bb, idx, depth)
        if k == 'discr':
            return ('discr', self.place(rv[1], bb, idx, depth))
        if k == 'agg':
            kd = rv[1]
            args = tuple(self.operand(o, bb, idx, depth) for o in rv[2])
            if kd[0] == 'adt':
                return ('agg', 'adt', short(kd[1]) + '::' + kd[2], args, tuple(kd[3]))
            if kd[0] in ('closure', 'coroutine'):
                return ('agg', kd[0], canon(kd[1]), args)
            return ('agg', kd[0], '', args)
        if k == 'rep':
            return ('agg', 'repeat', 'repeat[%s]' % str(rv[2]).replace('_usize', ''), (self.operand(rv[1], bb, idx, depth),))
        return ('const', 'other', str(rv[1])[:80], '')

    def call_desc(self, c, depth):
        idx = len(self.b.blocks[c.bb]['s'])
        args = tuple(self.operand(a, c.bb, idx, depth) for a in c.args)
        sh = short(c.f) if c.f else '?'
        if self.transparent and args and _is_transparent(sh, c.f):
            return args[0]
        # comparison operators on non-primitive types are trait calls: normalise to 'bin'
        if len(args) == 2:
            m = sh.rsplit('::', 1)[-1]
            if m in CMP_METHODS and ('PartialOrd' in sh or 'PartialEq' in sh or 'Ord' in (c.tr or '') or 'PartialEq' in (c.tr or '') or 'PartialOrd' in (c.tr or '')):
                return norm_bin(CMP_METHODS[m], args[0], args[1]) + (c.bb,)
        # method form of the trait for unresolved trait calls
        return ('call', sh, canon(c.f) if c.f else '', args, c.bb)


def _proj_prefix(dp, proj):
    """dp (definition projection) is a prefix of proj, ignoring derefs"""
    a = [e for e in dp if e != '*']
    bq = [e for e in proj if e != '*']
    if len(a) > len(bq):
        return False
    for x, y in zip(a, bq):
        if isinstance(x, list) and isinstance(y, list):
            if x[0] != y[0] or x[1] != y[1]:
                return False
        elif x != y:
            return False
    return True


def _dedup(xs):
    out = []
    for x in xs:
        if x not in out:
            out.append(x)
    return out


CMP_METHODS = {'lt': 'Lt', 'le': 'Le', 'gt': 'Gt', 'ge': 'Ge', 'eq': 'Eq', 'ne': 'Ne'}
COMM = ('Add', 'Mul', 'Eq', 'Ne', 'BitAnd', 'BitOr', 'BitXor')
FLIP = {'Gt': 'Lt', 'Ge': 'Le'}


def norm_bin(op, a, b):
    if op in FLIP:
        op = FLIP[op]
        a, b = b, a
    if op in COMM and repr(a) > repr(b):
        a, b = b, a
    return ('bin', op, a, b)


# --------------------------------------------------------------------------
# descriptor queries
# --------------------------------------------------------------------------

def walk(d):
    """pre-order traversal of a descriptor tree"""
    stack = [d]
    while stack:
        x = stack.pop()
        if not isinstance(x, tuple):
            continue
        yield x
        tag = x[0] if x else None
        if tag in ('field', 'variant', 'index', 'discr', 'overflow'):
            stack.append(x[1])
        elif tag == 'un':
            stack.append(x[2])
        elif tag == 'bin':
            stack.append(x[2])
            stack.append(x[3])
        elif tag == 'call':
            stack.extend(x[3])
        elif tag == 'agg':
            stack.extend(x[3])
        elif tag == 'phi':
            stack.extend(x[1])


def has_field(d, name):
    return any(x[0] == 'field' and x[2] == name for x in walk(d))


def has_call(d, *shorts):
    from .facts import path_matches
    for x in walk(d):
        if x[0] == 'call':
            if any(x[1] == s or path_matches(x[2], s) or _trait_form(x[1]) == s for s in shorts):
                return True
    return False


def _trait_form(sh):
    """`<X as Tr>::m` -> `Tr::m`"""
    if sh.startswith('<') and ' as ' in sh and '>::' in sh:
        return sh.split(' as ', 1)[1].replace('>::', '::', 1)
    return sh


def has_const(d, value=None, named=None):
    for x in walk(d):
        if x[0] == 'const':
            if value is not None and x[1] == 'int' and str(x[2]) == str(value):
                return True
            if named is not None and x[3] and (x[3] == named or x[3].endswith('::' + named)):
                return True
    return False


def has_param(d, name=None, idx=None):
    for x in walk(d):
        if x[0] == 'param' and (name is None or x[2] == name) and (idx is None or x[1] == idx):
            return True
    return False


ARITH = ('Add', 'Sub', 'Mul', 'Div', 'Rem', 'Shl', 'Shr')
_ARITH_CALLS = ('saturating_add', 'saturating_sub', 'wrapping_add', 'wrapping_sub', 'checked_add', 'checked_sub', 'saturating_mul', 'checked_mul')


def const_offsets(d):
    """(op, constant) for every arithmetic node of the descriptor with an integer literal operand —
    `x + 1`, `x.saturating_sub(2)`, `x * 3` — the shape an off-by-N edit of a guard operand takes"""
    out = set()
    for x in walk(d):
        if x[0] == 'bin' and x[1] in ARITH:
            for y in (x[2], x[3]):
                if isinstance(y, tuple) and y and y[0] == 'const' and y[1] == 'int' and not y[3]:
                    out.add((x[1], str(y[2])))
        elif x[0] == 'call' and x[1].rsplit('::', 1)[-1] in _ARITH_CALLS:
            for y in x[3]:
                if isinstance(y, tuple) and y and y[0] == 'const' and y[1] == 'int' and not y[3]:
                    out.add((x[1].rsplit('::', 1)[-1], str(y[2])))
    return out


def has_upvar(d, name):
    return any(x[0] == 'upvar' and x[1] == name for x in walk(d))


def fields_in(d):
    return {x[2] for x in walk(d) if x[0] == 'field'}


def calls_in(d):
    return {x[1] for x in walk(d) if x[0] == 'call'}


def consts_in(d):
    return {(x[2], x[3]) for x in walk(d) if x[0] == 'const' and x[1] == 'int'}


def render(d, depth=0):
    if not isinstance(d, tuple) or not d:
        return str(d)
    if depth > 12:
        return '…'
    t = d[0]
    r = lambda x: render(x, depth + 1)
    if t == 'param':
        return d[2] or 'arg%d' % d[1]
    if t == 'upvar':
        return '^' + d[1]
    if t == 'env':
        return '^env'
    if t == 'field':
        return '%s.%s' % (r(d[1]), d[2])
    if t == 'variant':
        return '(%s as %s)' % (r(d[1]), d[2])
    if t == 'index':
        return '%s[]' % r(d[1])
    if t == 'const':
        if d[1] == 'fn':
            return 'fn:' + d[2]
        return (d[3] + '=' if d[3] else '') + str(d[2])
    if t == 'call':
        return '%s(%s)' % (d[1], ', '.join(r(a) for a in d[3]))
    if t == 'bin':
        return '(%s %s %s)' % (r(d[2]), d[1], r(d[3]))
    if t == 'un':
        return '%s(%s)' % (d[1], r(d[2]))
    if t == 'discr':
        return 'discr(%s)' % r(d[1])
    if t == 'overflow':
        return 'ovf(%s)' % r(d[1])
    if t == 'agg':
        return '%s{%s}' % (d[2] or d[1], ', '.join(r(a) for a in d[3]))
    if t == 'phi':
        return 'phi[%s]' % ' | '.join(r(a) for a in d[1])
    if t == 'local':
        return '_%d%s' % (d[1], '(%s)' % d[2] if d[2] else '')
    return str(d)
