"""rule bodies used by more than one property (each property reports them under its own rule id)"""
from engine.rulelib import *
from engine import desc as D


def incoming_slot_route_paired(ctx, rule, instance):
    """Every function that frees a slot of Endpoint.incoming_buffers must, on every path through it, also delete
    or re-point the `connection_ids_initial` route that names the slot (RouteDatagramTo::Incoming(idx)):
    ConnectionIndex::remove_initial(dst_cid) or ConnectionIndex::insert_initial(dst_cid, ch).  A surviving route
    makes Endpoint::handle index a vacant slab slot (panic) or feed the datagram to whichever connection attempt
    reuses the slot."""
    F = ctx.facts
    n = 0
    for b in F.code_bodies('quinn_proto'):
        if F.root_of(b).id != b.id:
            continue
        sites = [c for c in b.calls_to('Slab::remove') if D.has_field(arg_desc(F, c, 0), 'incoming_buffers')]
        if not sites:
            continue
        fix = {c.bb for c in b.calls_to('ConnectionIndex::remove_initial', 'ConnectionIndex::insert_initial')}
        for c in sites:
            n += 1
            p1 = path_avoiding(b, [0], [c.bb], fix)
            p2 = path_avoiding(b, b.succ[c.bb], b.return_blocks(), fix) if c.bb not in fix else None
            bad = p1 is not None and p2 is not None
            ctx.check(not bad, rule, instance, b, c.where(), 'every path through %s that frees the slot also removes/re-points its initial route' % b.short,
                      'a path frees the incoming-buffer slot but leaves its connection_ids_initial route: %s' % (fmt_path(b, p2) if p2 else ''))
    ctx.floor(rule, instance + '_sites', n, 2)
    # and the slab is only indexed through a route taken from the index
    allowed = ['Endpoint::handle', 'Endpoint::handle_first_packet', 'Endpoint::accept', 'Endpoint::clean_up_incoming', 'Endpoint::new']
    adt, field, inst = 'endpoint::Endpoint', 'incoming_buffers', instance + '_slab_writers'

    def frees_own_slot(w):
        # the body of clean_up_incoming in its caller, stated on what it does instead of on its name: the write is the
        # receiver borrow of `incoming_buffers.remove(X.incoming_idx)` with X a value of type Incoming (the token that owns
        # the slot; the index comes from nowhere else), in a root function, i.e. at one of the freeing sites whose every
        # path was checked above for the removal / re-pointing of the slot's initial route.
        c = w.call
        if w.kind != 'mutborrow' or c is None or not c.is_('Slab::remove') or len(c.args) != 2 or F.root_of(w.body).id != w.body.id:
            return False
        a0 = arg_desc(F, c, 0)
        if not (a0[0] == 'field' and a0[2] == field):
            return False
        alts = flat(arg_desc(F, c, 1))
        for x in alts:
            if not (x[0] == 'field' and x[2] == 'incoming_idx' and x[1][0] in ('param', 'local') and isinstance(x[1][1], int) and x[1][1] < len(w.body.locals)):
                return False
            ty = (w.body.locals[x[1][1]][0] or '').replace('&mut ', '').replace('&', '').strip()
            if not (ty == 'Incoming' or ty.endswith('::Incoming')):
                return False
        return bool(alts)
    # engine.rulelib.who_may_write (same keys), plus the structurally stated form above
    for w in [w for w in field_writes(F, adt, field, crate='quinn_proto') if w.kind in ('mutborrow', 'assign')]:
        if w.kind == 'mutborrow' and w.call is not None and is_noise(w.call):
            continue
        r = F.root_of(w.body)
        if root_matches(ctx, w.body, allowed):
            ctx.ok(rule, inst, r, w.where(), '%s of %s.%s' % (w.kind, adt, field))
        elif frees_own_slot(w):
            ctx.ok(rule, inst, r, w.where(), '%s of %s.%s in %s: frees the slot named by its own Incoming (= clean_up_incoming), route pairing checked per path' % (w.kind, adt, field, r.short))
        else:
            ctx.bad(rule, inst + '/unexpected_writer', r, w.where(), '%s of %s.%s in %s; allowed writers: %s. ' % (w.kind, adt, field, r.short, sorted(allowed)))


def cid_replacement_only_for_retired(ctx, rule, instance):
    """Endpoint::handle_event(RetireConnectionId): a replacement CID is issued (send_new_identifiers) only on the
    edge where loc_cids.remove(&seq) returned Some — a repeated RETIRE_CONNECTION_ID for an already retired
    sequence number must not mint further CIDs (unbounded loc_cids / routing-table growth)."""
    F = ctx.facts
    he = ctx.pfn('Endpoint::handle_event')
    rm = [c for c in he.calls_to('HashMap::remove') if D.has_field(arg_desc(F, c, 0), 'loc_cids')]
    sn = he.calls_to('Endpoint::send_new_identifiers')
    ctx.floor(rule, instance + '_issue_sites', len(sn), 2)
    n = 0
    for c in sn:
        cnt = arg_desc(F, c, 3)
        if not (cnt[0] == 'const' and str(cnt[2]) == '1'):
            continue          # NeedIdentifiers(n): the connection's own initial request
        n += 1
        ok = False
        for br in branches(F, he):
            if br.desc[0] == 'discr' and any(contains_site(br.desc[1], r) for r in rm) and he.dominates(br.bb, c.bb):
                # reachable only through the Some (variant 1) edge
                none_t = br.target(0)
                ok = none_t is not None and c.bb not in he.reachable_from(none_t, avoid=[br.bb])
        ctx.check(ok, rule, instance, he, c.where(), 'send_new_identifiers(now, ch, 1) only under `if let Some(cid) = loc_cids.remove(&seq)`',
                  'a replacement CID is issued even when the retired sequence number was not on record (repeated RETIRE_CONNECTION_ID mints CIDs without bound)')
    ctx.floor(rule, instance + '_replacement_sites', n, 1)


def _bool_fn_false_variants(F, fn):
    """fn is a predicate `fn(&self) -> bool` over an enum that decides by the discriminant of self alone: returns the set
    of variant NAMES for which it returns false (None when the body has any other shape: the caller fails closed).
    The body is EVALUATED once per variant on the CFG — switches on discr(*self) take that variant's edge, bool locals are
    followed through constants, copies and `!` — so `!matches!(..)`, `match self { A | B => false, _ => true }`,
    `if let` chains and early returns all agree."""
    if fn.argc != 1:
        return None
    self_ty = fn.locals[1][0].lstrip('&').replace('mut ', '').strip()
    try:
        adt = F.adt(self_ty)
    except Exception:
        return None
    if adt.get('kind') != 'enum':
        return None

    def val(env, op):
        if op[0] == 'k':
            return {'0': False, 'false': False, '1': True, 'true': True}.get(str(op[2]).lower())
        if op[0] in ('c', 'm') and not op[1][1]:
            return env.get(op[1][0])
        return None

    def run(discr):
        env, bb = {}, 0
        for _ in range(256):
            for st in fn.blocks[bb]['s']:
                if st[0] != '=':
                    continue
                if st[1][1]:
                    continue                      # a store through a projection never defines a whole bool / discriminant local
                rv = st[2]
                if rv[0] == 'discr':
                    v = ('discr',) if rv[1][0] == 1 and rv[1][1] in (['*'], []) else None
                elif rv[0] == 'use':
                    v = val(env, rv[1])
                elif rv[0] == 'un' and rv[1] == 'Not':
                    v = val(env, rv[2])
                    v = (not v) if isinstance(v, bool) else None
                else:
                    v = None
                env[st[1][0]] = v                 # None = unknown: fails closed only if a switch / the return reads it
            t = fn.blocks[bb]['t']
            if t[0] == 'goto':
                bb = t[1]
            elif t[0] == 'ret':
                r = env.get(0)
                return r if isinstance(r, bool) else None
            elif t[0] == 'switch':
                v = val(env, t[1])
                if v is None or not (v == ('discr',) or isinstance(v, bool)):
                    return None
                k = discr if v == ('discr',) else int(v)
                hit = [tgt for x, tgt in t[2] if int(x) == k]
                bb = hit[0] if hit else t[3]
            else:
                return None
        return None
    false_for = set()
    for v in adt['variants']:
        r = run(int(v['discr']))
        if r is None:
            return None
        if r is False:
            false_for.add(v['name'])
    return false_for


UNPROTECTED_KINDS = {'Retry', 'VersionNegotiate'}


def reach_for_packet_kind(ctx, body, header_of, protected, avoid=(), avoid_edges=()):
    """Blocks of `body` reachable for a packet whose header (descriptor test `header_of`) is / is not one of the two kinds
    that carry no packet protection (Retry, Version Negotiation): path partition over Header::is_protected(<header>)
    (used only if the predicate is false for exactly those two variants) and over matches on the header itself."""
    from rules.C04 import reach_assuming
    F = ctx.facts
    hdr = F.adt('packet::Header')
    unprot = {int(v['discr']) for v in hdr['variants'] if v['name'] in UNPROTECTED_KINDS}
    allowed = {int(v['discr']) for v in hdr['variants']} - unprot if protected else unprot
    exact = _bool_fn_false_variants(F, ctx.pfn('Header::is_protected')) == UNPROTECTED_KINDS

    def call_value(x):
        if exact and x[0] == 'call' and x[1] == 'Header::is_protected' and len(x[3]) == 1 and header_of(x[3][0]):
            return protected
        return None

    def discr_values(x):
        return allowed if header_of(x) else None
    return reach_assuming(F, body, call_value, discr_values, avoid=avoid, avoid_edges=avoid_edges)


def every_processed_packet_is_counted(ctx, rule, instance):
    """Connection::handle_packet: every path to process_decrypted_packet passes on_packet_authenticated, except over
    the `state.is_closed()` edge and over the edge taken only by a packet WITHOUT packet protection (Retry / Version
    Negotiation).  The count `total_authed_packets` gates Retry and Version Negotiation (`> 0` = "a packet from the
    server was already accepted"); a protected packet kind that skips the count leaves those gates open for a forged
    second Retry / late VN.  Conversely an unprotected packet has not been authenticated by anything when
    handle_packet hands it on: counting it there (counter, idle timer, keep-alive) lets one spoofed datagram close
    the gates for the genuine Retry and keep an abandoned connection alive.  Hence (ii) every counting site of
    handle_packet lies off the unprotected edge of a dominating header-kind test, and (iii) that test is false for
    exactly the Retry and VersionNegotiate variants.  (The Retry arm counts an ACCEPTED Retry itself, behind the
    integrity-tag check: rule d of C04 / C14.)"""
    F = ctx.facts
    hp = ctx.pfn('Connection::handle_packet')
    pdp = hp.calls_to('Connection::process_decrypted_packet')
    opa = hp.calls_to('Connection::on_packet_authenticated')
    ctx.floor(rule, instance + '_process_sites', len(pdp), 1)
    ctx.floor(rule, instance + '_count_sites', len(opa), 1)

    def guards_count(br, tgt):
        # the test guards the counting call itself: it dominates a counting site that its skipping edge cannot reach
        return any(hp.dominates(br.bb, c.bb) and c.bb not in hp.reachable_from(tgt, avoid=[br.bb]) for c in opa)
    closed_edges = set()
    for br, truth, tgt in bool_edges(ctx, hp, lambda d: d[0] == 'call' and d[1] == 'State::is_closed'):
        # only the is_closed() test that guards the counting call itself
        if truth and guards_count(br, tgt):
            closed_edges.add((br.bb, tgt))
    ctx.floor(rule, instance + '_closed_edges', len(closed_edges), 1)
    # the header tested is the header of the very packet handed to process_decrypted_packet
    processed = [arg_desc(F, c, 4) for c in pdp]
    header_of = lambda d: d[0] == 'field' and d[2] == 'header' and d[1] in processed
    fp = ctx.pfn('Header::is_protected')
    ff = _bool_fn_false_variants(F, fp)
    ctx.check(ff == UNPROTECTED_KINDS, rule, instance + '_unprotected_kinds', fp, fp.where(), 'Header::is_protected is false for exactly Retry and VersionNegotiate',
              'Header::is_protected is not (recognisably) false for exactly the Retry and VersionNegotiate variants (false for %s): a protected packet kind would skip decryption and the packet count' % (sorted(ff) if ff is not None else 'an unrecognised set'))
    reach = reach_for_packet_kind(ctx, hp, header_of, True, avoid=[c.bb for c in opa], avoid_edges=closed_edges)
    for c in pdp:
        ctx.check(c.bb not in reach, rule, instance, hp, c.where(), 'on_packet_authenticated precedes process_decrypted_packet on every path of an open connection for every protected packet',
                  'a protected packet reaches process_decrypted_packet without being counted by on_packet_authenticated (other than on the is_closed() edge)')
    reach_u = reach_for_packet_kind(ctx, hp, header_of, False)
    for c in opa:
        ctx.check(c.bb not in reach_u, rule, instance + '_unprotected_not_counted_before_validation', hp, c.where(), 'the counting site is unreachable for a Retry / Version Negotiation packet',
                  'handle_packet counts a packet as authenticated (total_authed_packets, idle timer, keep-alive) although it may be a Retry or Version Negotiation packet, which nothing has validated yet: '
                  'one spoofed datagram then closes the `total_authed_packets` gates for the genuine Retry / Version Negotiation')
    # an unprotected packet does reach process_decrypted_packet (otherwise the partition above is vacuous)
    ctx.check(any(c.bb in reach_u for c in pdp), rule, instance + '_unprotected_processed', hp, hp.where(), 'Retry / Version Negotiation packets reach process_decrypted_packet uncounted', 'no path hands an unprotected packet to process_decrypted_packet: the packet-kind partition no longer describes handle_packet')


def in_flight_removed_from_either_path(ctx, rule, instance):
    """Connection::remove_in_flight must try the current path and the previous path: a packet sent before a migration is
    counted in the old path's in_flight; if only self.path is visited it is never subtracted (bytes in flight do not
    return to zero, and the restored path stays window-limited after a failed validation)."""
    F = ctx.facts
    rif = ctx.pfn('Connection::remove_in_flight')
    d = describer(F, rif)
    uses_prev = any(D.has_field(d.rvalue(rv, i, j, 0), 'prev_path') for i, j, pl, rv, line in rif.assigns()) or any(D.has_field(arg_desc(F, c, k), 'prev_path') for c in rif.calls() for k in range(len(c.args)))
    uses_cur = any(any(e[1] == 'path' for e in rv[2][1] if isinstance(e, list) and e[0] == 'f') for i, j, pl, rv, line in rif.assigns() if rv[0] == 'ref')
    ctx.check(uses_prev and uses_cur, rule, instance, rif, rif.where(), 'visits self.path then self.prev_path',
              'remove_in_flight no longer visits the previous path: packets sent before a migration are never subtracted from its in-flight counters')


def reset_final_size_guarded(ctx, rule, instance):
    """StreamsState::received_reset computes `final_offset - end` and `final_offset - bytes_read` with plain (checked)
    subtraction, relying on Recv::reset having refused `final_offset < end` (FINAL_SIZE_ERROR).  The guard must exist,
    always reach the error, and must not be conditional on anything but the final size being unknown (in particular
    not on `stopped`): otherwise a hostile RESET_STREAM panics the connection task (debug) or wraps the
    connection-level flow-control counter (release)."""
    F = ctx.facts
    rr = ctx.pfn('StreamsState::received_reset')
    n = 0
    d = describer(F, rr)
    for i, blk in enumerate(rr.blocks):
        t = blk['t']
        if i in rr.live_blocks() and not blk['c'] and t[0] == 'assert' and t[3] == 'overflow:Sub':
            st = [x for x in blk['s'] if x[0] == '=' and x[2][0] == 'bin' and x[2][1].startswith('Sub')]
            if st and D.has_field(d.operand(st[-1][2][2], i, blk['s'].index(st[-1]), 0), 'final_offset'):
                n += 1
    ctx.floor(rule, instance + '_dependent_subtractions', n, 2)
    rs = ctx.pfn('Recv::reset')
    st = [w.bb for w in field_writes(F, 'recv::Recv', 'state', crate='quinn_proto') if F.root_of(w.body).id == rs.id and w.kind == 'assign']

    def rel(o, a, b):
        return o == 'Lt' and D.has_param(a, name='final_offset') and D.has_field(b, 'end')
    guard_error(ctx, rule, instance, rs, rel, code='FINAL_SIZE_ERROR', protect=st, what='end > final_offset')
    for br, truth, tgt in guard_edges(ctx, rs, rel):
        cond = []
        for b2 in branches(F, rs):
            if b2.bb == br.bb or not rs.dominates(b2.bb, br.bb):
                continue
            if any(br.bb not in rs.reachable_from(t, avoid=[b2.bb]) for v, t in b2.edges):
                # a condition that can skip the guard: only `self.final_offset()` being Some (then equality is required) is accepted
                if not (b2.desc[0] == 'discr' and D.has_call(b2.desc, 'Recv::final_offset')):
                    cond.append(D.render(b2.desc)[:60])
        ctx.check(not cond, rule, instance + '_unconditional', rs, br.where(), 'skipped only when the final size is already known (then equality is enforced)',
                  'the lower-bound check on the final size can be skipped under %s' % cond)
    # the equality path of Recv::reset trusts a KNOWN final size to be >= end: every site that records one must enforce that
    ing = ctx.pfn('Recv::ingest')
    size_stores = [w.bb for w in field_writes(F, 'recv::RecvState', 'size', crate='quinn_proto') if F.root_of(w.body).id == ing.id]
    ctx.floor(rule, instance + '_fin_size_stores', len(size_stores), 1)
    guard_error(ctx, rule, instance + '_fin_not_below_received_data', ing,
                lambda o, a, b: o == 'Lt' and a[0] == 'bin' and a[1] == 'Add' and D.has_field(a, 'offset') and b[0] == 'field' and b[2] == 'end',
                code='FINAL_SIZE_ERROR', protect=size_stores, what='fin && end < self.end')


def foreign_address_dropped_before_processing(ctx, rule, instance):
    """Connection::process_payload contains `panic!("packets from unknown remote should be dropped by clients")` (and a
    debug_assert for servers without migration): they are unreachable only because Connection::handle_event drops every
    datagram from an address other than path.remote when the side may not migrate.  The guard must be exactly
    `remote != path.remote && !remote_may_migrate()` -> return, with no further condition that lets a datagram through."""
    F = ctx.facts
    pp = ctx.pfn('Connection::process_payload')
    panics = [c for c in pp.calls() if (c.f or '').endswith('panicking::panic_fmt') or (c.f or '').endswith('panicking::panic')]
    expl = [c for c in panics if any('panic' in m for m in (c.mac or []))]
    ctx.info(rule, '%d explicit panic site(s) in process_payload depend on the drop guard in handle_event' % len(expl))
    he = ctx.pfn('Connection::handle_event')
    # processing site = every call of handle_event from which process_payload (the function that holds the panic) is reachable
    # in the call graph: handle_decode / handle_coalesced, or packet_crypto::unprotect_header -> handle_packet when handle_decode's
    # body sits in handle_event itself.  (Not "the callee named handle_decode": the obligation is about what reaches the panic.)
    prot = sorted(may_sites(F, he, ('Connection::process_payload',), depth=6))
    ctx.floor(rule, instance + '_processing_sites', len(prot), 1)
    mig = [br for br in branches(F, he) if D.has_call(br.desc, 'ConnectionSide::remote_may_migrate')]
    def is_path_remote(d):
        return d[0] == 'field' and d[2] == 'remote' and d[1][0] == 'field' and d[1][2] == 'path' and d[1][1][0] == 'param'

    def is_event_remote(d):
        # the `remote` field of the Datagram event (whole value, no projection / call on it)
        return d[0] == 'field' and d[2] == 'remote' and D.has_param(d, name='event') and not D.calls_in(d)
    ne = guard_edges(ctx, he, lambda o, a, b: o == 'Ne' and ((is_path_remote(a) and is_event_remote(b)) or (is_path_remote(b) and is_event_remote(a))))
    # Obligation, stated on paths: a datagram may enter a processing site only once `remote == path.remote` or
    # `remote_may_migrate()` has been established for it (path.remote changes only by a migration, which needs the latter,
    # so either fact keeps holding).  The establishing edges are the equal edge of a test of the event's remote against
    # path.remote and the true edge of a remote_may_migrate() test; with those edges cut, no processing site may be reachable
    # from the entry.  Consequences: the mismatch edge reaches processing only through the migration test, the
    # `!remote_may_migrate()` edge does not reach it, and no further condition lets a datagram round the guard.  A later
    # address comparison (e.g. the one that decides which path is credited with the received bytes) is reached only by
    # datagrams that already passed, and constrains nothing.
    cut = set()
    for br, truth, tgt in ne:
        eq_t = br.target(0 if truth else 1)
        if eq_t is not None and eq_t != tgt:
            cut.add((br.bb, eq_t))
    for br in mig:
        inner, neg = peel_not(br.desc)
        t_no = br.target(1 if neg else 0)        # remote_may_migrate() == false
        t_yes = br.target(0 if neg else 1)
        if inner[0] == 'call' and inner[1] == 'ConnectionSide::remote_may_migrate' and t_yes is not None and t_yes != t_no:
            cut.add((br.bb, t_yes))
    reach = he.reachable_from(0, avoid_edges=cut)
    leak = [p for p in prot if p in reach]
    ok = bool(mig) and bool(ne) and bool(prot) and not leak
    ctx.check(ok, rule, instance, he, he.where(), 'remote != path.remote && !remote_may_migrate() -> return before handle_decode, no other way through',
              'a datagram from a foreign address can reach packet processing although migration is not permitted: the client-side panic! in process_payload becomes reachable from the network')


def no_fatal_error_before_authentication(ctx, rule, instance):
    """packet_crypto::decrypt_packet_body: a connection-closing transport error (Err(Some(TransportError))) may only be
    produced for a packet whose AEAD tag verified.  Everything before / without a successful PacketKey::decrypt must be
    a silent discard (Err(None)): header bits (reserved bits, key phase) are only covered by header protection, so a
    forged or corrupted datagram could otherwise close the connection."""
    F = ctx.facts
    b = ctx.pfn('packet_crypto::decrypt_packet_body')
    dec = b.calls_to('PacketKey::decrypt')
    ctx.floor(rule, instance + '_decrypt_sites', len(dec), 1)
    errs = [c for c in b.calls() if (c.f or '').find('transport_error::Error::') >= 0]
    ctx.floor(rule, instance + '_fatal_error_sites', len(errs), 2)
    # the success edge of `decrypt(..)?`: blocks reachable after the call through the Continue arm of its Try::branch
    for c in errs:
        before = b.reachable_from(0, avoid=[d_.bb for d_ in dec])
        ok = c.bb not in before
        # and not on the failure side of the decryption result
        for d_ in dec:
            for br in branches(F, b):
                if br.desc[0] == 'discr' and contains_site(br.desc[1], d_):
                    # variant 1 of the Result / ControlFlow::Break carries the error
                    fail_t = br.target(1)
                    if fail_t is not None and c.bb in b.reachable_from(fail_t, avoid=[br.bb]) and c.bb not in b.reachable_from(br.target(0), avoid=[br.bb]):
                        ok = False
        ctx.check(ok, rule, instance, b, c.where(), '%s only after the AEAD tag verified' % short(c.f),
                  'a fatal %s can be raised for a packet that has not been authenticated (before or without a successful PacketKey::decrypt)' % short(c.f))


def remote_stream_opened_only_within_limit(ctx, rule, instance):
    """StreamsState::on_stream_frame raises next_remote (the application then sees `Opened` and accept() hands out the
    ids) for a peer-initiated stream.  Every call of it must therefore be made for an id that is known to lie below the
    advertised stream limit: the call is dominated by the Ok edge of validate_receive_id(id), or by a guard
    `id.index() >= max_remote[dir]` whose violating edge returns STREAM_LIMIT_ERROR, or by the Some edge of a lookup of
    that stream's state (entries exist only for streams within the limit).  Otherwise one frame naming a huge stream id
    (MAX_STREAM_DATA did, on the pinned tree) opens every stream up to it."""
    F = ctx.facts
    osf = ctx.pfn('StreamsState::on_stream_frame')
    n = 0
    for c in F.callers_of('StreamsState::on_stream_frame', crate='quinn_proto'):
        b = c.body
        n += 1
        ok = False
        why = ''
        # (a) validated id
        for v in b.calls_to('StreamsState::validate_receive_id'):
            for br in branches(F, b):
                if br.desc[0] == 'discr' and contains_site(br.desc[1], v) and b.dominates(br.bb, c.bb) and c.bb not in b.reachable_from(br.target(1), avoid=[br.bb]):
                    ok = True
                    why = 'validate_receive_id(id)?'
        # (b) explicit limit guard: for a peer-initiated id (the `initiator != side` edges) every path to the call passes the
        #     pass edge of `index >= max_remote -> STREAM_LIMIT_ERROR`
        if not ok:
            ges = guard_edges(ctx, b, lambda o, x, y: o == 'Le' and D.has_field(x, 'max_remote') and D.has_call(y, 'StreamId::index'))
            if ges:
                cut = set()
                for br in branches(F, b):
                    for truth in (True, False):
                        rel = relation_on(br.desc, truth)
                        # edge on which the stream is LOCALLY initiated: on_stream_frame cannot raise next_remote there
                        if rel and rel[0] == 'Eq' and (D.has_call(rel[1], 'StreamId::initiator') or D.has_call(rel[2], 'StreamId::initiator')) and (D.has_field(rel[1], 'side') or D.has_field(rel[2], 'side')):
                            cut.add((br.bb, br.target(1 if truth else 0)))
                avoid = [br.bb for br, truth, tgt in ges]
                reach = b.reachable_from(0, avoid=avoid, avoid_edges=cut)
                viol_ok = all(c.bb not in b.reachable_from(tgt, avoid=[br.bb]) for br, truth, tgt in ges)
                if c.bb not in reach and viol_ok:
                    ok = True
                    why = 'index >= max_remote guard on every path of a peer-initiated id'
        # (c) the stream's state entry was found
        if not ok:
            for lk in b.calls():
                if short(lk.f or '').split('::')[-1] in ('get_mut', 'get', 'entry') and (D.has_field(arg_desc(F, lk, 0), 'send') or D.has_field(arg_desc(F, lk, 0), 'recv')):
                    for br in branches(F, b):
                        if br.desc[0] == 'discr' and contains_site(br.desc[1], lk) and b.dominates(br.bb, c.bb) and br.target(0) is not None and c.bb not in b.reachable_from(br.target(0), avoid=[br.bb]):
                            ok = True
                            why = 'state entry found'
        # local streams never raise next_remote
        ctx.check(ok, rule, instance, F.root_of(b), c.where(), why,
                  'on_stream_frame is reached for a stream id that was neither validated against the stream limit nor found in the stream table: a frame naming a peer-initiated stream beyond max_remote opens phantom streams')
    ctx.floor(rule, instance + '_sites', n, 4)
