"""C11 — stream operations follow the QUIC stream state machine (structural part)."""
from engine.rulelib import *
from engine import desc as D

EXPLANATION = ("Static rules over quinn-proto/quinn MIR: (a) state guards of Send::write/finish, SendStream::reset and the missing-entry -> ClosedStream "
               "mapping of every send operation; (b) who-may-construct each StreamEvent and the edge it is constructed on (Finished only after Send::ack "
               "returned true and the entry was removed; Stopped only on the first try_stop; Opened via the opened[] flag; Available only on a raised limit); "
               "(c) reader terminal outcomes: Chunks::new refuses vacant/stopped entries, both terminal arms of Chunks::next free the receive half, stop twice "
               "-> ClosedStream, received_reset checks `stopped` before the reset code; (d) concurrency accounting: stream_freed callers, the slot is released "
               "only when the other half's map entry is absent, send_streams only for the Send half; (e) async error mapping and the 0-RTT check preceding "
               "every proto stream call. The full (state x operation) table over interleavings is NOT decided.")
RULE = "rule instances = (rule, site) pairs over MIR branches / constructions / call sites; non-trivial = bound to at least one real site"
SS = 'StreamsState'


# --------------------------------------------------------------------------
# local helpers: edge-exact tests (which edge of a branch carries which variant / Some / None, what is
# returned over an edge).  All decide on descriptors and CFG edges, never on local names or lines.
# --------------------------------------------------------------------------

def _is_const(d, v):
    return isinstance(d, tuple) and d[0] == 'const' and d[1] == 'int' and str(d[2]) == str(v) and not d[3]


def _field_named(name):
    return lambda x: isinstance(x, tuple) and x[0] == 'field' and x[2] == name


def _variant_lit(d, adt_pat):
    """variant name when d is a field-less variant literal of the ADT, else None"""
    if isinstance(d, tuple) and d[0] == 'agg' and d[1] == 'adt' and not d[3]:
        pre, _, v = d[2].rpartition('::')
        if pre == adt_pat or pre.endswith('::' + adt_pat) or adt_pat.endswith('::' + pre):
            return v
    return None


def _agg_is(d, var):
    """d constructs (adt, variant)"""
    if not (isinstance(d, tuple) and d[0] == 'agg' and d[1] == 'adt'):
        return False
    pre, _, v = d[2].rpartition('::')
    return v == var[1] and (pre == var[0] or pre.endswith('::' + var[0]))


def variant_test(F, br, adt_pat, scrut):
    """{variant name: target block} when branch `br` decides on the variant of a value x with scrut(x): a
    discriminant switch on x, or x ==/!= a field-less variant literal (either operand order, negations peeled).
    None when br is not such a test."""
    adt = F.adt(adt_pat)
    names = {v['name']: int(v['discr']) for v in adt['variants']}
    d = br.desc
    if d[0] == 'discr':
        return {n: br.target(k) for n, k in names.items()} if scrut(d[1]) else None
    rel = relation_on(d, True)
    if rel is None or rel[0] not in ('Eq', 'Ne'):
        return None
    for lit, other in ((rel[1], rel[2]), (rel[2], rel[1])):
        v = _variant_lit(lit, adt_pat)
        if v in names and scrut(other):
            eq_t, ne_t = (br.target(1), br.target(0)) if rel[0] == 'Eq' else (br.target(0), br.target(1))
            return {n: (eq_t if n == v else ne_t) for n in names}
    return None


def option_tests(F, body, scrut):
    """(Branch, some_target, none_target) for every branch deciding whether an Option x with scrut(x) is Some:
    discriminant switch (`if let` / `match`), `x.is_some()` / `x.is_none()` (negations peeled)"""
    out = []
    for br in branches(F, body):
        d = br.desc
        if d[0] == 'discr':
            if scrut(d[1]):
                out.append((br, br.target(1), br.target(0)))
            continue
        inner, neg = peel_not(d)
        if inner[0] == 'call' and inner[1] in ('Option::is_some', 'Option::is_none') and len(inner[3]) == 1 and scrut(inner[3][0]):
            t, f = br.target(0 if neg else 1), br.target(1 if neg else 0)
            out.append((br, t, f) if inner[1] == 'Option::is_some' else (br, f, t))
    return out


_PATH_CAP = 2000


def _ret_paths(body, start):
    """simple block paths start -> normal return (None when there are too many to enumerate)"""
    rets = set(body.return_blocks())
    out = []
    path = []
    on = set()

    def rec(bb):
        if len(out) > _PATH_CAP:
            return
        path.append(bb)
        on.add(bb)
        if bb in rets:
            out.append(list(path))
        else:
            for s in body.succ[bb]:
                if s not in on:
                    rec(s)
        on.discard(bb)
        path.pop()
    rec(start)
    return None if len(out) > _PATH_CAP else out


def returns_via(F, body, start):
    """flattened descriptors of the value returned on every simple path start -> return: the last whole store of
    the return place ON THAT PATH (followed back through whole-local copies); a value defined before `start` is
    described flow-insensitively at `start`.  None when no path reaches a return (or too many paths)."""
    ps = _ret_paths(body, start)
    if not ps:
        return None
    d = describer(F, body)
    calls = {c.bb: c for c in body.calls()}
    out = []
    for p in ps:
        local, i, upto, val = 0, len(p) - 1, None, None
        for _ in range(64):
            found = None
            for k in range(i, -1, -1):
                bb = p[k]
                first = (k == i and upto is not None)
                if not first and k < len(p) - 1:
                    c = calls.get(bb)
                    if c is not None and c.dst[0] == local and not c.dst[1]:
                        found = ('call', c)
                        break
                stmts = body.blocks[bb]['s']
                hi = upto if first else len(stmts)
                for j in range(hi - 1, -1, -1):
                    s = stmts[j]
                    if s[0] == '=' and s[1][0] == local and not s[1][1]:
                        found = ('stmt', k, j, s[2])
                        break
                if found:
                    break
            if found is None:
                val = d.place([local, []], p[0], 0)
                break
            if found[0] == 'call':
                val = d.call_desc(found[1], 0)
                break
            _, k, j, rv = found
            if rv[0] == 'use' and rv[1][0] in ('c', 'm') and not rv[1][1][1]:
                local, i, upto = rv[1][1][0], k, j
                continue
            val = d.rvalue(rv, p[k], j, 0)
            break
        if val is None:
            return None
        for x in flat(val):
            if x not in out:
                out.append(x)
    return out


def variant_predicate(F, fn, adt_pat, scrut):
    """the set of variants for which the bool function `fn` answers true, when fn is EXACTLY a test of the variant
    of a value x with scrut(x) (`matches!`, `match`, `x == Lit`); None when fn has any other shape."""
    names = [v['name'] for v in F.adt(adt_pat)['variants']]
    brs = branches(F, fn)
    rds = [x for _, x in ret_descs(F, fn)]
    if not brs:
        if len(rds) != 1:
            return None
        rel = relation_on(rds[0], True)
        if rel is None or rel[0] not in ('Eq', 'Ne'):
            return None
        for lit, other in ((rel[1], rel[2]), (rel[2], rel[1])):
            v = _variant_lit(lit, adt_pat)
            if v in names and scrut(other):
                return {v} if rel[0] == 'Eq' else set(names) - {v}
        return None
    for br in brs:
        vt = variant_test(F, br, adt_pat, scrut)
        if not vt or not all(fn.dominates(br.bb, r) for r in fn.return_blocks()):
            continue
        res, bad = set(), False
        for v, t in vt.items():
            vals = returns_via(F, fn, t)
            if vals and all(_is_const(x, 1) for x in vals):
                res.add(v)
            elif not (vals and all(_is_const(x, 0) for x in vals)):
                bad = True
        if not bad:
            return res
    return None


def _lookup_opt(d, sites):
    """the lookup call site whose Option result d is (possibly `.map(..)`-ed: map keeps None-ness), else None"""
    while isinstance(d, tuple) and d[0] == 'call' and d[1] == 'Option::map' and d[3]:
        d = d[3][0]
    for c in sites:
        if isinstance(d, tuple) and d[0] == 'call' and len(d) > 4 and d[4] == c.bb and c.is_(d[1]):
            return c
    return None


def _missing_edges(F, b, lookups):
    """CFG edges (from, to) taken exactly when a map lookup of `lookups` found no entry: the None edge of a discriminant
    test of the lookup result, the Break edge of `lookup.ok_or(..)?`"""
    out = set()
    for br in branches(F, b):
        if br.desc[0] != 'discr':
            continue
        x = br.desc[1]
        if _lookup_opt(x, lookups) is not None:
            if br.target(0) != br.target(1):
                out.add((br.bb, br.target(0)))
        elif isinstance(x, tuple) and x[0] == 'call' and x[1] in ('Option::ok_or', 'Option::ok_or_else') and len(x[3]) == 2 \
                and _lookup_opt(x[3][0], lookups) is not None:
            if br.target(0) != br.target(1):
                out.add((br.bb, br.target(1)))
    return out


def missing_entry_refused(ctx, b, lookups, var):
    """every map lookup of `b` has its None outcome tied to the error `var`:
      * `lookup[.map(f)].ok_or(var)?` (or ok_or_else(|| var)): over the Break edge of the `?` only the residual of
        that very ok_or value is returned;
      * a discriminant test of the lookup result (`match` / `let .. else` / `if let`): every path from the None edge
        constructs `var` before returning.
    returns the list of lookup sites NOT tied that way."""
    F = ctx.facts
    eff = effect_blocks(ctx, b, variant=var)
    rets = b.return_blocks()
    good, bad = set(), set()
    for br in branches(F, b):
        if br.desc[0] != 'discr':
            continue
        x = br.desc[1]
        c = _lookup_opt(x, lookups)
        if c is not None:
            if eff and path_avoiding(b, [br.target(0)], rets, eff) is None:
                good.add(c.bb)
            else:
                bad.add(c.bb)
            continue
        if isinstance(x, tuple) and x[0] == 'call' and x[1] in ('Option::ok_or', 'Option::ok_or_else') and len(x[3]) == 2:
            c = _lookup_opt(x[3][0], lookups)
            if c is None:
                continue
            e = x[3][1]
            if x[1] == 'Option::ok_or':
                e_ok = _agg_is(e, var)
            else:
                cbs = [cb for cb in F.bodies.values() if cb.kind == 'closure' and isinstance(e, tuple) and e[0] == 'agg' and e[1] == 'closure' and cb.canon == e[2]]
                e_ok = len(cbs) == 1 and all(_agg_is(v, var) for _, v in ret_descs(F, cbs[0])) and bool(ret_descs(F, cbs[0]))
            vals = returns_via(F, b, br.target(1))
            r_ok = bool(vals) and all(v[0] == 'call' and v[1].endswith('::from_residual') and any(y == x for y in D.walk(v)) for v in vals)
            if e_ok and r_ok:
                good.add(c.bb)
            else:
                bad.add(c.bb)
    return [c for c in lookups if c.bb in bad or c.bb not in good]


# StreamsState::stream_recv_freed(id, recv) is `free_recv.push(recv.free(window)); stream_freed(id, StreamHalf::Recv)`.  The
# first statement recycles an allocation (no observable state of the stream); the effect this property needs is the second
# one: the Recv half of `id` is reported as gone to the concurrency accounting.  So "the receive half is freed" is stated
# structurally as: a call of stream_recv_freed, OR a call of stream_freed whose `half` argument is the literal StreamHalf::Recv.
RECV_FREERS = ['StreamsState::received', 'StreamsState::received_reset', 'RecvStream::stop', 'RecvStream::received_reset', 'Chunks::next']


def _half_lit(F, c):
    """'Send' / 'Recv' when the `half` argument of a stream_freed call site is the literal variant, else None"""
    return _variant_lit(arg_desc(F, c, 2), 'StreamHalf')


def recv_half_freed_sites(F, body):
    """call sites of `body` freeing the receive half: stream_recv_freed(..) or (inlined) stream_freed(_, StreamHalf::Recv)"""
    return list(body.calls_to('StreamsState::stream_recv_freed')) + \
        [c for c in body.calls_to('StreamsState::stream_freed') if _half_lit(F, c) == 'Recv']


def rule_a(ctx):
    F = ctx.facts
    STATE = 'send::SendState'
    is_state = _field_named('state')
    is_stop = _field_named('stop_reason')
    w = ctx.pfn('Send::write')
    wrets = w.return_blocks()
    pops = [c.bb for c in w.calls_to('BytesSource::pop_chunk')]
    ctx.floor('a', 'write_data_take_sites', len(pops), 1)
    # !is_writable -> ClosedStream
    es = bool_edges(ctx, w, lambda d: D.has_call(d, 'Send::is_writable') and d[0] == 'call')
    ok = False
    for br, truth, tgt in es:
        if truth is False:
            eff = effect_blocks(ctx, w, variant=('WriteError', 'ClosedStream'))
            ok = path_avoiding(w, [tgt], set(w.return_blocks()) | set(pops), eff) is None
    ctx.check(ok, 'a', 'write_on_non_ready_is_closed', w, w.where(), '!is_writable() -> ClosedStream before any pop', 'Send::write no longer refuses non-Ready streams with ClosedStream')
    iw = ctx.pfn('Send::is_writable')
    # is_writable() == (self.state is Ready), exactly: the set of variants answering true is {Ready}
    vp = variant_predicate(F, iw, STATE, is_state)
    ctx.check(vp == {'Ready'}, 'a', 'is_writable_tests_state', iw, iw.where(), 'matches!(self.state, Ready): true exactly for {Ready}',
              'is_writable is not exactly the test `self.state is Ready` (answers true for %s)' % (sorted(vp) if vp is not None else 'a condition that is not a variant test of self.state'))
    # stop_reason = Some(c) -> Stopped(c), decided before any data is taken
    cons = [c for c in constructions(F, 'WriteError', 'Stopped', crate='quinn_proto') if F.root_of(c.body).id == w.id]
    d = describer(F, w)
    ok = bool(cons) and all(D.has_field(d.operand(c.ops[0], c.bb, c.idx), 'stop_reason') for c in cons) and all(all(w.dominates(c.bb, p) is False for p in pops) for c in cons)
    tests = option_tests(F, w, is_stop)
    cb = {c.bb for c in cons}
    # a test of stop_reason dominates every pop_chunk; over its Some edge no pop is reachable and every path builds Stopped(code)
    ok = ok and bool(pops) and all(any(w.dominates(br.bb, p) and p not in w.reachable_from(some) and path_avoiding(w, [some], wrets, cb) is None
                                       for br, some, none in tests) for p in pops)
    ctx.check(ok, 'a', 'write_on_stopped_reports_code', w, w.where(), 'stop_reason Some(c) -> Err(Stopped(c)), no data taken', 'Send::write no longer reports Stopped(code) before taking data')
    # the STATE decides the outcome before anything else does (flow control, data): every path entry -> return passes
    #   * a stop_reason test whose Some edge always builds Stopped, and
    #   * an is_writable test whose false edge always builds ClosedStream,
    # unless the path already builds one of the two state outcomes (a refusal by the other state test).  A path that
    # returns anything else (Blocked, Ok) without having asked both questions makes the result depend on the
    # window/data instead of the state of the half.
    closed_eff = effect_blocks(ctx, w, variant=('WriteError', 'ClosedStream'))
    state_out = set(closed_eff) | cb
    stop_tests = {br.bb for br, some, none in tests if some != none and cb and path_avoiding(w, [some], wrets, cb) is None}
    wr_tests = {br.bb for br, truth, tgt in es if truth is False and closed_eff and br.target(0) != br.target(1)
                and path_avoiding(w, [tgt], wrets, closed_eff) is None}
    for nm, tb, what in (('stop_reason', stop_tests, 'Stopped(code)'), ('is_writable', wr_tests, 'ClosedStream')):
        p = path_avoiding(w, [0], wrets, tb | state_out) if tb else [0]
        ctx.check(p is None, 'a', 'write_outcome_decided_by_state_first', w, w.where(),
                  'every path to a return passes the %s test (refusing with %s) or already refuses by state' % (nm, what),
                  'Send::write can return an outcome that is not determined by the state of the half: a path reaches a return without the %s test '
                  '(e.g. Blocked/Ok for a half that must report %s): %s' % (nm, what, fmt_path(w, p) if tb else 'no such test found'))
    # SendStream::write_source answers Blocked itself when the connection-level window is exhausted, without entering Send::write.
    # That answer too must come after the state has had its say: every Blocked built there (other than the one for a closed
    # CONNECTION, which is decided before any stream is looked up) is dominated by an is_writable test of the looked-up half whose
    # false edge always refuses with ClosedStream and by a stop_reason test whose Some edge always refuses with Stopped(code),
    # and is unreachable over those edges.
    ws = ctx.pfn('SendStream::write_source')
    wsrets = ws.return_blocks()
    dws = describer(F, ws)
    conn_closed = [(br.bb, tgt) for br, truth, tgt in bool_edges(ctx, ws, lambda x: x[0] == 'call' and x[1] == 'State::is_closed' and D.has_field(x, 'conn_state')) if truth]
    blocked = [c for c in constructions(F, 'send::WriteError', 'Blocked', crate='quinn_proto') if c.body.id == ws.id
               and not any(edge_dominates(ws, a, t, c.bb) for a, t in conn_closed)]
    ctx.floor('a', 'write_source_flow_control_blocked_sites', len(blocked), 1)
    ws_closed = effect_blocks(ctx, ws, variant=('WriteError', 'ClosedStream'))
    ws_stopped = {c.bb for c in constructions(F, 'send::WriteError', 'Stopped', crate='quinn_proto') if c.body.id == ws.id
                  and D.has_field(dws.operand(c.ops[0], c.bb, c.idx), 'stop_reason')}
    of_half = lambda x: D.has_field(x, 'send')
    wr_refusals = [(br, tgt) for br, truth, tgt in bool_edges(ctx, ws, lambda x: x[0] == 'call' and x[1] == 'Send::is_writable' and of_half(x))
                   if truth is False and br.target(0) != br.target(1) and ws_closed and path_avoiding(ws, [tgt], wsrets, ws_closed) is None]
    st_refusals = [(br, some) for br, some, none in option_tests(F, ws, lambda x: is_stop(x) and of_half(x))
                   if some != none and ws_stopped and path_avoiding(ws, [some], wsrets, ws_stopped) is None]
    for c in blocked:
        for nm, refusals, what in (('is_writable', wr_refusals, 'ClosedStream'), ('stop_reason', st_refusals, 'Stopped(code)')):
            ok = any(ws.dominates(br.bb, c.bb) and c.bb not in ws.reachable_from(tgt) for br, tgt in refusals)
            ctx.check(ok, 'a', 'write_source_state_before_blocked', ws, c.where(),
                      'Blocked only behind the %s test of the half (refusing with %s)' % (nm, what),
                      'SendStream::write_source can answer Blocked (connection-level flow control) for a half that must report %s: no dominating '
                      '%s test refuses first' % (what, nm))
    fin = ctx.pfn('Send::finish')
    frets = fin.return_blocks()
    cons = [c for c in constructions(F, 'FinishError', 'Stopped', crate='quinn_proto') if F.root_of(c.body).id == fin.id]
    st = [wr for wr in field_writes(F, 'send::Send', 'state', crate='quinn_proto') if F.root_of(wr.body).id == fin.id and wr.kind == 'assign']
    fp = [wr for wr in field_writes(F, 'send::Send', 'fin_pending', crate='quinn_proto') if F.root_of(wr.body).id == fin.id]
    tests = option_tests(F, fin, is_stop)
    cb = {c.bb for c in cons}
    # the stop_reason test dominates every store of state / fin_pending, which is unreachable over the Some edge; that edge always builds Stopped
    ok = bool(cons) and bool(st) and all(any(fin.dominates(br.bb, s.bb) and s.bb not in fin.reachable_from(some) and path_avoiding(fin, [some], frets, cb) is None
                                             for br, some, none in tests) for s in st + fp)
    ctx.check(ok, 'a', 'finish_on_stopped_reports_code', fin, fin.where(), 'stop_reason -> Err(Stopped), state untouched', 'Send::finish no longer refuses stopped streams before changing state')
    # state == Ready guard for the transition; else ClosedStream: every store lies behind the Ready edge of a variant test of
    # self.state; over the edge of every other variant no store is reachable and an error is always built (ClosedStream, or Stopped
    # when the stop test comes second)
    closed = effect_blocks(ctx, fin, variant=('FinishError', 'ClosedStream'))
    okf = False
    for b in branches(F, fin):
        vt = variant_test(F, b, STATE, is_state)
        if not vt:
            continue
        behind = all(edge_dominates(fin, b.bb, vt['Ready'], s.bb) for s in st + fp)
        others = all(not any(s.bb in fin.reachable_from(t) for s in st + fp) and bool(closed & fin.reachable_from(t)) and path_avoiding(fin, [t], frets, closed | cb) is None
                     for v, t in vt.items() if v != 'Ready')
        if behind and others and vt['Ready'] not in [t for v, t in vt.items() if v != 'Ready']:
            okf = True
    ctx.check(okf and bool(st), 'a', 'finish_only_from_ready', fin, fin.where(), 'state == Ready -> DataSent; else ClosedStream', 'Send::finish accepts states other than Ready')
    # the value stored is exactly DataSent { finish_acked: false }
    sv = store_values(ctx, 'send::Send', 'state', in_fn=fin)
    ok = bool(sv) and all(_agg_is(v, ('SendState', 'DataSent')) and len(v) > 4 and 'finish_acked' in v[4] and _is_const(v[3][v[4].index('finish_acked')], 0) for _, v in sv)
    ctx.check(ok, 'a', 'finish_moves_to_data_sent', fin, fin.where(), 'state = DataSent{finish_acked:false}',
              'finish does not store exactly DataSent{finish_acked: false} into state: %s' % ([D.render(v)[:80] for _, v in sv] or 'no store'))
    # ... and the FIN is queued: fin_pending = true, on every path after the transition
    fv = store_values(ctx, 'send::Send', 'fin_pending', in_fn=fin)
    fb = {x.bb for x, _ in fv}
    ok = bool(fv) and all(_is_const(v, 1) for _, v in fv) and bool(st)
    for s in st:
        # same block, or before the transition on every path to it, or after it on every path to a return
        before = any(x.bb == s.bb or fin.dominates(x.bb, s.bb) for x, _ in fv)
        ok = ok and (before or path_avoiding(fin, fin.succ[s.bb], frets, fb) is None)
    ctx.check(ok, 'a', 'finish_queues_fin', fin, fin.where(), 'fin_pending = true together with the transition',
              'finish does not set fin_pending = true whenever it moves to DataSent: %s' % ([D.render(v)[:40] for _, v in fv] or 'no store'))
    # SendStream::reset: ResetSent -> ClosedStream, decided before Send::reset
    rs = ctx.pfn('SendStream::reset')
    rrets = rs.return_blocks()
    # the reset itself: the call of Send::reset, or its effect stated structurally when the helper's body sits in the
    # caller: a store of the literal SendState::ResetSent into the `state` field of the half.  (Send::reset is
    # `if state is DataSent|Ready { state = ResetSent }`; a guard around the inlined store is judged by the two checks
    # below exactly like a guard around the call: its skip edge must be the ResetSent edge of a test of the state.)
    sr = [c.bb for c in rs.calls_to('Send::reset')]
    sr += [x.bb for x, v in store_values(ctx, 'send::Send', 'state', in_fn=rs)
           if x.body.id == rs.id and _variant_lit(v, STATE) == 'ResetSent' and x.bb not in sr]
    closed = effect_blocks(ctx, rs, variant=('ClosedStream', 'ClosedStream'))
    refused = []        # (branch, target taken when the state is ResetSent)
    for b in branches(F, rs):
        vt = variant_test(F, b, STATE, is_state)
        if vt and vt['ResetSent'] not in [t for v, t in vt.items() if v != 'ResetSent']:
            refused.append((b, vt['ResetSent']))
    irs = ctx.pfn('Send::is_reset')
    if variant_predicate(F, irs, STATE, is_state) == {'ResetSent'}:
        refused += [(b, t) for b, truth, t in bool_edges(ctx, rs, lambda x: x[0] == 'call' and x[1] == 'Send::is_reset') if truth]
    ok = bool(sr) and bool(closed) and all(any(rs.dominates(b.bb, s) and s not in rs.reachable_from(t) and path_avoiding(rs, [t], rrets, closed) is None for b, t in refused) for s in sr)
    ctx.check(ok, 'a', 'reset_twice_is_closed', rs, rs.where(), 'ResetSent -> Err(ClosedStream) before Send::reset', 'a redundant reset (state ResetSent) is no longer refused with ClosedStream before Send::reset')
    # ... and ONLY then: reset of a half that exists succeeds in every other state (Ready, DataSent whatever was acknowledged).
    # Every path entry -> return that does not perform Send::reset leaves over the ResetSent edge of such a state test or over
    # the missing-entry edge of the map lookup; any other way out refuses (or skips) the reset on something that is not the state.
    lookups = [c for c in rs.calls_to('HashMap::get_mut', 'HashMap::get') if D.has_field(arg_desc(F, c, 0), 'send')]
    out_edges = {(b.bb, t) for b, t in refused} | _missing_edges(F, rs, lookups)
    reach = rs.reachable_from(0, avoid=sr, avoid_edges=out_edges)
    esc = [r for r in rrets if r in reach]
    ctx.check(bool(sr) and bool(refused) and not esc, 'a', 'reset_refused_only_in_reset_sent', rs, rs.where(),
              'a return without Send::reset only over the ResetSent edge / the missing-entry edge (%d edge(s))' % len(out_edges),
              'SendStream::reset can return without resetting a stream whose state is not ResetSent (a refusal that depends on something other than '
              'the state of the half, e.g. which frames were acknowledged)')
    # SendStream::stopped: a half that was reset locally and that the peer had not stopped is closed (ClosedStream), not
    # "not stopped" (Ok(None)).  Every site that answers Ok(<the half's stop_reason>) is reached only with the conjunction
    # (state is ResetSent) AND (stop_reason is None) excluded: one of the two tests dominates it, the other one is asked on every
    # path from the first's positive edge to the site, and over the second's positive edge the site is unreachable and
    # ClosedStream is always built.
    sp = ctx.pfn('SendStream::stopped')
    sprets = sp.return_blocks()
    dsp = describer(F, sp)
    sp_closed = effect_blocks(ctx, sp, variant=('ClosedStream', 'ClosedStream'))
    answers = [c for c in constructions(F, 'Result', 'Ok', crate='quinn_proto') if c.body.id == sp.id and c.ops
               and D.has_field(dsp.operand(c.ops[0], c.bb, c.idx), 'stop_reason')]
    ctx.floor('a', 'stopped_answer_sites', len(answers), 1)
    reset_pos = []       # (branch block, target taken when the state is ResetSent)
    for b in branches(F, sp):
        vt = variant_test(F, b, STATE, is_state)
        if vt and vt['ResetSent'] not in [t for v, t in vt.items() if v != 'ResetSent']:
            reset_pos.append((b.bb, vt['ResetSent']))
    if variant_predicate(F, irs, STATE, is_state) == {'ResetSent'}:
        reset_pos += [(b.bb, t) for b, truth, t in bool_edges(ctx, sp, lambda x: x[0] == 'call' and x[1] == 'Send::is_reset') if truth and b.target(0) != b.target(1)]
    none_pos = [(b.bb, none) for b, some, none in option_tests(F, sp, is_stop) if some != none]
    for c in answers:
        ok = False
        for firsts, seconds in ((reset_pos, none_pos), (none_pos, reset_pos)):
            for fb, ft in firsts:
                for sb, st_ in seconds:
                    if sp.dominates(fb, c.bb) and edge_dominates(sp, fb, ft, sb) and path_avoiding(sp, [ft], [c.bb], {sb}) is None \
                            and c.bb not in sp.reachable_from(st_) and sp_closed and path_avoiding(sp, [st_], sprets, sp_closed) is None:
                        ok = True
        ctx.check(ok, 'a', 'stopped_after_local_reset_is_closed', sp, c.where(), 'Ok(stop_reason) only with (ResetSent and no stop reason) refused as ClosedStream',
                  'SendStream::stopped can answer Ok(stop_reason) for a half that was reset locally and not stopped by the peer (must be ClosedStream)')
    # missing entry -> ClosedStream: the None outcome of the map lookup itself is what yields the error
    n = 0
    for fn, var in (('SendStream::write_source', ('WriteError', 'ClosedStream')), ('SendStream::finish', ('FinishError', 'ClosedStream')),
                    ('SendStream::reset', ('ClosedStream', 'ClosedStream')), ('SendStream::set_priority', ('ClosedStream', 'ClosedStream')),
                    ('SendStream::stopped', ('ClosedStream', 'ClosedStream')), ('SendStream::priority', ('ClosedStream', 'ClosedStream'))):
        b = ctx.pfn(fn)
        lookups = [c for c in b.calls_to('HashMap::get_mut', 'HashMap::get') if D.has_field(arg_desc(F, c, 0), 'send')]
        loose = missing_entry_refused(ctx, b, lookups, var)
        ok = bool(lookups) and not loose
        n += 1 if ok else 0
        ctx.check(ok, 'a', 'missing_entry_is_closed_stream', b, b.where(), 'None of the map lookup -> %s (%d lookup(s))' % (var[1], len(lookups)),
                  '%s no longer maps a missing stream entry to ClosedStream (lookup at %s)' % (fn, [c.where() for c in loose] or 'none found'))
    ctx.floor('a', 'closed_stream_mappings', n, 6)


def rule_b(ctx):
    F = ctx.facts
    who_may_construct(ctx, 'b', 'finished_event_sites', 'StreamEvent', 'Finished', ['StreamsState::received_ack_of'], floor=1)
    ra = ctx.pfn('StreamsState::received_ack_of')
    fins = [c for c in constructions(F, 'StreamEvent', 'Finished', crate='quinn_proto')]
    acks = ra.calls_to('Send::ack')
    rem = ra.calls_to('OccupiedEntry::remove_entry', 'OccupiedEntry::remove')
    for c in fins:
        # only on Send::ack == true edge
        es = bool_edges(ctx, ra, lambda d: D.has_call(d, 'Send::ack'))
        ok = bool(es) and all(edge_dominates(ra, br.bb, tgt, c.bb) for br, truth, tgt in es if truth)
        ok = ok and bool(rem) and any(ra.dominates(x.bb, c.bb) for x in rem)
        ctx.check(ok, 'b', 'finished_only_after_full_ack_and_removal', ra, c.where(), 'Send::ack true edge, entry removed first', 'Finished can be emitted without Send::ack()==true or without removing the entry (could repeat)')
    sa = ctx.pfn('Send::ack')
    rd = [x for _, x in ret_descs(F, sa)]
    fa = [b for b in branches(F, sa) if 'finish_acked' in D.render(b.desc)]
    fc = sa.calls_to('SendBuffer::is_fully_acked')
    okk = any(D.has_call(x, 'SendBuffer::is_fully_acked') for x in rd) and bool(fa) and bool(fc) and all(any(sa.dominates(b.bb, c.bb) for b in fa) for c in fc)
    # the `true` result is only produced on the finish_acked edge
    okk = okk and all(all(c.bb not in sa.reachable_from(b.target(0)) for c in fc) for b in fa)
    ctx.check(okk, 'b', 'ack_true_needs_fin_acked_and_fully_acked', sa, sa.where(), 'finish_acked && is_fully_acked()', 'Send::ack returns true without both conditions')
    who_may_construct(ctx, 'b', 'stopped_event_sites', 'StreamEvent', 'Stopped', ['StreamsState::received_stop_sending'], floor=1)
    rss = ctx.pfn('StreamsState::received_stop_sending')
    for c in [x for x in constructions(F, 'StreamEvent', 'Stopped', crate='quinn_proto')]:
        es = bool_edges(ctx, rss, lambda d: D.has_call(d, 'Send::try_stop'))
        ok = bool(es) and all(edge_dominates(rss, br.bb, tgt, c.bb) for br, truth, tgt in es if truth)
        ctx.check(ok, 'b', 'stopped_only_on_first_stop', rss, c.where(), 'try_stop()==true edge', 'Stopped is emitted even when the stream was already stopped')
    # ... and ALWAYS then: try_stop has already recorded the reason (operations report Stopped from now on), so the event must follow
    scons = [x.bb for x in constructions(F, 'StreamEvent', 'Stopped', crate='quinn_proto') if F.root_of(x.body).id == rss.id]
    for br, truth, tgt in bool_edges(ctx, rss, lambda d: d[0] == 'call' and d[1] == 'Send::try_stop'):
        if not truth:
            continue
        p = path_avoiding(rss, [tgt], rss.return_blocks(), scons)
        ctx.check(p is None and bool(scons), 'b', 'stopped_always_on_first_stop', rss, br.where(), 'every path from try_stop()==true reaches push_back(Stopped)',
                  'a first STOP_SENDING records the stop reason but a path skips the Stopped event: ' + (fmt_path(rss, p) if p else ''))
    ts = ctx.pfn('Send::try_stop')
    # exactly: None edge -> records Some(code) and answers true; Some edge -> leaves the reason alone and answers false
    sw = [x for x in field_writes(F, 'send::Send', 'stop_reason', crate='quinn_proto') if F.root_of(x.body).id == ts.id and x.kind == 'assign']
    svs = store_values(ctx, 'send::Send', 'stop_reason', in_fn=ts)
    val_ok = bool(svs) and all(_agg_is(v, ('Option', 'Some')) and len(v[3]) == 1 and v[3][0][0] == 'param' for _, v in svs)
    okt = False
    for br, some, none in option_tests(F, ts, _field_named('stop_reason')):
        if some == none or not all(ts.dominates(br.bb, r) for r in ts.return_blocks()):
            continue
        rn, rsm = returns_via(F, ts, none), returns_via(F, ts, some)
        first = bool(sw) and all(edge_dominates(ts, br.bb, none, x.bb) for x in sw) and path_avoiding(ts, [none], ts.return_blocks(), {x.bb for x in sw}) is None \
            and bool(rn) and all(_is_const(x, 1) for x in rn)
        again = not any(x.bb in ts.reachable_from(some) for x in sw) and bool(rsm) and all(_is_const(x, 0) for x in rsm)
        if first and again:
            okt = True
    ctx.check(okt and val_ok, 'b', 'try_stop_tests_previous_reason', ts, ts.where(), 'stop_reason None -> store Some(code), true; Some -> untouched, false',
              'try_stop does not (only) record the reason and answer true exactly when no reason was recorded before')
    who_may_construct(ctx, 'b', 'opened_event_sites', 'StreamEvent', 'Opened', ['StreamsState::poll'], floor=1)
    who_may_write(ctx, 'b', 'opened_flag_writers', SS, 'opened', ['StreamsState::on_stream_frame', 'StreamsState::poll', 'StreamsState::new'], floor=2, kinds=('assign', 'mutborrow'))
    osf = ctx.pfn('StreamsState::on_stream_frame')
    osv = store_values(ctx, SS, 'opened', in_fn=osf)
    ctx.floor('b', 'opened_flag_sets_in_on_stream_frame', len(osv), 1)
    for w, v in osv:
        # only when stream.index() >= next_remote
        guard_protects(ctx, 'b', 'opened_only_for_new_highest_remote_index', osf, lambda o, a, b: o == 'Lt' and D.has_call(a, 'StreamId::index') and ('next' in D.render(b)), [w.bb], what='index < next_remote')
    who_may_construct(ctx, 'b', 'readable_event_sites', 'StreamEvent', 'Readable', ['StreamsState::on_stream_frame'], floor=1)
    who_may_call(ctx, 'b', 'on_stream_frame_callers', ['StreamsState::on_stream_frame'],
                 ['StreamsState::received', 'StreamsState::received_reset', 'StreamsState::received_stop_sending', 'StreamsState::received_max_stream_data'], floor=4)
    who_may_construct(ctx, 'b', 'available_event_sites', 'StreamEvent', 'Available', ['StreamsState::received_max_streams'], floor=1)
    rms = ctx.pfn('StreamsState::received_max_streams')
    for c in constructions(F, 'StreamEvent', 'Available', crate='quinn_proto'):
        guard_protects(ctx, 'b', 'available_only_on_raised_limit', rms, lambda o, a, b: o == 'Le' and D.has_param(a, name='count') and D.has_field(b, 'max'), [c.bb], what='count <= current')
    who_may_construct(ctx, 'b', 'writable_event_sites', 'StreamEvent', 'Writable', ['StreamsState::received_max_stream_data', 'StreamsState::poll'], floor=2)


def rule_c(ctx):
    F = ctx.facts
    cn = ctx.pfn('Chunks::new')
    eff = effect_blocks(ctx, cn, variant=('ReadableError', 'ClosedStream'))
    ctx.check(len(eff) >= 2, 'c', 'read_refused_on_vacant_or_stopped', cn, cn.where(), '%d ClosedStream exits' % len(eff), 'Chunks::new lost a ClosedStream exit (vacant entry / stopped)')
    rm = cn.calls_to('OccupiedEntry::remove')
    brs = [b for b in branches(F, cn) if D.has_field(b.desc, 'stopped')]
    ok = bool(rm) and bool(brs) and all(all(x.bb not in cn.reachable_from(b.target(1)) for x in rm) for b in brs)
    ctx.check(ok, 'c', 'stopped_stream_not_taken_for_reading', cn, cn.where(), 'stopped -> ClosedStream, entry not removed', 'a stopped stream can be opened for reading')
    # a refused read leaves the stream in the table: once the Recv has been taken out of `streams.recv`, Chunks::new can
    # only succeed (the Chunks value owns it and finalize() puts it back / frees it).  Otherwise the refused operation
    # destroys the stream: no terminal outcome is ever observed and its slot never stops counting.
    errs = [c.bb for c in constructions(F, 'Result', 'Err', crate='quinn_proto') if c.body.id == cn.id] + \
           [c.bb for c in cn.calls() if (c.f or '').endswith('FromResidual>::from_residual') or short(c.f or '').endswith('from_residual')]
    ctx.floor('c', 'read_open_take_sites', len(rm), 1)
    for x in rm:
        after = cn.reachable_from(cn.succ[x.bb]) if cn.succ[x.bb] else set()
        bad = [e for e in errs if e in after]
        ctx.check(not bad, 'c', 'refused_read_leaves_stream_in_table', cn, x.where(), 'no error exit after the Recv left the stream table',
                  'Chunks::new can still fail after it removed the stream from `streams.recv` (the Recv is dropped: the stream reports ClosedStream without a terminal outcome and its slot is never released)')
    nx = ctx.pfn('Chunks::next')
    freed = recv_half_freed_sites(F, nx)
    inl = {c.bb for c in freed if not c.is_('StreamsState::stream_recv_freed')}
    ctx.floor('c', 'terminal_free_sites', len(freed), 2)
    for var in ('Finished', 'Reset'):
        cons = [c for c in constructions(F, 'recv::ChunksState', var, crate='quinn_proto') if F.root_of(c.body).id == nx.id]
        ok = bool(cons) and all(must_follow(F, nx, c.bb, ['StreamsState::stream_recv_freed'], depth=0, extra_blocks=inl) is None for c in cons)
        ctx.check(ok, 'c', 'terminal_outcome_frees_recv_half_' + var.lower(), nx, nx.where(), 'state=%s then stream_recv_freed on every path' % var, 'terminal outcome %s does not always free the receive half' % var)
    # Recv::stop twice -> ClosedStream
    rs = ctx.pfn('Recv::stop')
    st = [w for w in field_writes(F, 'recv::Recv', 'stopped', crate='quinn_proto') if F.root_of(w.body).id == rs.id]
    brs = [b for b in branches(F, rs) if D.has_field(b.desc, 'stopped')]
    ok = bool(st) and bool(brs) and all(all(w.bb not in rs.reachable_from(b.target(1)) for w in st) and bool(effect_blocks(ctx, rs, variant=('ClosedStream', 'ClosedStream')) & rs.reachable_from(b.target(1))) for b in brs)
    ctx.check(ok, 'c', 'stop_twice_is_closed', rs, rs.where(), 'stopped -> Err(ClosedStream)', 'a second stop() is no longer refused')
    # received_reset: stopped -> ClosedStream takes precedence over `no reset yet -> Ok(None)`
    rr = ctx.pfn('RecvStream::received_reset')
    bs = [b for b in branches(F, rr) if D.has_field(b.desc, 'stopped')]
    bc = [b for b in branches(F, rr) if b.desc[0] == 'discr' and D.has_call(b.desc[1], 'Recv::reset_code')]
    ok = bool(bs) and bool(bc) and all(any(rr.dominates(s.bb, c.bb) for s in bs) for c in bc)
    ctx.check(ok, 'c', 'stopped_checked_before_reset_code', rr, rr.where(), 'if s.stopped {ClosedStream} dominates reset_code() test', 'received_reset() on a stopped stream can answer Ok(None) instead of ClosedStream')
    fr = recv_half_freed_sites(F, rr)
    ok = bool(fr) and bool(bc) and all(all(f.bb in rr.reachable_from(b.target(1)) and f.bb not in rr.reachable_from(b.target(0)) for f in fr) for b in bc)
    ctx.check(ok, 'c', 'reset_observed_frees_recv_half', rr, rr.where(), 'Some(code) -> stream_recv_freed', 'observing the reset does not free the stream exactly on the Some(code) edge')


def rule_d(ctx):
    F = ctx.facts
    # callers of stream_freed: the two Send-half terminal edges, stream_recv_freed, and -- stream_recv_freed inlined -- a call
    # with the literal half StreamHalf::Recv from a function that may call stream_recv_freed
    allowed = ['StreamsState::reset_acked', 'StreamsState::received_ack_of', 'StreamsState::stream_recv_freed']
    n = inlined = 0
    for c in F.callers_of('StreamsState::stream_freed', crate='quinn_proto'):
        if is_noise(c):
            continue
        n += 1
        r = F.root_of(c.body)
        if root_matches(ctx, c.body, allowed):
            ctx.ok('d', 'stream_freed_callers', r, c.where(), 'call of %s from allowed caller' % short(c.f))
        elif root_matches(ctx, c.body, RECV_FREERS) and _half_lit(F, c) == 'Recv':
            inlined += 1
            ctx.ok('d', 'stream_freed_callers', r, c.where(), 'stream_freed(_, StreamHalf::Recv): stream_recv_freed inlined into one of its allowed callers')
        else:
            ctx.bad('d', 'stream_freed_callers/unexpected_caller', r, c.where(),
                    'call of %s (half %s) from %s, allowed callers are %s (and, with the literal half Recv, %s). ' % (short(c.f), _half_lit(F, c), r.short, sorted(allowed), sorted(RECV_FREERS)))
    ctx.floor('d', 'stream_freed_callers', n, 3)
    sites = who_may_call(ctx, 'd', 'stream_recv_freed_callers', ['StreamsState::stream_recv_freed'], RECV_FREERS)
    # five places free a receive half (by the call or by its inlined form)
    ctx.floor('d', 'stream_recv_freed_callers', len([c for c in sites if not is_noise(c)]) + inlined, 5)
    sf = ctx.pfn('StreamsState::stream_freed')
    dec = [(w, v) for w, v in store_values(ctx, SS, 'allocated_remote_count', in_fn=sf)]
    ctx.floor('d', 'slot_release_sites', len(dec), 1)
    for w, v in dec:
        ok = v[0] == 'bin' and v[1] == 'Sub' and D.has_const(v, 1)
        ctx.check(ok, 'd', 'slot_released_by_one', sf, w.where(), D.render(v)[:100], 'allocated_remote_count is not decremented by exactly one')
        # only if the other half's map has no entry: both contains_key calls feed the deciding branch
        ck = sf.calls_to('HashMap::contains_key')
        ctx.check(len(ck) >= 2, 'd', 'slot_release_checks_other_half_entry', sf, w.where(), '%d contains_key tests (send/recv maps)' % len(ck),
                  'the release of a remote stream slot no longer tests the other halfs map entry with contains_key (a half that exists but is unused must still count)')
        for c in ck:
            a0 = arg_desc(F, c, 0)
            ctx.check(D.has_field(a0, 'send') or D.has_field(a0, 'recv'), 'd', 'other_half_lookup_on_stream_maps', sf, c.where(), D.render(a0), 'contains_key is not applied to the send/recv maps')
        hb = [b for b in branches(F, sf) if b.desc[0] == 'discr' and D.has_param(b.desc, name='half') and len(b.edges) >= 2]
        okh = False
        for b in hb:
            seen = {}
            for variant, fld in ((0, 'recv'), (1, 'send')):      # StreamHalf::Send = 0 looks at `recv`; StreamHalf::Recv = 1 looks at `send`
                t = b.target(variant)
                other = b.target(1 - variant)
                mine = [c for c in ck if c.bb in sf.reachable_from(t, avoid=[other]) and c.bb not in sf.reachable_from(other, avoid=[t])]
                seen[variant] = bool(mine) and all(D.has_field(arg_desc(F, c, 0), fld) for c in mine)
            if seen.get(0) and seen.get(1):
                okh = True
        ctx.check(okh, 'd', 'slot_release_tests_the_other_half', sf, w.where(), 'Send half freed -> !recv.contains_key(id); Recv half freed -> !send.contains_key(id)',
                  'stream_freed tests the wrong map for one half: a remote bidirectional stream stops counting while its other half is still live')
        # the store is a statement, a call is the terminator of its block: when the block of the store itself ends in the
        # ensure_remote_streams call (no intervening call such as `id.dir()` splits the two) the call follows the store
        if w.bb in must_sites(F, sf, ['StreamsState::ensure_remote_streams'], 0):
            es = None
        else:
            es = must_follow(F, sf, w.bb, ['StreamsState::ensure_remote_streams'], depth=0)
        ctx.check(es is None, 'd', 'slot_release_reissues_credit', sf, w.where(), 'followed by ensure_remote_streams', 'released slot is not followed by ensure_remote_streams')
    ss = [(w, v) for w, v in store_values(ctx, SS, 'send_streams', in_fn=sf)]
    for w, v in ss:
        # only reachable over the Send edge of a test of the `half` parameter, never over its Recv edge
        okh = False
        for b in branches(F, sf):
            vt = variant_test(F, b, 'StreamHalf', lambda x: x[0] == 'param' and x[2] == 'half')
            if vt and vt['Send'] != vt['Recv'] and edge_dominates(sf, b.bb, vt['Send'], w.bb) and w.bb not in sf.reachable_from(vt['Recv'], avoid=[b.bb]):
                okh = True
        ctx.check(okh, 'd', 'send_streams_only_for_send_half', sf, w.where(), 'guarded by half == Send', 'send_streams is not decremented exactly when the freed half is the Send half')
    ctx.floor('d', 'send_streams_release_sites', len(ss), 1)
    who_may_write(ctx, 'd', 'send_streams_writers', SS, 'send_streams', ['StreamsState::stream_freed', 'Streams::open', 'Streams::accept', 'StreamsState::zero_rtt_rejected', 'StreamsState::new'], floor=4)
    who_may_write(ctx, 'd', 'allocated_remote_count_writers', SS, 'allocated_remote_count', ['StreamsState::stream_freed', 'StreamsState::ensure_remote_streams', 'StreamsState::new'], floor=2)


def rule_e(ctx):
    F = ctx.facts
    ep = ctx.qfn('SendStream::execute_poll')
    d = describer(F, ep)
    # Blocked -> Pending + register ; Stopped -> Stopped ; ClosedStream -> ClosedStream
    # each outcome is produced on the edge of the matching proto::WriteError variant of ONE scrutinee S (the error of the
    # proto write): quinn Stopped carries (S as Stopped).0, so S is found structurally from that operand
    pw = {v['name']: int(v['discr']) for v in F.adt('send::WriteError')['variants']}
    scrs = {}           # body id -> scrutinee descriptors
    for var in ('Stopped', 'ClosedStream'):
        cons = [c for c in constructions(F, 'send_stream::WriteError', var, crate='quinn') if F.root_of(c.body).id == ep.id]
        ok = bool(cons)
        for c in cons:
            brs = branches(F, c.body)
            if var == 'Stopped':
                od = describer(F, c.body).operand(c.ops[0], c.bb, c.idx)
                S = od[1][1] if (od[0] == 'field' and od[2] == '0' and od[1][0] == 'variant' and od[1][2] == 'Stopped') else None
                if S is not None:
                    scrs.setdefault(c.body.id, []).append(S)
                cands = [S] if S is not None else []
            else:
                cands = scrs.get(c.body.id, [])
            ok = ok and any(b.desc == ('discr', S) and edge_dominates(c.body, b.bb, b.target(pw[var]), c.bb)
                            and all(b.target(pw[var]) != b.target(k) for n_, k in pw.items() if n_ != var) for b in brs for S in cands)
        ctx.check(ok, 'e', 'write_error_mapped_' + var.lower(), ep, ep.where(), 'proto %s edge -> quinn::WriteError::%s' % (var, var),
                  'execute_poll does not build quinn WriteError::%s exactly on the proto WriteError::%s edge' % (var, var))
    ins = [c for c in ep.calls() if c.is_('HashMap::insert') and D.has_field(arg_desc(F, c, 0), 'blocked_writers')]
    ok = bool(ins) and all(any(b.desc == ('discr', S) and edge_dominates(ep, b.bb, b.target(pw['Blocked']), c.bb) for b in branches(F, ep) for S in scrs.get(ep.id, [])) for c in ins)
    ctx.check(ok, 'e', 'blocked_write_registers_waker', ep, ep.where(), 'proto Blocked edge -> blocked_writers.insert(id, waker)', 'Blocked no longer registers the writer (on the Blocked edge)')
    # check_0rtt precedes proto calls
    n = 0
    for fn, protos, crate_fn in (
            ('SendStream::execute_poll', ['quinn_proto::Connection::send_stream', 'Connection::send_stream'], ctx.qfn),
            ('RecvStream::poll_read_generic', ['Connection::recv_stream'], ctx.qfn),
            ('SendStream::reset', ['Connection::send_stream'], ctx.qfn),
            ('RecvStream::stop', ['Connection::recv_stream'], ctx.qfn)):
        b = crate_fn(fn)
        sites = b.calls_to(*protos)
        chk = b.calls_to('State::check_0rtt')
        zb = [br for br in branches(F, b) if D.has_field(br.desc, 'is_0rtt')]
        ok = bool(sites) and bool(chk) and bool(zb)
        for br in zb:
            # on the is_0rtt edge every path to a proto call passes check_0rtt
            for s_ in sites:
                if path_avoiding(b, [br.target(1)], [s_.bb], {c.bb for c in chk}) is not None:
                    ok = False
            ok = ok and all(b.dominates(br.bb, s_.bb) for s_ in sites)
        # the Err result of check_0rtt never reaches the proto call
        for c in chk:
            ebs = [x for x in branches(F, b) if (D.has_call(x.desc, 'Result::is_err') or x.desc[0] == 'discr') and contains_site(x.desc, c)]
            if not ebs:
                ok = False
            for x in ebs:
                et = x.target(1)
                if any(s_.bb in b.reachable_from(et) for s_ in sites):
                    ok = False
        n += 1 if ok else 0
        ctx.check(ok, 'e', 'zero_rtt_check_precedes_proto_call', b, b.where(), 'is_0rtt => check_0rtt passes before %d proto call(s)' % len(sites), '%s can reach the protocol stream of a 0-RTT stream without a passing check_0rtt' % fn)
    ctx.floor('e', 'zero_rtt_checked_entry_points', n, 4)


def run(ctx):
    rule_a(ctx)
    rule_b(ctx)
    rule_c(ctx)
    rule_d(ctx)
    rule_e(ctx)
    # obligations shared with a sibling property (evaluated by the owning module, reported here under letter x)
    from engine.rulelib import share as _share
    _share(ctx, 'C17', 'rule_a', 'x', 'frames of rejected early data are discarded for good: a re-queued STOP_SENDING makes the peer report Opened/Stopped for a stream nobody used')

