"""C11 — stream operations follow the QUIC stream state machine (structural part)."""
from engine.rulelib import *
from engine import desc as D

EXPLANATION = ("Static rules over quinn-proto/quinn MIR: (a) state guards of Send::write/finish, SendStream::reset and the missing-entry -> ClosedStream "
               "mapping of every send operation; (b) who-may-construct each StreamEvent and the edge it is constructed on (Finished only after Send::ack "
               "returned true and the entry was removed; Stopped only on the first try_stop; Opened via the opened[] flag; Available only on a raised limit); "
               "(c) reader terminal outcomes: Chunks::new refuses vacant/stopped entries, both terminal arms of Chunks::next free the receive half, stop twice "
               "-> ClosedStream, received_reset checks `stopped` before the reset code; (d) concurrency accounting: stream_freed callers, the slot is released "
               "only when the other half's map entry is absent, send_streams only for the Send half; (e) async error mapping and the 0-RTT check preceding "
               "every proto stream call. The full (state x operation) table over interleavings is NOT decided.")
RULE = "rule instances = (rule, site) pairs over MIR branches / constructions / call sites; non-trivial = bound to at least one real site"
SS = 'StreamsState'


def rule_a(ctx):
    F = ctx.facts
    w = ctx.pfn('Send::write')
    pops = [c.bb for c in w.calls_to('BytesSource::pop_chunk')]
    # !is_writable -> ClosedStream
    es = bool_edges(ctx, w, lambda d: D.has_call(d, 'Send::is_writable') and d[0] == 'call')
    ok = False
    for br, truth, tgt in es:
        if truth is False:
            eff = effect_blocks(ctx, w, variant=('WriteError', 'ClosedStream'))
            ok = path_avoiding(w, [tgt], set(w.return_blocks()) | set(pops), eff) is None
    ctx.check(ok, 'a', 'write_on_non_ready_is_closed', w, w.where(), '!is_writable() -> ClosedStream before any pop', 'Send::write no longer refuses non-Ready streams with ClosedStream')
    iw = ctx.pfn('Send::is_writable')
    rd = [x for _, x in ret_descs(F, iw)]
    # matches!(state, Ready): discriminant test of self.state
    brs = [b for b in branches(F, iw) if b.desc[0] == 'discr' and D.has_field(b.desc[1], 'state')]
    ctx.check(bool(brs), 'a', 'is_writable_tests_state', iw, iw.where(), 'matches!(self.state, Ready)', 'is_writable no longer inspects self.state')
    # stop_reason = Some(c) -> Stopped(c)
    cons = [c for c in constructions(F, 'WriteError', 'Stopped', crate='quinn_proto') if F.root_of(c.body).id == w.id]
    d = describer(F, w)
    ok = bool(cons) and all(D.has_field(d.operand(c.ops[0], c.bb, c.idx), 'stop_reason') for c in cons) and all(all(w.dominates(c.bb, p) is False for p in pops) for c in cons)
    brs = [b for b in branches(F, w) if b.desc[0] == 'discr' and D.has_field(b.desc[1], 'stop_reason')]
    ok = ok and bool(brs) and all(all(p not in w.reachable_from(b.target(1)) for p in pops) for b in brs)
    ctx.check(ok, 'a', 'write_on_stopped_reports_code', w, w.where(), 'stop_reason Some(c) -> Err(Stopped(c)), no data taken', 'Send::write no longer reports Stopped(code) before taking data')
    fin = ctx.pfn('Send::finish')
    cons = [c for c in constructions(F, 'FinishError', 'Stopped', crate='quinn_proto') if F.root_of(c.body).id == fin.id]
    st = [wr for wr in field_writes(F, 'send::Send', 'state', crate='quinn_proto') if F.root_of(wr.body).id == fin.id and wr.kind == 'assign']
    brs = [b for b in branches(F, fin) if b.desc[0] == 'discr' and D.has_field(b.desc[1], 'stop_reason')]
    ok = bool(cons) and bool(st) and bool(brs) and all(all(s.bb not in fin.reachable_from(b.target(1)) for s in st) for b in brs)
    ctx.check(ok, 'a', 'finish_on_stopped_reports_code', fin, fin.where(), 'stop_reason -> Err(Stopped), state untouched', 'Send::finish no longer refuses stopped streams before changing state')
    # state == Ready guard for the transition; else ClosedStream
    eqs = [b for b in branches(F, fin) if D.has_field(b.desc, 'state') and (relation_on(b.desc, True) or b.desc[0] in ('call', 'discr'))]
    okf = False
    for b in branches(F, fin):
        r = D.render(b.desc)
        if 'state' in r and ('Ready' in r or b.desc[0] == 'discr' or 'PartialEq' in r or 'Eq' in r):
            # true edge reaches the state store, false edge reaches ClosedStream and not the store
            for v, t in b.edges:
                reach = fin.reachable_from(t)
                has_store = any(s.bb in reach for s in st)
                has_closed = bool(effect_blocks(ctx, fin, variant=('FinishError', 'ClosedStream')) & reach)
                if has_closed and not has_store:
                    okf = True
    ctx.check(okf, 'a', 'finish_only_from_ready', fin, fin.where(), 'state == Ready -> DataSent; else ClosedStream', 'Send::finish accepts states other than Ready')
    fs = [c for c in constructions(F, 'send::SendState', 'DataSent', crate='quinn_proto') if F.root_of(c.body).id == fin.id]
    ctx.check(bool(fs), 'a', 'finish_moves_to_data_sent', fin, fin.where(), 'DataSent{finish_acked:false}', 'finish no longer moves the stream to DataSent')
    fp = [wr for wr in field_writes(F, 'send::Send', 'fin_pending', crate='quinn_proto') if F.root_of(wr.body).id == fin.id]
    ctx.check(bool(fp), 'a', 'finish_queues_fin', fin, fin.where(), 'fin_pending = true', 'finish no longer queues the FIN')
    # SendStream::reset: ResetSent -> ClosedStream
    rs = ctx.pfn('SendStream::reset')
    sr = [c.bb for c in rs.calls_to('Send::reset')]
    brs = [b for b in branches(F, rs) if b.desc[0] == 'discr' and D.has_field(b.desc[1], 'state')]
    ok = False
    for b in brs:
        for v, t in b.edges:
            reach = rs.reachable_from(t)
            if effect_blocks(ctx, rs, variant=('ClosedStream', 'ClosedStream')) & reach and not any(s in reach for s in sr):
                ok = True
    ctx.check(ok and bool(sr), 'a', 'reset_twice_is_closed', rs, rs.where(), 'ResetSent -> Err(ClosedStream) before Send::reset', 'a redundant reset is no longer refused')
    # missing entry -> ClosedStream (Option::ok_or(ClosedStream) on the map lookup)
    n = 0
    for fn, var in (('SendStream::write_source', ('WriteError', 'ClosedStream')), ('SendStream::finish', ('FinishError', 'ClosedStream')),
                    ('SendStream::reset', ('ClosedStream', 'ClosedStream')), ('SendStream::set_priority', ('ClosedStream', 'ClosedStream')),
                    ('SendStream::stopped', ('ClosedStream', 'ClosedStream')), ('SendStream::priority', ('ClosedStream', 'ClosedStream'))):
        b = ctx.pfn(fn)
        eff = effect_blocks(ctx, b, variant=var)
        lookups = b.calls_to('HashMap::get_mut', 'HashMap::get')
        ok = bool(eff) and bool(lookups)
        n += 1 if ok else 0
        ctx.check(ok, 'a', 'missing_entry_is_closed_stream', b, b.where(), 'map lookup .ok_or(ClosedStream)', '%s no longer maps a missing stream entry to ClosedStream' % fn)
    ctx.floor('a', 'closed_stream_mappings', n, 6)


def rule_b(ctx):
    F = ctx.facts
    who_may_construct(ctx, 'b', 'finished_event_sites', 'StreamEvent', 'Finished', ['StreamsState::received_ack_of'], floor=1)
    ra = ctx.pfn('StreamsState::received_ack_of')
    fins = [c for c in constructions(F, 'StreamEvent', 'Finished', crate='quinn_proto')]
    acks = ra.calls_to('Send::ack')
    rem = ra.calls_to('OccupiedEntry::remove_entry', 'OccupiedEntry::remove')
    for c in fins:
        # only on Send::ack == true edge
        es = bool_edges(ctx, ra, lambda d: D.has_call(d, 'Send::ack'))
        ok = bool(es) and all(edge_dominates(ra, br.bb, tgt, c.bb) for br, truth, tgt in es if truth)
        ok = ok and bool(rem) and any(ra.dominates(x.bb, c.bb) for x in rem)
        ctx.check(ok, 'b', 'finished_only_after_full_ack_and_removal', ra, c.where(), 'Send::ack true edge, entry removed first', 'Finished can be emitted without Send::ack()==true or without removing the entry (could repeat)')
    sa = ctx.pfn('Send::ack')
    rd = [x for _, x in ret_descs(F, sa)]
    fa = [b for b in branches(F, sa) if 'finish_acked' in D.render(b.desc)]
    fc = sa.calls_to('SendBuffer::is_fully_acked')
    okk = any(D.has_call(x, 'SendBuffer::is_fully_acked') for x in rd) and bool(fa) and bool(fc) and all(any(sa.dominates(b.bb, c.bb) for b in fa) for c in fc)
    # the `true` result is only produced on the finish_acked edge
    okk = okk and all(all(c.bb not in sa.reachable_from(b.target(0)) for c in fc) for b in fa)
    ctx.check(okk, 'b', 'ack_true_needs_fin_acked_and_fully_acked', sa, sa.where(), 'finish_acked && is_fully_acked()', 'Send::ack returns true without both conditions')
    who_may_construct(ctx, 'b', 'stopped_event_sites', 'StreamEvent', 'Stopped', ['StreamsState::received_stop_sending'], floor=1)
    rss = ctx.pfn('StreamsState::received_stop_sending')
    for c in [x for x in constructions(F, 'StreamEvent', 'Stopped', crate='quinn_proto')]:
        es = bool_edges(ctx, rss, lambda d: D.has_call(d, 'Send::try_stop'))
        ok = bool(es) and all(edge_dominates(rss, br.bb, tgt, c.bb) for br, truth, tgt in es if truth)
        ctx.check(ok, 'b', 'stopped_only_on_first_stop', rss, c.where(), 'try_stop()==true edge', 'Stopped is emitted even when the stream was already stopped')
    # ... and ALWAYS then: try_stop has already recorded the reason (operations report Stopped from now on), so the event must follow
    scons = [x.bb for x in constructions(F, 'StreamEvent', 'Stopped', crate='quinn_proto') if F.root_of(x.body).id == rss.id]
    for br, truth, tgt in bool_edges(ctx, rss, lambda d: d[0] == 'call' and d[1] == 'Send::try_stop'):
        if not truth:
            continue
        p = path_avoiding(rss, [tgt], rss.return_blocks(), scons)
        ctx.check(p is None and bool(scons), 'b', 'stopped_always_on_first_stop', rss, br.where(), 'every path from try_stop()==true reaches push_back(Stopped)',
                  'a first STOP_SENDING records the stop reason but a path skips the Stopped event: ' + (fmt_path(rss, p) if p else ''))
    ts = ctx.pfn('Send::try_stop')
    brs = [b for b in branches(F, ts) if D.has_field(b.desc, 'stop_reason')]
    ctx.check(bool(brs), 'b', 'try_stop_tests_previous_reason', ts, ts.where(), 'stop_reason.is_none()', 'try_stop no longer distinguishes the first stop')
    who_may_construct(ctx, 'b', 'opened_event_sites', 'StreamEvent', 'Opened', ['StreamsState::poll'], floor=1)
    who_may_write(ctx, 'b', 'opened_flag_writers', SS, 'opened', ['StreamsState::on_stream_frame', 'StreamsState::poll', 'StreamsState::new'], floor=2, kinds=('assign', 'mutborrow'))
    osf = ctx.pfn('StreamsState::on_stream_frame')
    for w, v in store_values(ctx, SS, 'opened', in_fn=osf):
        # only when stream.index() >= next_remote
        guard_protects(ctx, 'b', 'opened_only_for_new_highest_remote_index', osf, lambda o, a, b: o == 'Lt' and D.has_call(a, 'StreamId::index') and ('next' in D.render(b)), [w.bb], what='index < next_remote')
    who_may_construct(ctx, 'b', 'readable_event_sites', 'StreamEvent', 'Readable', ['StreamsState::on_stream_frame'], floor=1)
    who_may_call(ctx, 'b', 'on_stream_frame_callers', ['StreamsState::on_stream_frame'],
                 ['StreamsState::received', 'StreamsState::received_reset', 'StreamsState::received_stop_sending', 'StreamsState::received_max_stream_data'], floor=4)
    who_may_construct(ctx, 'b', 'available_event_sites', 'StreamEvent', 'Available', ['StreamsState::received_max_streams'], floor=1)
    rms = ctx.pfn('StreamsState::received_max_streams')
    for c in constructions(F, 'StreamEvent', 'Available', crate='quinn_proto'):
        guard_protects(ctx, 'b', 'available_only_on_raised_limit', rms, lambda o, a, b: o == 'Le' and D.has_param(a, name='count') and D.has_field(b, 'max'), [c.bb], what='count <= current')
    who_may_construct(ctx, 'b', 'writable_event_sites', 'StreamEvent', 'Writable', ['StreamsState::received_max_stream_data', 'StreamsState::poll'], floor=2)


def rule_c(ctx):
    F = ctx.facts
    cn = ctx.pfn('Chunks::new')
    eff = effect_blocks(ctx, cn, variant=('ReadableError', 'ClosedStream'))
    ctx.check(len(eff) >= 2, 'c', 'read_refused_on_vacant_or_stopped', cn, cn.where(), '%d ClosedStream exits' % len(eff), 'Chunks::new lost a ClosedStream exit (vacant entry / stopped)')
    rm = cn.calls_to('OccupiedEntry::remove')
    brs = [b for b in branches(F, cn) if D.has_field(b.desc, 'stopped')]
    ok = bool(rm) and bool(brs) and all(all(x.bb not in cn.reachable_from(b.target(1)) for x in rm) for b in brs)
    ctx.check(ok, 'c', 'stopped_stream_not_taken_for_reading', cn, cn.where(), 'stopped -> ClosedStream, entry not removed', 'a stopped stream can be opened for reading')
    nx = ctx.pfn('Chunks::next')
    freed = nx.calls_to('StreamsState::stream_recv_freed')
    ctx.floor('c', 'terminal_free_sites', len(freed), 2)
    for var in ('Finished', 'Reset'):
        cons = [c for c in constructions(F, 'recv::ChunksState', var, crate='quinn_proto') if F.root_of(c.body).id == nx.id]
        ok = bool(cons) and all(must_follow(F, nx, c.bb, ['StreamsState::stream_recv_freed'], depth=0) is None for c in cons)
        ctx.check(ok, 'c', 'terminal_outcome_frees_recv_half_' + var.lower(), nx, nx.where(), 'state=%s then stream_recv_freed on every path' % var, 'terminal outcome %s does not always free the receive half' % var)
    # Recv::stop twice -> ClosedStream
    rs = ctx.pfn('Recv::stop')
    st = [w for w in field_writes(F, 'recv::Recv', 'stopped', crate='quinn_proto') if F.root_of(w.body).id == rs.id]
    brs = [b for b in branches(F, rs) if D.has_field(b.desc, 'stopped')]
    ok = bool(st) and bool(brs) and all(all(w.bb not in rs.reachable_from(b.target(1)) for w in st) and bool(effect_blocks(ctx, rs, variant=('ClosedStream', 'ClosedStream')) & rs.reachable_from(b.target(1))) for b in brs)
    ctx.check(ok, 'c', 'stop_twice_is_closed', rs, rs.where(), 'stopped -> Err(ClosedStream)', 'a second stop() is no longer refused')
    # received_reset: stopped -> ClosedStream takes precedence over `no reset yet -> Ok(None)`
    rr = ctx.pfn('RecvStream::received_reset')
    bs = [b for b in branches(F, rr) if D.has_field(b.desc, 'stopped')]
    bc = [b for b in branches(F, rr) if b.desc[0] == 'discr' and D.has_call(b.desc[1], 'Recv::reset_code')]
    ok = bool(bs) and bool(bc) and all(any(rr.dominates(s.bb, c.bb) for s in bs) for c in bc)
    ctx.check(ok, 'c', 'stopped_checked_before_reset_code', rr, rr.where(), 'if s.stopped {ClosedStream} dominates reset_code() test', 'received_reset() on a stopped stream can answer Ok(None) instead of ClosedStream')
    fr = rr.calls_to('StreamsState::stream_recv_freed')
    ok = bool(fr) and bool(bc) and all(all(f.bb in rr.reachable_from(b.target(1)) and f.bb not in rr.reachable_from(b.target(0)) for f in fr) for b in bc)
    ctx.check(ok, 'c', 'reset_observed_frees_recv_half', rr, rr.where(), 'Some(code) -> stream_recv_freed', 'observing the reset does not free the stream exactly on the Some(code) edge')


def rule_d(ctx):
    F = ctx.facts
    who_may_call(ctx, 'd', 'stream_freed_callers', ['StreamsState::stream_freed'], ['StreamsState::reset_acked', 'StreamsState::received_ack_of', 'StreamsState::stream_recv_freed'], floor=3)
    who_may_call(ctx, 'd', 'stream_recv_freed_callers', ['StreamsState::stream_recv_freed'],
                 ['StreamsState::received', 'StreamsState::received_reset', 'RecvStream::stop', 'RecvStream::received_reset', 'Chunks::next'], floor=5)
    sf = ctx.pfn('StreamsState::stream_freed')
    dec = [(w, v) for w, v in store_values(ctx, SS, 'allocated_remote_count', in_fn=sf)]
    ctx.floor('d', 'slot_release_sites', len(dec), 1)
    for w, v in dec:
        ok = v[0] == 'bin' and v[1] == 'Sub' and D.has_const(v, 1)
        ctx.check(ok, 'd', 'slot_released_by_one', sf, w.where(), D.render(v)[:100], 'allocated_remote_count is not decremented by exactly one')
        # only if the other half's map has no entry: both contains_key calls feed the deciding branch
        ck = sf.calls_to('HashMap::contains_key')
        ctx.check(len(ck) >= 2, 'd', 'slot_release_checks_other_half_entry', sf, w.where(), '%d contains_key tests (send/recv maps)' % len(ck),
                  'the release of a remote stream slot no longer tests the other halfs map entry with contains_key (a half that exists but is unused must still count)')
        for c in ck:
            a0 = arg_desc(F, c, 0)
            ctx.check(D.has_field(a0, 'send') or D.has_field(a0, 'recv'), 'd', 'other_half_lookup_on_stream_maps', sf, c.where(), D.render(a0), 'contains_key is not applied to the send/recv maps')
        hb = [b for b in branches(F, sf) if b.desc[0] == 'discr' and D.has_param(b.desc, name='half') and len(b.edges) >= 2]
        okh = False
        for b in hb:
            seen = {}
            for variant, fld in ((0, 'recv'), (1, 'send')):      # StreamHalf::Send = 0 looks at `recv`; StreamHalf::Recv = 1 looks at `send`
                t = b.target(variant)
                other = b.target(1 - variant)
                mine = [c for c in ck if c.bb in sf.reachable_from(t, avoid=[other]) and c.bb not in sf.reachable_from(other, avoid=[t])]
                seen[variant] = bool(mine) and all(D.has_field(arg_desc(F, c, 0), fld) for c in mine)
            if seen.get(0) and seen.get(1):
                okh = True
        ctx.check(okh, 'd', 'slot_release_tests_the_other_half', sf, w.where(), 'Send half freed -> !recv.contains_key(id); Recv half freed -> !send.contains_key(id)',
                  'stream_freed tests the wrong map for one half: a remote bidirectional stream stops counting while its other half is still live')
        es = must_follow(F, sf, w.bb, ['StreamsState::ensure_remote_streams'], depth=0)
        ctx.check(es is None, 'd', 'slot_release_reissues_credit', sf, w.where(), 'followed by ensure_remote_streams', 'released slot is not followed by ensure_remote_streams')
    ss = [(w, v) for w, v in store_values(ctx, SS, 'send_streams', in_fn=sf)]
    for w, v in ss:
        brs = [b for b in branches(F, sf) if D.has_param(b.desc, name='half') and sf.dominates(b.bb, w.bb)]
        ctx.check(bool(brs), 'd', 'send_streams_only_for_send_half', sf, w.where(), 'guarded by half == Send', 'send_streams is decremented regardless of the half')
    who_may_write(ctx, 'd', 'send_streams_writers', SS, 'send_streams', ['StreamsState::stream_freed', 'Streams::open', 'Streams::accept', 'StreamsState::zero_rtt_rejected', 'StreamsState::new'], floor=4)
    who_may_write(ctx, 'd', 'allocated_remote_count_writers', SS, 'allocated_remote_count', ['StreamsState::stream_freed', 'StreamsState::ensure_remote_streams', 'StreamsState::new'], floor=2)


def rule_e(ctx):
    F = ctx.facts
    ep = ctx.qfn('SendStream::execute_poll')
    d = describer(F, ep)
    # Blocked -> Pending + register ; Stopped -> Stopped ; ClosedStream -> ClosedStream
    for var in ('Stopped', 'ClosedStream'):
        cons = [c for c in constructions(F, 'send_stream::WriteError', var, crate='quinn') if F.root_of(c.body).id == ep.id]
        ctx.check(bool(cons), 'e', 'write_error_mapped_' + var.lower(), ep, ep.where(), 'quinn::WriteError::%s constructed' % var, 'execute_poll no longer maps proto %s' % var)
    ins = [c for c in ep.calls() if c.is_('HashMap::insert') and D.has_field(arg_desc(F, c, 0), 'blocked_writers')]
    ctx.check(bool(ins), 'e', 'blocked_write_registers_waker', ep, ep.where(), 'blocked_writers.insert(id, waker)', 'Blocked no longer registers the writer')
    # check_0rtt precedes proto calls
    n = 0
    for fn, protos, crate_fn in (
            ('SendStream::execute_poll', ['quinn_proto::Connection::send_stream', 'Connection::send_stream'], ctx.qfn),
            ('RecvStream::poll_read_generic', ['Connection::recv_stream'], ctx.qfn),
            ('SendStream::reset', ['Connection::send_stream'], ctx.qfn),
            ('RecvStream::stop', ['Connection::recv_stream'], ctx.qfn)):
        b = crate_fn(fn)
        sites = b.calls_to(*protos)
        chk = b.calls_to('State::check_0rtt')
        zb = [br for br in branches(F, b) if D.has_field(br.desc, 'is_0rtt')]
        ok = bool(sites) and bool(chk) and bool(zb)
        for br in zb:
            # on the is_0rtt edge every path to a proto call passes check_0rtt
            for s_ in sites:
                if path_avoiding(b, [br.target(1)], [s_.bb], {c.bb for c in chk}) is not None:
                    ok = False
            ok = ok and all(b.dominates(br.bb, s_.bb) for s_ in sites)
        # the Err result of check_0rtt never reaches the proto call
        for c in chk:
            ebs = [x for x in branches(F, b) if (D.has_call(x.desc, 'Result::is_err') or x.desc[0] == 'discr') and contains_site(x.desc, c)]
            if not ebs:
                ok = False
            for x in ebs:
                et = x.target(1)
                if any(s_.bb in b.reachable_from(et) for s_ in sites):
                    ok = False
        n += 1 if ok else 0
        ctx.check(ok, 'e', 'zero_rtt_check_precedes_proto_call', b, b.where(), 'is_0rtt => check_0rtt passes before %d proto call(s)' % len(sites), '%s can reach the protocol stream of a 0-RTT stream without a passing check_0rtt' % fn)
    ctx.floor('e', 'zero_rtt_checked_entry_points', n, 4)


def run(ctx):
    rule_a(ctx)
    rule_b(ctx)
    rule_c(ctx)
    rule_d(ctx)
    rule_e(ctx)
