"""C17 — 0-RTT accepted => once; rejected => vanishes (structural part)."""
from engine.rulelib import *
from engine import desc as D

EXPLANATION = ("Static rules over quinn-proto/quinn MIR: (a) the rejection branch (has_0rtt && !early_data_accepted) must-calls: accepted_0rtt = false, "
               "streams.zero_rtt_rejected(), pending = Retransmits::default(), drain of the Data-space sent packets with remove_in_flight; the acceptance branch "
               "validates the resumed parameters before applying the new ones; (b) UNDO-COVERS-DO on StreamsState: every field written (transitively) by the "
               "operations available before the handshake completes (open, write, finish, reset, set_priority, set_params with remembered parameters) is written by "
               "zero_rtt_rejected or plainly re-initialised by the following set_params, except single named fields with a reason; (c) Retry re-queues every early "
               "stream unconditionally (rewinds its SendBuffer) and the packets' control frames; (d) remembered parameters: non-cacheable fields blanked in init_0rtt; "
               "servers never send 0-RTT; 0-RTT packets carry no ACK/CRYPTO/HANDSHAKE_DONE; (e) async mapping: stream operations of 0-RTT streams consult check_0rtt "
               "(shared with C11.e) and blocked tasks are woken on Connected. Exactly-once delivery of accepted early data under loss is NOT decided.")
RULE = "rule instances = (rule, site) pairs and (field) coverage obligations; non-trivial = bound to a real site / field"
SS = 'StreamsState'

DO_ROOTS = ['Streams::open', 'SendStream::write_source', 'SendStream::finish', 'SendStream::reset', 'SendStream::set_priority', 'StreamsState::set_params']
UNDO_ROOT = 'StreamsState::zero_rtt_rejected'
# field -> reason (one named field each)
EXCEPTIONS = {
    'streams_blocked': 'advisory STREAMS_BLOCKED flag only; cleared when the frame is written; no effect on numbering, flow control or limits',
    'free_recv': 'pool of reusable Recv buffers; content-free',
    'events': 'application event queue is drained by poll(); early-stream events are superseded by the rejection error on the stream handles',
}


def self_field(v, f):
    return any(n[0] == 'field' and n[2] == f and n[1][0] == 'param' and n[1][2] == 'self' for n in walk(v))


def closure_bodies(F, roots, depth=5):
    seen = {}
    stack = [(r, 0) for r in roots]
    while stack:
        b, d = stack.pop()
        if b.id in seen or d > depth:
            continue
        seen[b.id] = b
        for c, t in F.callees(b, through_virtual=False):
            if t.crate == 'quinn_proto' and t.id not in seen:
                stack.append((t, d + 1))
    return seen


def rule_a(ctx):
    F = ctx.facts
    pdp = ctx.pfn('Connection::process_decrypted_packet')
    zr = pdp.calls_to('StreamsState::zero_rtt_rejected')
    ctx.floor('a', 'rejection_sites', len(zr), 1)
    eda = pdp.calls_to('Session::early_data_accepted')
    ctx.floor('a', 'acceptance_test_sites', len(eda), 1)
    for z in zr:
        # the rejection region = blocks dominated by the !early_data_accepted edge
        ok_edge = False
        for br in branches(F, pdp):
            inner, neg = peel_not(br.desc)
            if any(contains_site(inner, e) for e in eda):
                t_rej = br.target(1 if neg else 0)
                t_acc = br.target(0 if neg else 1)
                ok_edge = z.bb in pdp.reachable_from(t_rej, avoid=[br.bb]) and z.bb not in pdp.reachable_from(t_acc, avoid=[br.bb, z.bb] if False else [br.bb]) or pdp.dominates(t_rej, z.bb)
                # must-calls on the rejection edge, before rejoining the acceptance path
                join = [c.bb for c in pdp.calls_to('Connection::handle_peer_params')]
                for what, pats in (('zero_rtt_rejected', ['StreamsState::zero_rtt_rejected']), ('drain_sent_packets', ['SentPackets::into_values']), ('remove_in_flight', ['Connection::remove_in_flight'])):
                    p = path_avoiding(pdp, [t_rej], join, must_sites(F, pdp, pats, 0))
                    if what == 'remove_in_flight':
                        continue  # inside the (possibly empty) drain loop; covered by C12.a
                    ctx.check(p is None, 'a', 'rejection_must_' + what, pdp, z.where(), 'every path through the rejection branch passes %s' % what, 'the 0-RTT rejection branch can skip %s' % what)
                # pending = Retransmits::default()
                pend = [w for w in field_writes(F, 'PacketSpace', 'pending', crate='quinn_proto') if F.root_of(w.body).id == pdp.id and w.kind in ('assign', 'callresult') and w.place[1][-1][1] == 'pending']
                pend = [w for w in pend if w.bb in pdp.reachable_from(t_rej, avoid=join)]
                d = describer(F, pdp)
                okp = bool(pend) and any(('default' in D.render(d.rvalue(w.rv, w.bb, w.idx, 0) if w.rv else d.call_desc(w.call, 0))) for w in pend)
                if okp:
                    okp = path_avoiding(pdp, [t_rej], join, {w.bb for w in pend}) is None
                ctx.check(okp, 'a', 'rejection_discards_queued_frames', pdp, z.where(), 'spaces[Data].pending = Retransmits::default() on every rejection path',
                          'frames queued during 0-RTT (e.g. STOP_SENDING, RESET_STREAM for early streams) survive the rejection and leak into the fresh connection')
                acc = [w for w in field_writes(F, 'connection::Connection', 'accepted_0rtt', crate='quinn_proto') if F.root_of(w.body).id == pdp.id and w.kind == 'assign']
                ctx.check(len(acc) >= 2, 'a', 'accepted_flag_set_on_both_branches', pdp, z.where(), '%d stores' % len(acc), 'accepted_0rtt is not set on both outcomes')
                vr = pdp.calls_to('TransportParameters::validate_resumption_from')
                ctx.check(bool(vr) and all(v.bb in pdp.reachable_from(t_acc, avoid=[br.bb]) for v in vr), 'a', 'accepted_params_validated', pdp, z.where(), 'validate_resumption_from on the acceptance branch', 'resumed parameters are no longer validated when 0-RTT is accepted')
        ctx.check(ok_edge, 'a', 'rejection_on_not_accepted_edge', pdp, z.where(), 'zero_rtt_rejected only on !early_data_accepted', 'zero_rtt_rejected is not tied to the early_data_accepted() == false edge')
    who_may_call(ctx, 'a', 'zero_rtt_rejected_callers', ['StreamsState::zero_rtt_rejected'], ['Connection::process_decrypted_packet'], floor=1)


def rule_b(ctx):
    F = ctx.facts
    adt = F.adt('state::StreamsState')
    fields = [f[0] for f in adt['variants'][0]['fields']]
    do_bodies = closure_bodies(F, [ctx.pfn(r) for r in DO_ROOTS])
    undo_bodies = closure_bodies(F, [ctx.pfn(UNDO_ROOT)])
    sp = ctx.pfn('StreamsState::set_params')
    sp_bodies = closure_bodies(F, [sp])
    n_do = 0
    for f in fields:
        ws = [w for w in field_writes(F, 'state::StreamsState', f, crate='quinn_proto')]
        do_w = [w for w in ws if F.root_of(w.body).id in do_bodies]
        if not do_w:
            continue
        n_do += 1
        undo_w = [w for w in ws if F.root_of(w.body).id in undo_bodies]
        # plain re-initialisation by the set_params that follows the rejection: a direct store whose value does not depend on the old field value
        reinit = False
        for w, v in store_values(ctx, 'state::StreamsState', f):
            if F.root_of(w.body).id in sp_bodies and not self_field(v, f):
                reinit = True
        if undo_w or reinit:
            ctx.ok('b', 'undo_covers_field', UNDO_ROOT, undo_w[0].where() if undo_w else sp.where(), 'field %s: written by %d pre-handshake site(s), %s' % (f, len(do_w), 'reset in zero_rtt_rejected' if undo_w else 're-initialised by set_params'))
        elif f in EXCEPTIONS:
            ctx.ok('b', 'undo_covers_field', UNDO_ROOT, do_w[0].where(), 'field %s: exception — %s' % (f, EXCEPTIONS[f]))
        else:
            ctx.bad('b', 'undo_misses_field:' + f, ctx.pfn(UNDO_ROOT), do_w[0].where(),
                    'StreamsState.%s is modified by pre-handshake operations (%s) but neither reset by zero_rtt_rejected nor re-initialised by set_params: the connection does not behave like a fresh one after a rejected 0-RTT' % (f, sorted({F.root_of(w.body).short for w in do_w})[:3]))
    ctx.floor('b', 'fields_touched_before_handshake', n_do, 10)
    # set_params must re-initialise the per-connection limits plainly (not max with the remembered value)
    for f in ('max', 'initial_max_stream_data_uni', 'initial_max_stream_data_bidi_local', 'initial_max_stream_data_bidi_remote'):
        st = [(w, v) for w, v in store_values(ctx, 'state::StreamsState', f, in_fn=sp)]
        ok = bool(st) and all(not self_field(v, f) and v[0] != 'phi' for w, v in st)
        ctx.check(ok, 'b', 'set_params_reinitialises_' + f, sp, st[0][0].where() if st else sp.where(), 'plain assignment from the transport parameters', 'set_params merges %s with its previous (remembered) value instead of replacing it' % f)
    # the datagram queue is deliberately not cleared (datagrams are unreliable and not bound to early streams): recorded, not a rule
    ctx.info('b', 'DatagramState (outgoing queue) is not touched by the rejection branch; queued early datagrams are sent as 1-RTT datagrams. Not claimed either way (DESIGN section 7).')


def rule_c(ctx):
    F = ctx.facts
    r0 = ctx.pfn('StreamsState::retransmit_all_for_0rtt')
    rw = r0.calls_to('SendBuffer::retransmit_all_for_0rtt')
    ctx.floor('c', 'rewind_sites', len(rw), 1)
    for c in rw:
        # the rewind must not be conditional on the stream being (not) pending: only `fully acked && !fin_pending` (nothing sent) may skip it
        brs = [br for br in branches(F, r0) if r0.dominates(br.bb, c.bb) and c.bb not in r0.reachable_from(br.target(1), avoid=[br.bb]) | set() and D.has_call(br.desc, 'Send::is_pending')]
        skipping = []
        for br in branches(F, r0):
            if not r0.dominates(br.bb, c.bb):
                continue
            for v, t in br.edges:
                if c.bb not in r0.reachable_from(t, avoid=[br.bb]):
                    skipping.append(br)
        bad = [br for br in skipping if D.has_call(br.desc, 'Send::is_pending')]
        ctx.check(not bad, 'c', 'every_early_stream_rewound', r0, c.where(), 'rewind not conditional on is_pending()',
                  'streams that still have unsent data are not rewound after a Retry: their already-sent prefix is lost for good')
        ok_skip = [br for br in skipping if D.has_call(br.desc, 'SendBuffer::is_fully_acked') or D.has_field(br.desc, 'fin_pending') or br.desc[0] == 'discr']
        ctx.check(len(skipping) == len(ok_skip), 'c', 'rewind_skip_conditions', r0, c.where(), 'only `nothing sent yet` / missing entry skip the rewind', 'a new condition skips the 0-RTT rewind: %s' % [D.render(br.desc)[:60] for br in skipping if br not in ok_skip])
    sb = ctx.pfn('SendBuffer::retransmit_all_for_0rtt')
    st = [(w, v) for w, v in store_values(ctx, 'SendBuffer', 'unsent', in_fn=sb)]
    ctx.check(bool(st) and all(v[0] == 'const' and str(v[2]) == '0' for w, v in st), 'c', 'rewind_resets_unsent', sb, sb.where(), 'unsent = 0', 'SendBuffer rewind no longer resets `unsent` to 0')
    pdp = ctx.pfn('Connection::process_decrypted_packet')
    ctx.check(bool(pdp.calls_to('StreamsState::retransmit_all_for_0rtt')), 'c', 'retry_rewinds_early_streams', pdp, pdp.where(), 'Retry arm calls retransmit_all_for_0rtt', 'the Retry arm no longer re-queues early stream data')
    # ... and the control frames carried by the abandoned early packets (RESET_STREAM, STOP_SENDING, MAX_*) go back to `pending`
    r0s = pdp.calls_to('StreamsState::retransmit_all_for_0rtt')
    # the Retry arm's drain = the one followed by retransmit_all_for_0rtt (the other drain is the rejection branch, which must discard)
    drains = [c for c in pdp.calls_to('SentPackets::into_values') if any(x.bb in pdp.reachable_from(c.bb) for x in r0s)]
    ctx.floor('c', 'retry_drain_sites', len(drains), 1)
    for c in drains:
        rs = flow_sinks(F, c, ['BitOrAssign::bitor_assign', 'Retransmits::bitor_assign'], via_field='retransmits')
        ctx.check(bool(rs), 'c', 'retry_requeues_early_control_frames', pdp, c.where(), 'pending |= info.retransmits for every abandoned early packet',
                  'control frames sent in 0-RTT before the Retry are dropped: the abandoned packets retransmits are not merged back into spaces[Data].pending')


def rule_d(ctx):
    F = ctx.facts
    iz = ctx.pfn('Connection::init_0rtt')
    cons = [c for c in constructions(F, 'TransportParameters', 'TransportParameters', crate='quinn_proto') if F.root_of(c.body).id == iz.id]
    ctx.floor('d', 'remembered_params_literal', len(cons), 1)
    d = describer(F, iz)
    for c in cons:
        for fld in ('initial_src_cid', 'original_dst_cid', 'preferred_address', 'retry_src_cid', 'stateless_reset_token', 'min_ack_delay'):
            v = d.operand(c.field_op(fld), c.bb, c.idx)
            ctx.check(v[0] == 'agg' and v[2].endswith('None'), 'd', 'remembered_param_blanked_' + fld, iz, c.where(), '%s: None' % fld, 'remembered transport parameter %s is reused for 0-RTT: %s' % (fld, D.render(v)[:80]))
        for fld in ('ack_delay_exponent', 'max_ack_delay'):
            v = d.operand(c.field_op(fld), c.bb, c.idx)
            ctx.check('default' in D.render(v), 'd', 'remembered_param_defaulted_' + fld, iz, c.where(), '%s: default' % fld, 'remembered %s is reused for 0-RTT' % fld)
    sc = ctx.pfn('Connection::space_can_send')
    srv = [br for br in branches(F, sc) if br.desc[0] == 'call' and br.desc[1] == 'ConnectionSide::is_server']
    ctx.check(bool(srv), 'd', 'servers_never_send_0rtt', sc, sc.where(), 'is_server() in the no-keys test', 'servers can send 0-RTT packets')
    pp = ctx.pfn('Connection::populate_packet')
    z = [br for br in branches(F, pp, stop_named=True) if peel_not(br.desc)[0][0] == 'local' and peel_not(br.desc)[0][2] == 'is_0rtt']
    ctx.check(len(z) >= 2, 'd', 'zero_rtt_packets_restricted', pp, pp.where(), '%d is_0rtt guards (HANDSHAKE_DONE, CRYPTO)' % len(z), '0-RTT packets are no longer kept free of HANDSHAKE_DONE / CRYPTO frames')


def rule_e(ctx):
    F = ctx.facts
    fa = ctx.qfn('State::forward_app_events')
    ok = bool([br for br in branches(F, fa) if D.has_call(br.desc, 'Connection::accepted_0rtt')]) and bool(fa.calls_to('connection::wake_all', 'wake_all'))
    ctx.check(ok, 'e', 'rejection_wakes_blocked_stream_tasks', fa, fa.where(), 'Connected && !accepted_0rtt -> wake_all(blocked_*)', 'tasks blocked on early streams are not woken when 0-RTT turns out rejected')
    c0 = ctx.qfn('State::check_0rtt')
    rd = [y for _, x in ret_descs(F, c0) for y in flat(x)]
    ok = any(y[0] == 'agg' and y[2].endswith('Err') for y in rd) and bool([br for br in branches(F, c0) if D.has_call(br.desc, 'Connection::accepted_0rtt') or D.has_call(br.desc, 'Connection::is_handshaking')])
    ctx.check(ok, 'e', 'check_0rtt_reports_rejection', c0, c0.where(), 'Err(()) when handshake done and !accepted_0rtt', 'check_0rtt no longer reports a rejected 0-RTT')


def run(ctx):
    rule_a(ctx)
    rule_b(ctx)
    rule_c(ctx)
    rule_d(ctx)
    rule_e(ctx)
