"""C17 — 0-RTT accepted => once; rejected => vanishes (structural part)."""
from engine.rulelib import *
from engine import desc as D

EXPLANATION = ("Static rules over quinn-proto/quinn MIR: (a) the rejection branch (has_0rtt && !early_data_accepted) must-calls: accepted_0rtt = false, "
               "streams.zero_rtt_rejected(), pending = Retransmits::default(), drain of the Data-space sent packets with remove_in_flight; the acceptance branch "
               "validates the resumed parameters before applying the new ones; the `pending = default()` store is the last write to a packet space's pending set on the rejection branch (nothing is re-queued while the early packets are dropped); (b) UNDO-COVERS-DO on StreamsState: every field written (transitively) by the "
               "operations available before the handshake completes (open, write, finish, reset, set_priority, set_params with remembered parameters) is written by "
               "zero_rtt_rejected or plainly re-initialised by the following set_params, except single named fields with a reason; (c) Retry re-queues every early "
               "stream unconditionally (rewinds its SendBuffer) and the packets' control frames; a stream in SendState::DataSent (FIN already sent in 0-RTT, possibly without data) is never skipped and gets fin_pending set again; every rewound stream is queued unless is_pending(), sampled before the rewind / FIN mark; (d) remembered parameters: non-cacheable fields blanked in init_0rtt; "
               "servers never send 0-RTT; 0-RTT packets carry no ACK/CRYPTO/HANDSHAKE_DONE; (e) async mapping: stream operations of 0-RTT streams consult check_0rtt "
               "(shared with C11.e) and blocked tasks are woken on Connected; EVERY site of the async layer that hands the id of a stream handle to the protocol stream accessors "
               "(Connection::send_stream / recv_stream; includes the implicit finish/stop of Drop) is unreachable when the handle's is_0rtt mark is set and check_0rtt() "
               "answered Err - the id of a rejected early stream names a fresh stream after the numbering restart - and stays reachable for accepted and post-handshake handles "
               "Exactly-once delivery of accepted early data under loss is NOT decided.")
RULE = "rule instances = (rule, site) pairs and (field) coverage obligations; non-trivial = bound to a real site / field"
SS = 'StreamsState'

DO_ROOTS = ['Streams::open', 'SendStream::write_source', 'SendStream::finish', 'SendStream::reset', 'SendStream::set_priority', 'StreamsState::set_params']
UNDO_ROOT = 'StreamsState::zero_rtt_rejected'
# field -> reason (one named field each)
EXCEPTIONS = {
    'streams_blocked': 'advisory STREAMS_BLOCKED flag only; cleared when the frame is written; no effect on numbering, flow control or limits',
    'free_recv': 'pool of reusable Recv buffers; content-free',
    'events': 'application event queue is drained by poll(); early-stream events are superseded by the rejection error on the stream handles',
}


def self_field(v, f):
    return any(n[0] == 'field' and n[2] == f and n[1][0] == 'param' and n[1][2] == 'self' for n in walk(v))


def closure_bodies(F, roots, depth=5):
    seen = {}
    stack = [(r, 0) for r in roots]
    while stack:
        b, d = stack.pop()
        if b.id in seen or d > depth:
            continue
        seen[b.id] = b
        for c, t in F.callees(b, through_virtual=False):
            if t.crate == 'quinn_proto' and t.id not in seen:
                stack.append((t, d + 1))
    return seen


def const_bool(v, b):
    return v[0] == 'const' and v[1] == 'int' and str(v[2]) == ('1' if b else '0')


def bool_norm(d):
    """(inner, negated): a bool descriptor modulo `!` and `== / != true / false`"""
    neg = False
    while True:
        d, n = peel_not(d)
        neg = neg != n
        if d[0] == 'bin' and d[1] in ('Eq', 'Ne'):
            for x, y in ((d[2], d[3]), (d[3], d[2])):
                if const_bool(x, True) or const_bool(x, False):
                    if const_bool(x, d[1] == 'Ne'):
                        neg = not neg
                    d = y
                    break
            else:
                return d, neg
        else:
            return d, neg


def bool_tests(F, body):
    """[(Branch, inner, target when inner is true, target when inner is false)]: the bool discriminant of every branch,
    normalised modulo `!` and `== true/false`"""
    out = []
    for br in branches(F, body):
        inner, neg = bool_norm(br.desc)
        out.append((br, inner, br.target(0 if neg else 1), br.target(1 if neg else 0)))
    return out


def bool_call_edges(F, body, *shorts):
    """[(Branch, target when the call returned true, target when it returned false)] for every branch whose
    discriminant IS the bool result of a call to one of `shorts` (modulo `!` and `== true/false`)."""
    return [(br, t, f) for br, inner, t, f in bool_tests(F, body)
            if inner[0] == 'call' and any(inner[1] == s or path_matches(inner[2], s) for s in shorts)]


def skipping_branches(F, body, bb):
    """branches that dominate `bb` and have an edge from which `bb` cannot be reached without re-evaluating them"""
    out = []
    for br in branches(F, body):
        if br.bb != bb and body.dominates(br.bb, bb) and any(bb not in body.reachable_from(t, avoid=[br.bb]) for v, t in br.edges):
            out.append(br)
    return out


def is_loop_step(br):
    """`for x in ..` lowering: the discriminant of Iterator::next"""
    return br.desc[0] == 'discr' and br.desc[1][0] == 'call' and br.desc[1][1].endswith('::next')


def unconditional_store(F, body, bb):
    """the block lies on every entry -> normal-return path (a `for` body counts when only its loop test skips it)"""
    if path_avoiding(body, [0], body.return_blocks(), {bb}) is None:
        return True
    sk = skipping_branches(F, body, bb)
    return bool(sk) and all(is_loop_step(br) for br in sk)


def rule_a(ctx):
    F = ctx.facts
    pdp = ctx.pfn('Connection::process_decrypted_packet')
    zr = pdp.calls_to('StreamsState::zero_rtt_rejected')
    ctx.floor('a', 'rejection_sites', len(zr), 1)
    eda = pdp.calls_to('Session::early_data_accepted')
    ctx.floor('a', 'acceptance_test_sites', len(eda), 1)
    for z in zr:
        # the rejection region = blocks dominated by the !early_data_accepted edge
        ok_edge = False
        for br in branches(F, pdp):
            inner, neg = peel_not(br.desc)
            if any(contains_site(inner, e) for e in eda):
                t_rej = br.target(1 if neg else 0)
                t_acc = br.target(0 if neg else 1)
                ok_edge = z.bb in pdp.reachable_from(t_rej, avoid=[br.bb]) and z.bb not in pdp.reachable_from(t_acc, avoid=[br.bb, z.bb] if False else [br.bb]) or pdp.dominates(t_rej, z.bb)
                # must-calls on the rejection edge, before rejoining the acceptance path
                join = [c.bb for c in pdp.calls_to('Connection::handle_peer_params')]
                for what, pats in (('zero_rtt_rejected', ['StreamsState::zero_rtt_rejected']), ('drain_sent_packets', ['SentPackets::into_values']), ('remove_in_flight', ['Connection::remove_in_flight'])):
                    p = path_avoiding(pdp, [t_rej], join, must_sites(F, pdp, pats, 0))
                    if what == 'remove_in_flight':
                        continue  # inside the (possibly empty) drain loop; covered by C12.a
                    ctx.check(p is None, 'a', 'rejection_must_' + what, pdp, z.where(), 'every path through the rejection branch passes %s' % what, 'the 0-RTT rejection branch can skip %s' % what)
                # pending = Retransmits::default()
                pend = [w for w in field_writes(F, 'PacketSpace', 'pending', crate='quinn_proto') if F.root_of(w.body).id == pdp.id and w.kind in ('assign', 'callresult') and w.place[1][-1][1] == 'pending']
                pend = [w for w in pend if w.bb in pdp.reachable_from(t_rej, avoid=join)]
                d = describer(F, pdp)
                okp = bool(pend) and any(('default' in D.render(d.rvalue(w.rv, w.bb, w.idx, 0) if w.rv else d.call_desc(w.call, 0))) for w in pend)
                if okp:
                    okp = path_avoiding(pdp, [t_rej], join, {w.bb for w in pend}) is None
                ctx.check(okp, 'a', 'rejection_discards_queued_frames', pdp, z.where(), 'spaces[Data].pending = Retransmits::default() on every rejection path',
                          'frames queued during 0-RTT (e.g. STOP_SENDING, RESET_STREAM for early streams) survive the rejection and leak into the fresh connection')
                # ... and nothing is put back afterwards: on every rejection path that store is the LAST write to a `pending` of a packet space
                # before the acceptance path is rejoined (e.g. `pending |= info.retransmits` while the early packets are dropped re-queues
                # the control frames they carried: that is the Retry treatment, not the rejection one)
                dflt = [w for w in pend if 'default' in D.render(d.rvalue(w.rv, w.bb, w.idx, 0) if w.rv else d.call_desc(w.call, 0))]
                dbb = {w.bb for w in dflt}
                r_rej = pdp.reachable_from(t_rej, avoid=join + [br.bb])
                after_discard = lambda bb, idx: (bb in r_rej and ((bb in dbb and any(idx > w.idx for w in dflt if w.bb == bb)) or
                                                                  (bb not in dbb and path_avoiding(pdp, [bb], join, dbb) is not None)))
                requeue = [w for w in field_writes(F, 'PacketSpace', 'pending', crate='quinn_proto')
                           if w.body.id == pdp.id and not any(w.bb == x.bb and w.idx == x.idx for x in dflt) and after_discard(w.bb, w.idx)]
                writers = {F.root_of(w.body).id for w in field_writes(F, 'PacketSpace', 'pending', crate='quinn_proto')} - {pdp.id}
                via = [(k, t) for k, t in F.callees(pdp, through_virtual=False) if t.crate == 'quinn_proto' and after_discard(k.bb, term_idx(pdp, k.bb))
                       and writers & set(closure_bodies(F, [t], depth=3))]
                ctx.check(bool(dflt) and not requeue and not via, 'a', 'rejection_discard_is_final', pdp, (requeue[0] if requeue else via[0][0] if via else z).where(),
                          'no write to PacketSpace.pending between `pending = Retransmits::default()` and the end of the rejection branch',
                          'frames are queued again after the rejection branch emptied spaces[Data].pending (%s): control frames of the rejected early packets (STOP_SENDING, RESET_STREAM, MAX_*) '
                          'are replayed on the fresh connection' % ('; '.join(['%s at %s' % (w.kind, w.where()) for w in requeue[:3]] + ['via %s' % t.short for k, t in via[:3]]) or 'no default store'))
                ctx.floor('a', 'acceptance_join_sites', len(join), 1)
                # accepted_0rtt: `false` on every rejection path, `true` on every acceptance path (or the test result itself, stored before the branch)
                acc = store_values(ctx, 'connection::Connection', 'accepted_0rtt', in_fn=pdp)
                r_rej = pdp.reachable_from(t_rej, avoid=join + [br.bb])
                r_acc = pdp.reachable_from(t_acc, avoid=join + [br.bb])
                as_test = [w for w, v in acc if v == inner and pdp.dominates(w.bb, br.bb)]
                s_rej = [(w, v) for w, v in acc if w.bb in r_rej]
                s_acc = [(w, v) for w, v in acc if w.bb in r_acc]
                ok_rej = all(const_bool(v, False) for w, v in s_rej) and (bool(as_test) or (bool(s_rej) and path_avoiding(pdp, [t_rej], join, {w.bb for w, v in s_rej}) is None))
                ok_acc = all(const_bool(v, True) for w, v in s_acc) and (bool(as_test) or (bool(s_acc) and path_avoiding(pdp, [t_acc], join, {w.bb for w, v in s_acc}) is None))
                ctx.check(bool(join) and ok_rej and ok_acc, 'a', 'accepted_flag_set_on_both_branches', pdp, z.where(), 'accepted_0rtt = false on every rejection path, = true on every acceptance path (%d stores)' % len(acc),
                          'accepted_0rtt is not set to the outcome of the acceptance test: %s' % ('the rejection branch does not store `false` on every path' if not ok_rej else 'the acceptance branch does not store `true` on every path'))
                # the resumed parameters are validated against the REMEMBERED ones: on the acceptance edge only, and on every path before handle_peer_params replaces them
                vr = pdp.calls_to('TransportParameters::validate_resumption_from')
                okv = bool(vr) and bool(join) and all(v.bb in r_acc and v.bb not in r_rej for v in vr) \
                    and path_avoiding(pdp, [t_acc], join, {v.bb for v in vr}) is None \
                    and all(len(v.args) > 1 and arg_desc(F, v, 1) == ('field', ('param', 1, 'self'), 'peer_params') for v in vr)
                ctx.check(okv, 'a', 'accepted_params_validated', pdp, z.where(), 'validate_resumption_from(&self.peer_params) on every acceptance path before handle_peer_params', 'resumed parameters are no longer validated against the remembered ones before these are replaced, when 0-RTT is accepted')
        ctx.check(ok_edge, 'a', 'rejection_on_not_accepted_edge', pdp, z.where(), 'zero_rtt_rejected only on !early_data_accepted', 'zero_rtt_rejected is not tied to the early_data_accepted() == false edge')
    who_may_call(ctx, 'a', 'zero_rtt_rejected_callers', ['StreamsState::zero_rtt_rejected'], ['Connection::process_decrypted_packet'], floor=1)


def rule_b(ctx):
    F = ctx.facts
    adt = F.adt('state::StreamsState')
    fields = [f[0] for f in adt['variants'][0]['fields']]
    do_bodies = closure_bodies(F, [ctx.pfn(r) for r in DO_ROOTS])
    undo_bodies = closure_bodies(F, [ctx.pfn(UNDO_ROOT)])
    sp = ctx.pfn('StreamsState::set_params')
    sp_bodies = closure_bodies(F, [sp])
    n_do = 0
    for f in fields:
        ws = [w for w in field_writes(F, 'state::StreamsState', f, crate='quinn_proto')]
        do_w = [w for w in ws if F.root_of(w.body).id in do_bodies]
        if not do_w:
            continue
        n_do += 1
        undo_w = [w for w in ws if F.root_of(w.body).id in undo_bodies]
        # plain re-initialisation by the set_params that follows the rejection: a direct store whose value does not depend on the old field value
        reinit = False
        for w, v in store_values(ctx, 'state::StreamsState', f):
            if F.root_of(w.body).id in sp_bodies and not self_field(v, f):
                reinit = True
        if undo_w or reinit:
            ctx.ok('b', 'undo_covers_field', UNDO_ROOT, undo_w[0].where() if undo_w else sp.where(), 'field %s: written by %d pre-handshake site(s), %s' % (f, len(do_w), 'reset in zero_rtt_rejected' if undo_w else 're-initialised by set_params'))
        elif f in EXCEPTIONS:
            ctx.ok('b', 'undo_covers_field', UNDO_ROOT, do_w[0].where(), 'field %s: exception — %s' % (f, EXCEPTIONS[f]))
        else:
            ctx.bad('b', 'undo_misses_field:' + f, ctx.pfn(UNDO_ROOT), do_w[0].where(),
                    'StreamsState.%s is modified by pre-handshake operations (%s) but neither reset by zero_rtt_rejected nor re-initialised by set_params: the connection does not behave like a fresh one after a rejected 0-RTT' % (f, sorted({F.root_of(w.body).short for w in do_w})[:3]))
    ctx.floor('b', 'fields_touched_before_handshake', n_do, 10)
    # set_params must re-initialise the per-connection limits plainly (not max with the remembered value)
    for f in ('max', 'initial_max_stream_data_uni', 'initial_max_stream_data_bidi_local', 'initial_max_stream_data_bidi_remote'):
        st = [(w, v) for w, v in store_values(ctx, 'state::StreamsState', f, in_fn=sp)]
        ok = bool(st) and all(not self_field(v, f) and v[0] != 'phi' for w, v in st)
        # ... and unconditionally: `if new > old { old = new }` is max(old, new) with a plain stored value
        cond = [w for w, v in st if F.root_of(w.body).id != w.body.id or not unconditional_store(F, sp, w.bb)]
        ctx.check(ok and not cond, 'b', 'set_params_reinitialises_' + f, sp, (cond[0] if cond else st[0][0]).where() if st else sp.where(), 'plain unconditional assignment from the transport parameters',
                  'set_params merges %s with its previous (remembered) value instead of replacing it%s' % (f, ' (the store is conditional)' if cond else ''))
    # the datagram queue is deliberately not cleared (datagrams are unreliable and not bound to early streams): recorded, not a rule
    ctx.info('b', 'DatagramState (outgoing queue) is not touched by the rejection branch; queued early datagrams are sent as 1-RTT datagrams. Not claimed either way (DESIGN section 7).')


def _plain_local(op):
    return op[1][0] if op[0] in ('c', 'm') and not op[1][1] else None


def _copied_local(body, op, hops=3):
    """(source local, block of the last copy) of an operand that is a plain local reached through single-definition copies"""
    l, at = _plain_local(op), None
    for _ in range(hops):
        if l is None:
            return None, None
        ds = body.defs_of(l)
        if len(ds) == 1 and ds[0][0] == 'stmt' and ds[0][3][0] == 'use' and _plain_local(ds[0][3][1]) is not None:
            l, at = _plain_local(ds[0][3][1]), ds[0][1]
        else:
            break
    return l, at


def _is_int(op, n):
    return op[0] == 'k' and op[1] == 'int' and str(op[2]) == str(n)


def counting_loop_test(F, body, br, site):
    """`let mut i = 0; while i < self.next[..] { .. i += 1 .. }` == `for i in 0..self.next[..]` for the call `site` in its body:
    the branch is the test of a counter that starts at 0, is bumped by exactly 1 exactly once on every way back to the test,
    is compared `<` with self.next[..] (not written in this function), and whose value AT THE TEST numbers the stream handed to `site`
    (StreamId::new(.., i) is evaluated before the bump).  Anything else (other start, other step, `<=`, `i + 1 <`, bump before the
    id is built, a way round the bump) is not this shape."""
    t_true, t_false = br.target(1), br.target(0)
    in_true = site.bb in body.reachable_from(t_true, avoid=[br.bb])
    if in_true == (site.bb in body.reachable_from(t_false, avoid=[br.bb])):
        return False
    t_in = t_true if in_true else t_false
    # the bool switched on: one comparison (through `!`)
    l, truth = _plain_local(body.blocks[br.bb]['t'][1]), in_true
    for _ in range(4):
        ds = body.defs_of(l) if l is not None else []
        if len(ds) != 1 or ds[0][0] != 'stmt':
            return False
        _, cbb, cidx, rv = ds[0]
        if rv[0] == 'un' and rv[1] == 'Not':
            l, truth = _plain_local(rv[2]), not truth
        elif rv[0] == 'use':
            l = _plain_local(rv[1])
        else:
            break
    if rv[0] != 'bin' or rv[1] not in ('Lt', 'Le', 'Gt', 'Ge') or not (cbb == br.bb or body.succ[cbb] == [br.bb]):
        return False
    op, a, b = rv[1], rv[2], rv[3]
    if op in ('Gt', 'Ge'):
        op, a, b = {'Gt': 'Lt', 'Ge': 'Le'}[op], b, a
    if not truth:
        op, a, b = {'Lt': 'Le', 'Le': 'Lt'}[op], b, a
    if op != 'Lt':
        return False
    # bound: self.next[..], not written by this function
    if describer(F, body).operand(b, cbb, cidx) != ('index', ('field', ('param', 1, 'self'), 'next')):
        return False
    if any(F.root_of(w.body).id == body.id for w in field_writes(F, 'state::StreamsState', 'next', crate='quinn_proto')):
        return False
    # counter: exactly `= 0` before the loop and `= counter + 1` in it, never borrowed
    i, copied_at = _copied_local(body, a)
    if i is None or i <= body.argc:
        return False
    ds = body.defs_of(i)
    init = [x for x in ds if x[0] == 'stmt' and x[3][0] == 'use' and _is_int(x[3][1], 0)]
    bump = []
    for x in ds:
        if x[0] != 'stmt' or x in init:
            continue
        rv = x[3]
        if rv[0] == 'use' and rv[1][0] in ('c', 'm') and [e[:2] for e in rv[1][1][1]] == [['f', '0']]:   # (counter + 1 checked).0
            td = body.defs_of(rv[1][1][0])
            rv = td[0][3] if len(td) == 1 and td[0][0] == 'stmt' else rv
        if rv[0] == 'bin' and rv[1] in ('Add', 'AddWithOverflow', 'AddUnchecked') and \
                ((_plain_local(rv[2]) == i and _is_int(rv[3], 1)) or (_plain_local(rv[3]) == i and _is_int(rv[2], 1))):
            bump.append(x)
    if len(ds) != 2 or len(init) != 1 or len(bump) != 1:
        return False
    if any(st[0] == '=' and st[2][0] in ('ref', 'ptr') and st[2][2][0] == i for _, _, st in body.stmts()):
        return False
    init_bb, bump_bb = init[0][1], bump[0][1]
    loop = body.reachable_from(t_in, avoid=[br.bb])
    if not body.dominates(init_bb, br.bb) or init_bb in loop or bump_bb not in loop or not body.dominates(br.bb, bump_bb):
        return False
    if copied_at is not None and (not body.dominates(copied_at, br.bb) or {init_bb, bump_bb} & body.reachable_from(copied_at, avoid=[br.bb])):
        return False
    # exactly one bump per iteration
    if path_avoiding(body, [t_in], [br.bb], {bump_bb}) is not None or any(bump_bb in body.reachable_from(x, avoid=[br.bb]) for x in body.succ[bump_bb]):
        return False
    # the stream handed to `site` is numbered by the value the counter had at the test
    recv = arg_desc(F, site, 0)
    after_bump = body.reachable_from(body.succ[bump_bb], avoid=[br.bb]) | {bump_bb}
    for k in body.calls_to('StreamId::new'):
        if len(k.args) == 3 and body.dominates(br.bb, k.bb) and body.dominates(k.bb, site.bb) and k.bb not in after_bump \
                and any(x[0] == 'call' and x[1] == 'StreamId::new' and x[-1] == k.bb for x in walk(recv)):
            src, at = _copied_local(body, k.args[2])
            if src == i and (at is None or (at not in after_bump and body.dominates(br.bb, at))):
                return True
    return False


def rule_c(ctx):
    F = ctx.facts
    r0 = ctx.pfn('StreamsState::retransmit_all_for_0rtt')
    rw = r0.calls_to('SendBuffer::retransmit_all_for_0rtt')
    ctx.floor('c', 'rewind_sites', len(rw), 1)
    for c in rw:
        # the rewind must not be conditional on the stream being (not) pending: only `fully acked && !fin_pending` (nothing sent) may skip it
        brs = [br for br in branches(F, r0) if r0.dominates(br.bb, c.bb) and c.bb not in r0.reachable_from(br.target(1), avoid=[br.bb]) | set() and D.has_call(br.desc, 'Send::is_pending')]
        skipping = []
        for br in branches(F, r0):
            if not r0.dominates(br.bb, c.bb):
                continue
            for v, t in br.edges:
                if c.bb not in r0.reachable_from(t, avoid=[br.bb]):
                    skipping.append(br)
        bad = [br for br in skipping if D.has_call(br.desc, 'Send::is_pending')]
        ctx.check(not bad, 'c', 'every_early_stream_rewound', r0, c.where(), 'rewind not conditional on is_pending()',
                  'streams that still have unsent data are not rewound after a Retry: their already-sent prefix is lost for good')
        ok_skip = [br for br in skipping if D.has_call(br.desc, 'SendBuffer::is_fully_acked') or D.has_field(br.desc, 'fin_pending') or br.desc[0] == 'discr' or counting_loop_test(F, r0, br, c)]
        ctx.check(len(skipping) == len(ok_skip), 'c', 'rewind_skip_conditions', r0, c.where(), 'only `nothing sent yet` / missing entry skip the rewind', 'a new condition skips the 0-RTT rewind: %s' % [D.render(br.desc)[:60] for br in skipping if br not in ok_skip])
    sb = ctx.pfn('SendBuffer::retransmit_all_for_0rtt')
    st = [(w, v) for w, v in store_values(ctx, 'SendBuffer', 'unsent', in_fn=sb)]
    ctx.check(bool(st) and all(v[0] == 'const' and str(v[2]) == '0' and w.body.id == sb.id and unconditional_store(F, sb, w.bb) for w, v in st), 'c', 'rewind_resets_unsent', sb, sb.where(), 'unsent = 0 on every path',
              'SendBuffer rewind no longer resets `unsent` to 0 unconditionally')
    pdp = ctx.pfn('Connection::process_decrypted_packet')
    r0s = pdp.calls_to('StreamsState::retransmit_all_for_0rtt')
    # the Retry arm's drain = the one followed by retransmit_all_for_0rtt (the other drain is the rejection branch, which must discard)
    r0b = {x.bb for x in r0s}
    after = [c for c in pdp.calls_to('SentPackets::into_values') if pdp.reachable_from(c.bb) & r0b]
    before = [c for c in pdp.calls_to('SentPackets::into_values') if c not in after and path_avoiding(pdp, [0], [c.bb], r0b) is None]
    drains = after + before
    # every path that abandons the early packets (passes the drain) also rewinds the early streams (after it, or already before it)
    esc = None
    for c in after:
        esc = esc or must_follow(F, pdp, c.bb, ['StreamsState::retransmit_all_for_0rtt'], 0)
    ctx.check(bool(r0s) and bool(drains) and esc is None, 'c', 'retry_rewinds_early_streams', pdp, r0s[0].where() if r0s else pdp.where(), 'Retry arm: the drain of the early packets is always followed by retransmit_all_for_0rtt',
              'the Retry arm no longer re-queues early stream data on every path: %s' % (fmt_path(pdp, esc) if esc else 'no retransmit_all_for_0rtt call after the drain'))
    # ... and the control frames carried by the abandoned early packets (RESET_STREAM, STOP_SENDING, MAX_*) go back to `pending`
    ctx.floor('c', 'retry_drain_sites', len(drains), 1)
    for c in drains:
        rs = flow_sinks(F, c, ['BitOrAssign::bitor_assign', 'Retransmits::bitor_assign'], via_field='retransmits')
        ctx.check(bool(rs), 'c', 'retry_requeues_early_control_frames', pdp, c.where(), 'pending |= info.retransmits for every abandoned early packet',
                  'control frames sent in 0-RTT before the Retry are dropped: the abandoned packets retransmits are not merged back into spaces[Data].pending')


def rule_d(ctx):
    F = ctx.facts
    iz = ctx.pfn('Connection::init_0rtt')
    cons = [c for c in constructions(F, 'TransportParameters', 'TransportParameters', crate='quinn_proto') if F.root_of(c.body).id == iz.id]
    ctx.floor('d', 'remembered_params_literal', len(cons), 1)
    d = describer(F, iz)
    for c in cons:
        for fld in ('initial_src_cid', 'original_dst_cid', 'preferred_address', 'retry_src_cid', 'stateless_reset_token', 'min_ack_delay'):
            v = d.operand(c.field_op(fld), c.bb, c.idx)
            ctx.check(v[0] == 'agg' and v[2].endswith('None'), 'd', 'remembered_param_blanked_' + fld, iz, c.where(), '%s: None' % fld, 'remembered transport parameter %s is reused for 0-RTT: %s' % (fld, D.render(v)[:80]))
        for fld in ('ack_delay_exponent', 'max_ack_delay'):
            v = d.operand(c.field_op(fld), c.bb, c.idx)
            ctx.check('default' in D.render(v), 'd', 'remembered_param_defaulted_' + fld, iz, c.where(), '%s: default' % fld, 'remembered %s is reused for 0-RTT' % fld)
    sc = ctx.pfn('Connection::space_can_send')
    # when the space has no keys of its own, a server leaves with SendableFrames::empty(): the is_server()==true edge never reaches can_send
    srv = bool_call_edges(F, sc, 'ConnectionSide::is_server', 'Side::is_server')
    snd = {c.bb for c in sc.calls_to('PacketSpace::can_send', 'Connection::can_send_1rtt')}
    emp = {c.bb for c in sc.calls_to('SendableFrames::empty')}
    space_keys = lambda br: any(x[0] == 'call' and x[3] and x[3][0][0] == 'field' and x[3][0][2] == 'crypto' and D.has_field(x[3][0], 'spaces') for x in walk(br.desc))
    nokeys = [(br, t, f) for br, t, f in bool_call_edges(F, sc, 'Option::is_none') if space_keys(br)] + [(br, f, t) for br, t, f in bool_call_edges(F, sc, 'Option::is_some') if space_keys(br)]
    ok = bool(srv) and bool(snd) and bool(emp) and bool(nokeys)
    for br, t_srv, t_cli in srv:
        ok = ok and not (sc.reachable_from(t_srv, avoid=[br.bb]) & snd) and bool(sc.reachable_from(t_cli, avoid=[br.bb]) & snd) \
            and path_avoiding(sc, [t_srv], sc.return_blocks(), emp) is None
        # the test only matters (and is only allowed to deny sending) when the space has no keys
        ok = ok and any(sc.dominates(t_none, br.bb) and br.bb not in sc.reachable_from(t_some, avoid=[nb.bb]) for nb, t_none, t_some in nokeys)
    ctx.check(ok, 'd', 'servers_never_send_0rtt', sc, srv[0][0].where() if srv else sc.where(), 'no keys && is_server() -> SendableFrames::empty(), clients go on to can_send', 'servers can send 0-RTT packets (or clients no longer can)')
    pp = ctx.pfn('Connection::populate_packet')
    z = [br for br in branches(F, pp, stop_named=True) if peel_not(br.desc)[0][0] == 'local' and peel_not(br.desc)[0][2] == 'is_0rtt']
    ctx.check(len(z) >= 2, 'd', 'zero_rtt_packets_restricted', pp, pp.where(), '%d is_0rtt guards (HANDSHAKE_DONE, CRYPTO)' % len(z), '0-RTT packets are no longer kept free of HANDSHAKE_DONE / CRYPTO frames')


def path_avoiding_cut(body, starts, goals, avoid, cut):
    """path_avoiding on the graph where every block in `cut` only continues to the successors listed for it"""
    avoid, goals = set(avoid), set(goals)
    prev = {s: None for s in starts if s not in avoid}
    q = list(prev)
    while q:
        b = q.pop(0)
        if b in goals:
            path = []
            while b is not None:
                path.append(b)
                b = prev[b]
            return path[::-1]
        for s in (cut[b] if b in cut else body.succ[b]):
            if s not in avoid and s not in prev:
                prev[s] = b
                q.append(s)
    return None


def side_cut(F, body, client):
    """{branch block: [the only successor]} for the branches whose bool discriminant is `<connection>.side().is_client()` /
    `.is_server()` (modulo `!`, `== true/false`), in the scenario where the connection is a client (or a server)"""
    cut = {}
    for name, says_client in (('Side::is_client', True), ('Side::is_server', False)):
        for br, t, f in bool_call_edges(F, body, name):
            inner = bool_norm(br.desc)[0]
            if inner[3] and D.has_call(inner[3][0], 'Connection::side'):
                cut[br.bb] = [t if says_client == client else f]
    return cut


def rule_e(ctx):
    F = ctx.facts
    fa = ctx.qfn('State::forward_app_events')
    acc = bool_call_edges(F, fa, 'Connection::accepted_0rtt')
    ctx.floor('e', 'connected_acceptance_tests', len(acc), 1)
    wakes = [(c, arg_desc(F, c, 0)) for c in fa.calls_to('connection::wake_all', 'connection::wake_all_notify')]
    client_cut = side_cut(F, fa, client=True)
    for m in ('blocked_writers', 'blocked_readers', 'stopped'):
        ok = bool(acc)
        why = 'no branch on accepted_0rtt()'
        for br, t_acc, t_rej in acc:
            # wake sites of this waker map that only the accepted_0rtt()==false edge leads to
            ws = {c.bb for c, a in wakes if a == ('field', ('param', 1, 'self'), m) and fa.dominates(br.bb, c.bb) and c.bb in fa.reachable_from(t_rej, avoid=[br.bb])}
            if not ws:
                ok, why = False, 'no wake of self.%s on the accepted_0rtt() == false edge' % m
                continue
            # only a client holds rejected early streams (check_0rtt answers Err for clients only): the obligation is on the paths of
            # the scenario `side().is_client()`, wherever that test sits relative to the acceptance test (`c && d` == `d && c`, both pure getters)
            p = path_avoiding_cut(fa, [t_rej], set(fa.return_blocks()) | {br.bb}, ws, client_cut)
            if p is not None:
                ok, why = False, 'a path from the accepted_0rtt() == false edge avoids the wake of self.%s: %s' % (m, fmt_path(fa, p))
        ctx.check(ok, 'e', 'rejection_wakes_blocked_stream_tasks', fa, acc[0][0].where() if acc else fa.where(), 'Connected && !accepted_0rtt -> every task in self.%s is woken' % m,
                  'tasks blocked on early streams (%s) are not woken when 0-RTT turns out rejected: %s' % (m, why))
    c0 = ctx.qfn('State::check_0rtt')
    errs = effect_blocks(ctx, c0, variant=('Result', 'Err'))
    oks = effect_blocks(ctx, c0, variant=('Result', 'Ok'))
    acc = bool_call_edges(F, c0, 'Connection::accepted_0rtt')
    ok = bool(errs) and bool(oks) and bool(acc)
    for br, t_acc, t_rej in acc:
        # accepted -> Ok(()) always; not accepted -> Err(()) possible (handshake done, client)
        ok = ok and not (c0.reachable_from(t_acc) & errs) and bool(c0.reachable_from(t_rej) & errs) and path_avoiding(c0, [t_acc], c0.return_blocks(), oks) is None
    for br, t_hs, t_done in bool_call_edges(F, c0, 'Connection::is_handshaking'):
        ok = ok and not (c0.reachable_from(t_hs) & errs)
    # the Err must be what is returned
    rd = [y for _, x in ret_descs(F, c0) for y in flat(x)]
    ok = ok and any(y[0] == 'agg' and y[2].endswith('Err') for y in rd) and any(y[0] == 'agg' and y[2].endswith('Ok') for y in rd)
    ctx.check(ok, 'e', 'check_0rtt_reports_rejection', c0, c0.where(), 'Err(()) only when !accepted_0rtt (handshake done, client); Ok(()) when accepted', 'check_0rtt no longer reports exactly a rejected 0-RTT')


# ---------------------------------------------------------------------------------------------------------------
# (e) stale early handles are inert: after a rejection the stream ids restart, so the id held by a 0-RTT handle names
# a FRESH stream.  Every operation of the async layer that hands the id of a stream handle to the protocol stream
# accessors must therefore not get there when the handle is marked early and check_0rtt() reports the rejection.
HANDLE_ID, HANDLE_MARK = 'stream', 'is_0rtt'      # fields of quinn::{SendStream, RecvStream}
PROTO_STREAM_ACCESSORS = ['quinn_proto::Connection::send_stream', 'quinn_proto::Connection::recv_stream']
# operations that reach the protocol stream without consulting check_0rtt in the unmodified tree (single named functions)
# none left: finish / set_priority / priority were unguarded on the pinned tree (a stale early handle finished the fresh
# stream reusing its id) — repaired by a fix: commit, see known_findings.json
UNGUARDED_HANDLE_OPS = {}


_ENVS = __import__('engine.facts', fromlist=['register_memo']).register_memo({})


def captured_value(F, body, d):
    """a capture of a closure / coroutine body (`env.<capture>`) -> the descriptor of the captured operand in the
    defining function (so that decisions do not hang on the names of captured locals); anything else unchanged"""
    if body.kind not in ('closure', 'coroutine') or d[0] not in ('field', 'upvar'):
        return d
    name = d[2] if d[0] == 'field' else d[1]
    if d[0] == 'field' and d[1][0] not in ('upvar', 'env', 'param'):
        return d
    caps = [n for n, pl in body.d.get('dbg', []) if len(pl[1]) == 2 and pl[1][0] == '*' and isinstance(pl[1][1], list) and pl[1][1][0] == 'f']
    if name not in caps or body.parent not in F.bodies:
        return d
    k = (F.uid, body.id)
    if k not in _ENVS:
        par = F.bodies[body.parent]
        dd = [x for _, x in ret_descs(F, par)] + [arg_desc(F, c, i) for c in par.calls() for i in range(len(c.args))]
        envs = [x[3] for x0 in dd for x in walk(x0) if x[0] == 'agg' and x[1] in ('closure', 'coroutine') and x[2] == body.canon and len(x[3]) == len(caps)]
        _ENVS[k] = list({repr(a): a for a in envs}.values())
    envs = _ENVS[k]
    return envs[0][caps.index(name)] if len(envs) == 1 else d


def sibling_field(d, frm, to):
    """descriptor of field `to` of the object whose field `frm` is `d`"""
    if d[0] == 'field' and d[2] == frm:
        return ('field', d[1], to)
    if d[0] == 'upvar' and d[1].endswith('.' + frm):          # precise capture of the place `(*obj).frm`
        return ('upvar', d[1][:-len(frm)] + to)
    return None


def _is_check(x):
    while x[0] == 'call' and x[1] == 'Result::map_err' and x[3]:      # Ok/Err preserved
        x = x[3][0]
    return x[0] == 'call' and (x[1] == 'State::check_0rtt' or path_matches(x[2], 'State::check_0rtt'))


def _live_truths(body, d, local, reach, ev, seen=()):
    """{truth} of a bool local over its whole-local definitions lying in `reach`: plain copies AND negations of another
    local are followed (`let live = a && !(b && c)` materialises `b && c` in one temporary, `!tmp` in the named bool:
    `live = Not(tmp)`), every other definition is judged by `ev` on its descriptor; None in the set = unknown"""
    out = set()
    for df in body.defs_of(local):
        if df[0] not in ('stmt', 'call'):
            out.add(None)
            continue
        if df[1] not in reach:
            continue
        if df[0] == 'call':
            out.add(ev(d.call_desc(df[2], 0)))
            continue
        rv, neg = df[3], False
        if rv[0] == 'un' and rv[1] == 'Not':
            rv, neg = ('use', rv[2]), True
        if rv[0] == 'use' and rv[1][0] in ('c', 'm') and not rv[1][1][1] and rv[1][1][0] not in seen and rv[1][1][0] != local:
            sub = _live_truths(body, d, rv[1][1][0], reach, ev, tuple(seen) + (local,))
            if not sub:
                sub = {None}      # no live definition at all: unknown
            out |= {None if v is None else (v != neg) for v in sub}
        else:
            out.add(ev(d.rvalue(df[3], df[1], df[2], 0)))
    return out


def scenario_reach(F, body, is_mark, mark, check, avoid=()):
    return scenario_cut(F, body, is_mark, mark, check, avoid)[0]


def scenario_cut(F, body, is_mark, mark, check, avoid=(), discr_cut=None, decide=None):
    """(blocks reachable from the entry, {branch block: feasible successors}) in the scenario: the handle's early mark is `mark`,
    every check_0rtt() call returns `check` ('ok' | 'err' | None = not constrained).  Branches whose bool discriminant is decided by the scenario
    (modulo `!`, `== true/false`, is_err/is_ok/map_err/match of the check result, and bools materialised in a local all of whose
    definitions that can be live in the scenario agree) only take the consistent edge.
    discr_cut(Branch) -> feasible targets of a branch on an enum discriminant fixed by the scenario (or None);
    decide(desc) -> truth of a (normalised) bool descriptor fixed by the scenario (or None)."""
    d = describer(F, body)

    def ev(x):
        if x is None or x[0] == 'phi':
            return None
        inner, neg = bool_norm(x)
        v = None
        if const_bool(inner, True) or const_bool(inner, False):
            v = const_bool(inner, True)
        elif is_mark(inner):
            v = mark
        elif decide is not None and decide(inner) is not None:
            v = decide(inner)
        elif check and inner[0] == 'call' and inner[1] in ('Result::is_err', 'Result::is_ok') and inner[3] and _is_check(inner[3][0]):
            v = (check == 'err') == (inner[1] == 'Result::is_err')
        return None if v is None else (v != neg)
    reach = None
    for _ in range(12):
        cut = {}
        for br in branches(F, body):
            if br.desc[0] == 'discr':
                ts = discr_cut(br) if discr_cut is not None else None
                if ts is not None:
                    cut[br.bb] = ts
                    continue
                if check and _is_check(br.desc[1]):
                    ok_t = br.target(0)
                    cut[br.bb] = [ok_t] if check == 'ok' else sorted({t for _, t in br.edges if t != ok_t})
                continue
            v = ev(br.desc)
            if v is None and reach is not None:
                op = body.blocks[br.bb]['t'][1]
                if op[0] in ('c', 'm') and not op[1][1]:
                    vals = _live_truths(body, d, op[1][0], reach, ev)
                    if len(vals) == 1 and None not in vals:
                        v = vals.pop()
            if v is not None:
                cut[br.bb] = [br.target(1 if v else 0)]
        r = reach_cut(body, cut, avoid)
        if r == reach:
            break
        reach = r
    return reach, cut


def reach_cut(body, cut, avoid=()):
    """blocks reachable from the entry when the blocks in `cut` only continue to the given successors"""
    seen, stack, avoid = set(), [0], set(avoid)
    while stack:
        x = stack.pop()
        if x in seen or x in avoid:
            continue
        seen.add(x)
        stack.extend(cut[x] if x in cut else body.succ[x])
    return seen


# ---------------------------------------------------------------------------------------------------------------
# (c) Retry: a stream whose FIN already left in a 0-RTT packet (SendState::DataSent; with no data it is "fully acked" and no longer
# fin_pending, i.e. looks like a stream nothing was sent on) is rewound like every other early stream AND gets its FIN queued again;
# every rewound stream is put on the pending queue unless it already was there, which is sampled BEFORE the rewind / the FIN mark
# make is_pending() true.
SEND_ADT, SEND_STATE_ADT, FIN_SENT_VARIANT = 'send::Send', 'send::SendState', 'DataSent'


def _op_truth(F, body, op, bb, idx, reach, ev):
    """truth of a bool operand in a scenario (`reach` = its blocks, ev = truth of a descriptor): a plain local is judged on its
    definitions that are live in the scenario"""
    d = describer(F, body)
    if op[0] in ('c', 'm') and not op[1][1]:
        vals = _live_truths(body, d, op[1][0], reach, ev)
        if len(vals) == 1 and None not in vals:
            return vals.pop()
    return ev(d.operand(op, bb, idx))


def rule_c_finished(ctx):
    F = ctx.facts
    r0 = ctx.pfn('StreamsState::retransmit_all_for_0rtt')
    d = describer(F, r0)
    fin_sent = [int(v['discr']) for v in F.adt(SEND_STATE_ADT)['variants'] if v['name'] == FIN_SENT_VARIANT]
    ctx.floor('c', 'fin_sent_state', len(fin_sent), 1)
    rw = [c for c in r0.calls_to('SendBuffer::retransmit_all_for_0rtt') if not is_noise(c)]
    rets = set(r0.return_blocks())
    for c in rw if fin_sent else []:
        recv = arg_desc(F, c, 0)
        S = recv[1] if recv[0] == 'field' and recv[2] == 'pending' else None       # the Send whose buffer is rewound
        # where this stream starts to exist: the present-entry edge of the innermost lookup test its descriptor hangs on
        looks = [x[1] for x in walk(S) if x[0] == 'variant' and x[2] == 'Some'] if S else []
        lb = [br for br in branches(F, r0) if br.desc[0] == 'discr' and br.desc[1] in looks and r0.dominates(br.bb, c.bb)]
        lb = [br for br in lb if all(r0.dominates(o.bb, br.bb) for o in lb)]
        if not lb:
            ctx.bad('c', 'finished_stream_rewound', r0, c.where(), 'the stream rewound after a Retry (%s) is not taken from a lookup whose present-entry edge can be followed: obligation cannot be placed' % D.render(recv)[:80])
            continue
        start = lb[0].target(1)
        stops = {b for b in r0.live_blocks() if b != start and r0.dominates(b, start)} | rets      # next iteration / return
        state = ('field', S, 'state')

        def dc(br):
            return [br.target(fin_sent[0])] if br.desc[1] == state else None

        def decide(x):
            if x[0] == 'bin' and x[1] in ('Eq', 'Ne'):
                for a, b in ((x[2], x[3]), (x[3], x[2])):
                    if a == ('discr', state) and b[0] == 'const' and b[1] == 'int':
                        return (str(b[2]) == str(fin_sent[0])) == (x[1] == 'Eq')
            return None
        reach, cut = scenario_cut(F, r0, lambda x: False, False, None, discr_cut=dc, decide=decide)
        # (i) never skipped
        p = path_avoiding_cut(r0, [start], stops, {c.bb}, cut)
        ctx.check(p is None, 'c', 'finished_stream_rewound', r0, c.where(), 'state == %s: every way from the lookup to the next stream passes the rewind' % FIN_SENT_VARIANT,
                  'a stream finished in 0-RTT (SendState::%s; without data it is fully acked and not fin_pending once the FIN left) is skipped by the Retry rewind: its FIN is never sent again: %s' % (FIN_SENT_VARIANT, fmt_path(r0, p)))
        # (ii) its FIN is queued again: a store of `true` (in this scenario) to the fin_pending of the same stream, in the same iteration as the rewind
        def ev(x):
            if x is None:
                return None
            inner, neg = bool_norm(x)
            v = True if const_bool(inner, True) else False if const_bool(inner, False) else decide(inner)
            return None if v is None else (v != neg)
        marks, fin_true = [], set()
        for w in field_writes(F, SEND_ADT, 'fin_pending', crate='quinn_proto'):
            if w.body.id != r0.id or w.kind != 'assign' or w.place[1][-1][:2] != ['f', 'fin_pending'] or w.bb not in reach:
                continue
            if d.place([w.place[0], w.place[1][:-1]], w.bb, w.idx) != S:
                continue
            marks.append(w)
            rv = w.rv
            if rv[0] == 'use':
                t = _op_truth(F, r0, rv[1], w.bb, w.idx, reach, ev)
            elif rv[0] == 'bin' and rv[1] == 'BitOr':
                ts = [_op_truth(F, r0, o, w.bb, w.idx, reach, ev) for o in rv[2:4]]
                t = True if True in ts else None
            else:
                t = None
            if t:
                fin_true.add(w.bb)
        okf = bool(fin_true) and (c.bb in fin_true or path_avoiding_cut(r0, [start], [c.bb], fin_true, cut) is None
                                  or path_avoiding_cut(r0, r0.succ[c.bb], stops, fin_true, cut) is None)
        ctx.check(okf, 'c', 'finished_stream_fin_requeued', r0, c.where(), 'state == %s: fin_pending of the rewound stream is set on every way through the rewind' % FIN_SENT_VARIANT,
                  'the Retry rewind does not set fin_pending again for a stream finished in 0-RTT (SendState::%s): the FIN that left in the abandoned 0-RTT packet is never retransmitted' % FIN_SENT_VARIANT)
        # (iii) every rewound stream is queued unless is_pending() said it already is ...
        # Send::is_pending(S) == S.pending.has_unsent_data() || S.fin_pending (stated structurally, so that the helper may be inlined):
        # in the scenario `not on the queue yet` the call on S answers false, has_unsent_data() of S's buffer answers false and a
        # read of S.fin_pending yields false - all three sampled before the rewind / the FIN mark (checked below for each form).
        def _is_call(x, name):
            return x[0] == 'call' and (x[1] == name or path_matches(x[2], name)) and bool(x[3])

        def not_queued(x):
            if _is_call(x, 'Send::is_pending') and x[3][0] == S:
                return False
            if _is_call(x, 'SendBuffer::has_unsent_data') and x[3][0] == ('field', S, 'pending'):
                return False
            if x == ('field', S, 'fin_pending'):
                return False
            return None
        _, qcut = scenario_cut(F, r0, lambda x: False, False, None, decide=not_queued)
        push = {k.bb for k in r0.calls_to('PendingStreamsQueue::push_pending')}
        okq = bool(push) and (path_avoiding_cut(r0, [start], [c.bb], push, qcut) is None or path_avoiding_cut(r0, r0.succ[c.bb], stops, push, qcut) is None)
        ctx.check(okq, 'c', 'rewound_stream_queued', r0, c.where(), 'every rewound stream whose is_pending() is false goes through push_pending',
                  'a stream rewound after a Retry is not put on the pending queue although is_pending() was false: its data / FIN is never scheduled')
        # ... and is_pending() (or the state it reads) is sampled before the rewind and the FIN mark make it true
        samples = [(k.bb, None) for k in r0.calls_to('Send::is_pending') if arg_desc(F, k, 0) == S] + \
                  [(k.bb, None) for k in r0.calls_to('SendBuffer::has_unsent_data') if arg_desc(F, k, 0) == ('field', S, 'pending')]
        for bb, idx, st in r0.stmts():
            if st[0] == '=' and st[2][0] == 'use' and st[2][1][0] in ('c', 'm') and st[2][1][1][1] and st[2][1][1][1][-1][:2] == ['f', 'fin_pending'] \
                    and d.operand(st[2][1], bb, idx) == ('field', S, 'fin_pending'):
                samples.append((bb, idx))
        late = []
        for k_bb, k_idx in samples:
            for m_bb, m_idx, frm in [(c.bb, None, r0.succ[c.bb])] + [(w.bb, w.idx, [w.bb]) for w in marks]:
                if k_idx is not None and m_idx is not None and k_bb == m_bb:
                    # a read in the block of the store: late when it follows the store (or comes round to it again within the iteration)
                    if k_idx > m_idx or path_avoiding(r0, r0.succ[m_bb], [k_bb], stops) is not None:
                        late.append(m_bb)
                elif path_avoiding(r0, frm, [k_bb], stops) is not None:
                    late.append(m_bb)
        ctx.check(not late, 'c', 'queue_test_precedes_marking', r0, c.where(), 'is_pending() of the rewound stream is not evaluated after the rewind / a fin_pending store of the same iteration',
                  'is_pending() is evaluated after the %s of the same stream: it then answers true for a stream that is not on the pending queue, which is never scheduled' % ('rewind' if c.bb in late else 'fin_pending store'))


def rule_e_handles(ctx):
    F = ctx.facts
    sites = [c for c in F.callers_of(*PROTO_STREAM_ACCESSORS, crate='quinn') if not is_noise(c)]
    by_body = {}
    for c in sites:
        by_body.setdefault(c.body.id, []).append(c)
    guarded = set()
    for bid, cs in sorted(by_body.items()):
        b = cs[0].body
        root = F.root_of(b)
        tests = bool_tests(F, b)
        checks = {c.bb for c in b.calls_to('State::check_0rtt')}
        # the early mark that belongs to the stream id handed to the accessor
        ids = {repr(x): x for x in (captured_value(F, b, arg_desc(F, c, 1)) for c in cs)}
        marks, why = [], ''
        for idd in ids.values():
            if idd[0] == 'param':
                # id received from the caller: the mark is a bool parameter, and every caller passes id and mark of ONE handle
                callers = [k for k in F.callers_of(b.id, crate='quinn') if not is_noise(k)]
                for p in range(1, b.argc + 1):
                    if b.locals[p][0] != 'bool' or not callers:
                        continue
                    sib = lambda k: sibling_field(captured_value(F, k.body, arg_desc(F, k, idd[1] - 1)), HANDLE_ID, HANDLE_MARK)
                    if all(sib(k) is not None and bool_norm(captured_value(F, k.body, arg_desc(F, k, p - 1))) == (sib(k), False) for k in callers):
                        marks.append(lambda x, p=p: x[0] == 'param' and x[1] == p)
                if not marks:
                    why = 'the stream id is a parameter and no bool parameter receives the `%s` mark of the same handle at every call site' % HANDLE_MARK
            else:
                m = sibling_field(idd, HANDLE_ID, HANDLE_MARK)
                if m is None:
                    why = 'the stream id handed to the accessor (%s) is not the `%s` field of a stream handle' % (D.render(idd)[:60], HANDLE_ID)
                else:
                    marks.append(lambda x, m=m: captured_value(F, b, x) == m)
        mark_tests = [(br, t, f) for br, inner, t, f in tests if marks and any(mk(inner) for mk in marks)]
        if root.short in UNGUARDED_HANDLE_OPS and not mark_tests and not checks:
            ctx.ok('e', 'early_handle_inert_after_rejection', b, cs[0].where(), 'exception - %s' % UNGUARDED_HANDLE_OPS[root.short])
            continue
        is_mark = lambda x: any(mk(x) for mk in marks)
        # early handle, check_0rtt never answered Ok: no accessor call
        r_rej = scenario_reach(F, b, is_mark, True, 'err')
        # early handle, check_0rtt answered Ok (still handshaking / accepted): the operation is carried out
        r_acc = scenario_reach(F, b, is_mark, True, 'ok')
        # handle opened after the handshake: carried out without asking check_0rtt (which says Err for every stream of a rejected connection)
        r_late = scenario_reach(F, b, is_mark, False, None, avoid=checks)
        for c in cs:
            w = why
            if not w and c.bb in r_rej:
                w = ('no branch on the `%s` mark of the handle whose id is used' % HANDLE_MARK if not mark_tests else 'check_0rtt() is not consulted' if not checks
                     else 'the accessor call is reachable with the mark set and without check_0rtt() having returned Ok')
            ctx.check(not w, 'e', 'early_handle_inert_after_rejection', b, c.where(), '%s && check_0rtt().is_err() never reaches %s(id)' % (HANDLE_MARK, short(c.f)),
                      '%s hands the id of a 0-RTT stream handle to %s although early data was rejected (%s): after a rejection the id names a fresh stream, which the stale handle then finishes / resets / stops / reads' % (root.short, short(c.f), w))
            if not w:
                guarded.add(bid)
                ctx.check(c.bb in r_acc and c.bb in r_late, 'e', 'handle_guard_only_for_rejected_early', b, c.where(), 'accepted early handles and post-handshake handles still reach %s' % short(c.f),
                          '%s no longer operates on %s' % (root.short, 'early streams whose 0-RTT was accepted' if c.bb not in r_acc else 'streams opened after the handshake (check_0rtt() is Err for every stream of a connection whose 0-RTT was rejected)'))
    ctx.floor('e', 'guarded_handle_operations', len(guarded), 8)
    # the implicit finish / stop of a dropped handle is among them
    for adt in ('SendStream', 'RecvStream'):
        dr = ctx.qfn('<%s as Drop>::drop' % adt)
        if dr.id not in by_body:
            ctx.bad('e', 'early_handle_inert_after_rejection', dr, dr.where(), 'dropping a %s no longer reaches the protocol stream directly: the implicit finish/stop moved where this rule does not follow it' % adt)
    ctx.info('e', 'operations reaching the protocol stream of a handle without check_0rtt (exceptions): %s' % '; '.join('%s - %s' % kv for kv in sorted(UNGUARDED_HANDLE_OPS.items())))


def run(ctx):
    rule_a(ctx)
    rule_b(ctx)
    rule_c(ctx)
    rule_c_finished(ctx)
    rule_d(ctx)
    rule_e(ctx)
    rule_e_handles(ctx)
