"""C13 — datagram sizes vs path MTU and peer limits (structural part)."""
from engine.rulelib import *
from engine import desc as D

EXPLANATION = ("Static rules over quinn-proto MIR: (a) capacity provenance in poll_transmit: segment_size starts from current_mtu() and is only reassigned from the "
               "first datagram's length; every value added to buf_capacity is segment_size or min(segment_size, INITIAL_MTU) and the latter exactly when a loss probe "
               "is consumed; PacketBuilder's max_size = buffer_capacity - tag_len; pad_to is called only with MIN_INITIAL_SIZE, segment_size or the probe size; the "
               "final pad-to-MTU keeps its capacity condition (loss probes stay <= 1200); (b) the MTU probe's capacity and padding both derive from "
               "MtuDiscovery::poll_transmit; one probe in flight; search bounds are clamped by the peer limit; (c) mandatory padding to 1200 for PATH_CHALLENGE / "
               "PATH_RESPONSE / client Initials; (d) writers of current_mtu: only on_acked raises it, with the acked probe's size; reset() re-applies the peer limit; "
               "(e) datagram-frame max_size tied to current MTU and peer limit. Recovery behaviour after an MTU drop is NOT decided.")
RULE = "rule instances = (rule, site) pairs over MIR stores / call arguments / branches; non-trivial = bound to a real site"
MT = 'mtud::MtuDiscovery'


def rule_a(ctx):
    F = ctx.facts
    pt = ctx.pfn('Connection::poll_transmit')
    dn = describer(F, pt, stop_named=True)
    d = describer(F, pt)
    # segment_size definitions
    seg = []
    for l, (ty, nm) in enumerate(pt.locals):
        if nm == 'segment_size':
            for df in pt.defs_of(l):
                if df[0] == 'stmt':
                    seg.append((df[1], df[2], d.rvalue(df[3], df[1], df[2], 0)))
                elif df[0] == 'call':
                    seg.append((df[1], 0, d.call_desc(df[2], 0)))
    ok = len(seg) == 2
    for bb, idx, v in seg:
        if not (D.has_call(v, 'PathData::current_mtu') or (v[0] == 'call' and v[1] == 'Vec::len' and D.has_param(v, name='buf'))):
            ok = False
    ctx.check(ok, 'a', 'segment_size_provenance', pt, pt.where(), 'segment_size = current_mtu() | buf.len() of the first datagram', 'segment_size has an unexpected definition: %s' % [D.render(v)[:80] for _, _, v in seg])
    # buf_capacity stores
    adds = []
    plain = []
    for i, j, pl, rv, line in pt.assigns():
        if pt.local_name(pl[0]) == 'buf_capacity' and not pl[1]:
            x = dn.rvalue(rv, i, j, 0)
            if x[0] == 'bin' and x[1] == 'Add':
                adds.append((i, j, x, line))
            else:
                plain.append((i, j, x, line))
    for i, j, x, line in adds:
        inc = x[3] if (x[2][0] == 'local' and x[2][2] == 'buf_capacity') else x[2]
        r = D.render(inc)
        ok = inc[0] == 'local' and inc[2] == 'next_datagram_size_limit'
        ctx.check(ok, 'a', 'capacity_increment_is_datagram_limit', pt, '%s:%d' % (pt.file, line), r, 'buf_capacity grows by something other than next_datagram_size_limit: ' + r)
    nl = local_defs_desc(ctx, pt, 'next_datagram_size_limit')
    dn2 = describer(F, pt, stop_named=True)
    vals = []
    for l, (ty, nm) in enumerate(pt.locals):
        if nm == 'next_datagram_size_limit':
            for df in pt.defs_of(l):
                if df[0] == 'stmt':
                    vals.append((df[1], dn2.rvalue(df[3], df[1], df[2], 0)))
                elif df[0] == 'call':
                    vals.append((df[1], dn2.call_desc(df[2], 0)))
    okv = len(vals) == 2
    probe_block = None
    for bb, v in vals:
        r = D.render(v)
        if v[0] == 'local' and v[2] == 'segment_size':
            continue
        if v[0] == 'call' and v[1].endswith('::min') and 'segment_size' in r and (D.has_const(v, named='INITIAL_MTU') or 'INITIAL_MTU' in r):
            probe_block = bb
            continue
        okv = False
    ctx.check(okv, 'a', 'datagram_limit_values', pt, pt.where(), 'segment_size | min(segment_size, INITIAL_MTU)', 'next_datagram_size_limit has an unexpected value: %s' % [D.render(v)[:80] for _, v in vals])
    # the min(.., INITIAL_MTU) arm is the loss-probe arm: dominated by the loss_probes decrement
    dec = [w for w in field_writes(F, 'PacketSpace', 'loss_probes', crate='quinn_proto') if F.root_of(w.body).id == pt.id and w.kind == 'assign']
    ctx.check(probe_block is not None and bool(dec) and all(pt.dominates(w.bb, probe_block) or w.bb == probe_block for w in dec), 'a', 'loss_probe_datagrams_clamped_to_1200', pt, pt.where(),
              'loss_probes -= 1 dominates min(segment_size, INITIAL_MTU)', 'a loss-probe datagram is no longer clamped to INITIAL_MTU (1200)')
    for i, j, x, line in plain:
        r = D.render(x)
        ok = (x[0] == 'const' and str(x[2]) == '0') or (x[0] == 'call' and x[1] == 'Vec::len') or (x[0] == 'local' and x[2] == 'probe_size')
        ctx.check(ok, 'a', 'capacity_plain_stores', pt, '%s:%d' % (pt.file, line), r, 'unexpected plain store to buf_capacity: ' + r)
    # PacketBuilder::new max_size
    pb = ctx.pfn('PacketBuilder::new')
    cons = [c for c in constructions(F, 'PacketBuilder', 'PacketBuilder', crate='quinn_proto')]
    dpb = describer(F, pb)
    for c in cons:
        v = dpb.operand(c.field_op('max_size'), c.bb, c.idx)
        ok = v[0] == 'bin' and v[1] == 'Sub' and D.has_param(v[2], name='buffer_capacity')
        ctx.check(ok, 'a', 'max_size_is_capacity_minus_tag', pb, c.where(), D.render(v)[:100], 'PacketBuilder.max_size is not buffer_capacity - tag_len: ' + D.render(v)[:120])
    for c in pt.calls_to('PacketBuilder::new'):
        a = dn.operand(c.args[4], c.bb, term_idx(pt, c.bb))
        ok = a[0] == 'local' and a[2] == 'buf_capacity'
        ctx.check(ok, 'a', 'builder_given_tracked_capacity', pt, c.where(), D.render(a), 'PacketBuilder::new is not given the tracked buf_capacity: ' + D.render(a))
    # pad_to arguments
    n = 0
    for fn in ('Connection::poll_transmit', 'Connection::send_path_challenge'):
        b = ctx.pfn(fn)
        dd = describer(F, b, stop_named=True)
        for c in b.calls_to('PacketBuilder::pad_to'):
            n += 1
            a = dd.operand(c.args[1], c.bb, term_idx(b, c.bb))
            r = D.render(a)
            ok = 'MIN_INITIAL_SIZE' in r or (a[0] == 'local' and a[2] in ('segment_size', 'probe_size')) or r in ('_(segment_size)',) or 'segment_size' in r or 'probe_size' in r
            ctx.check(ok, 'a', 'pad_to_arguments', b, c.where(), r, 'pad_to called with an unexpected size: ' + r)
    ctx.floor('a', 'pad_to_sites', n, 6)
    # final pad-to-MTU: guarded by pad_datagram_to_mtu && buf_capacity >= datagram_start + segment_size
    fin = [c for c in pt.calls_to('PacketBuilder::pad_to') if 'segment_size' in D.render(dn.operand(c.args[1], c.bb, term_idx(pt, c.bb)))]
    okf = True
    nf = 0
    for c in fin:
        es = guard_edges(ctx, pt, lambda o, a, b: o in ('Le', 'Lt') and 'buf_capacity' in D.render(a) + D.render(b) and 'segment_size' in D.render(a) + D.render(b) and 'datagram_start' in D.render(a) + D.render(b), stop_named=True)
        cov = any(pt.dominates(br.bb, c.bb) for br, truth, tgt in es)
        if not cov:
            okf = False
        else:
            nf += 1
    ctx.check(okf and nf >= 2, 'a', 'pad_to_mtu_needs_full_segment_capacity', pt, pt.where(), 'each pad_to(segment_size) is dominated by a `datagram_start + segment_size` vs `buf_capacity` test',
              'a packet can be padded to segment_size although its datagram was allocated less than a full segment (loss probes would exceed 1200 bytes)')


def rule_b(ctx):
    F = ctx.facts
    pt = ctx.pfn('Connection::poll_transmit')
    d = describer(F, pt)
    mp = pt.calls_to('MtuDiscovery::poll_transmit')
    ctx.floor('b', 'mtu_probe_sites', len(mp), 1)
    pbs = [c for c in pt.calls_to('PacketBuilder::new') if any(contains_site(arg_desc(F, c, 4), m) for m in mp)]
    ctx.check(len(pbs) == 1, 'b', 'probe_capacity_from_mtud', pt, pt.where(), 'probe PacketBuilder capacity = mtud.poll_transmit()', 'the MTU probe packet capacity does not derive from MtuDiscovery::poll_transmit')
    pads = [c for c in pt.calls_to('PacketBuilder::pad_to') if any(contains_site(arg_desc(F, c, 1), m) for m in mp)]
    ctx.check(len(pads) == 1, 'b', 'probe_padded_to_probe_size', pt, pt.where(), 'pad_to(probe_size)', 'the MTU probe is not padded to the size chosen by MtuDiscovery')
    # probe only when nothing else was written and established
    for m in mp:
        es = [br for br in branches(F, pt) if pt.dominates(br.bb, m.bb) and D.has_call(br.desc, 'State::is_established')]
        ctx.check(bool(es), 'b', 'probe_only_when_established', pt, m.where(), 'is_established()', 'MTU probes can be sent before the handshake completes')
    ep = ctx.pfn('EnabledMtuDiscovery::poll_transmit')
    ifp = [br for br in branches(F, ep) if D.has_field(br.desc, 'in_flight_probe')]
    somes = [r for r in ep.return_blocks()]
    ctx.check(bool(ifp), 'b', 'single_probe_in_flight', ep, ep.where(), 'in_flight_probe.is_some() -> None', 'the one-probe-in-flight guard is gone')
    ss = ctx.pfn('SearchState::new')
    cl = ss.calls_to('Ord::clamp')
    ok = bool(cl) and all(D.has_param(arg_desc(F, c, 2), name='peer_max_udp_payload_size') and D.has_field(arg_desc(F, c, 0), 'upper_bound') for c in cl)
    ctx.check(ok, 'b', 'search_upper_bound_clamped_by_peer_limit', ss, ss.where(), 'upper_bound = config.upper_bound.clamp(lower, peer_max)', 'the MTU search upper bound is no longer clamped by peer max_udp_payload_size')
    lb = local_defs_desc(ctx, ss, 'lower_bound')
    ok = any(y[0] == 'call' and y[1].endswith('::min') and D.has_param(y, name='peer_max_udp_payload_size') for x in lb for y in flat(x))
    ctx.check(ok, 'b', 'search_lower_bound_clamped_by_peer_limit', ss, ss.where(), 'lower_bound = min(lower_bound, peer_max)', 'the MTU search lower bound is no longer clamped by the peer limit')


def rule_c(ctx):
    F = ctx.facts
    sp = ctx.pfn('Connection::send_path_challenge')
    pads = sp.calls_to('PacketBuilder::pad_to')
    fin = sp.calls_to('PacketBuilder::finish')
    ok = bool(pads) and bool(fin) and all(any(sp.dominates(p.bb, f.bb) for p in pads) for f in fin) and all('MIN_INITIAL_SIZE' in D.render(arg_desc(F, p, 1)) for p in pads)
    ctx.check(ok, 'c', 'path_challenge_padded', sp, sp.where(), 'pad_to(MIN_INITIAL_SIZE) dominates finish', 'PATH_CHALLENGE to the previous path is no longer padded to 1200')
    pt = ctx.pfn('Connection::poll_transmit')
    # off-path PATH_RESPONSE block: the finish_and_track whose SentFrames literal is non_retransmits and which follows pop_off_path
    pop = pt.calls_to('PathResponses::pop_off_path')
    ok = False
    for p in pop:
        pads = [c for c in pt.calls_to('PacketBuilder::pad_to') if 'MIN_INITIAL_SIZE' in D.render(arg_desc(F, c, 1)) and pt.dominates(p.bb, c.bb)]
        ok = bool(pads)
    ctx.check(ok, 'c', 'off_path_response_padded', pt, pt.where(), 'pad_to(MIN_INITIAL_SIZE) after pop_off_path', 'off-path PATH_RESPONSE is no longer padded to 1200')
    pp = ctx.pfn('Connection::populate_packet')
    rp = [w for w in field_writes(F, 'SentFrames', 'requires_padding', crate='quinn_proto') if F.root_of(w.body).id == pp.id and w.kind == 'assign']
    ctx.check(len(rp) >= 2, 'c', 'challenge_and_response_require_padding', pp, pp.where(), '%d requires_padding stores' % len(rp), 'PATH_CHALLENGE / PATH_RESPONSE no longer mark the packet as requiring padding')
    dn = describer(F, pt, stop_named=True)
    pd = local_defs_desc(ctx, pt, 'pad_datagram')
    ok = any(D.has_field(x, 'requires_padding') for x in pd) and any(br.desc[0] == 'call' and br.desc[1] == 'ConnectionSide::is_client' for br in branches(F, pt))
    ctx.check(ok, 'c', 'pad_datagram_sources', pt, pt.where(), 'pad_datagram |= sent.requires_padding; |= Initial && (is_client || ack_eliciting)', 'pad_datagram no longer collects requires_padding / client-Initial padding')
    pads = [c for c in pt.calls_to('PacketBuilder::pad_to') if 'MIN_INITIAL_SIZE' in D.render(arg_desc(F, c, 1))]
    guarded = 0
    for c in pads:
        brs = [br for br in branches(F, pt, stop_named=True) if peel_not(br.desc)[0][0] == 'local' and peel_not(br.desc)[0][2] == 'pad_datagram' and pt.dominates(br.bb, c.bb)]
        if brs:
            guarded += 1
    ctx.check(guarded >= 2, 'c', 'pad_datagram_applied_at_both_finish_sites', pt, pt.where(), '%d pad_to(MIN_INITIAL_SIZE) under pad_datagram' % guarded, 'pad_datagram is no longer applied at both packet-finishing sites')


def rule_d(ctx):
    F = ctx.facts
    allowed = {'MtuDiscovery::on_acked': 'probe acked', 'MtuDiscovery::black_hole_detected': 'min_mtu', 'MtuDiscovery::on_peer_max_udp_payload_size_received': 'min(old, peer)',
               'MtuDiscovery::reset': 'reset', 'MtuDiscovery::with_state': 'ctor'}
    st = store_values(ctx, MT, 'current_mtu')
    for w, v in st:
        r = F.root_of(w.body)
        if r.short not in allowed:
            ctx.bad('d', 'current_mtu_writers/unexpected_writer', r, w.where(), 'current_mtu stored in %s' % r.short)
            continue
        if r.short == 'MtuDiscovery::on_acked':
            ok = D.has_call(v, 'EnabledMtuDiscovery::on_probe_acked')
            for n_ in walk(v):
                if n_[0] == 'agg' and n_[1] == 'closure':
                    cb = [b_ for b_ in F.bodies.values() if b_.canon == n_[2]]
                    if cb and may_reach(F, cb[0], ['EnabledMtuDiscovery::on_probe_acked'], 1):
                        ok = True
            ctx.check(ok, 'd', 'mtu_raised_only_to_acked_probe_size', r, w.where(), D.render(v)[:120], 'current_mtu raised to something other than the acked probe size: ' + D.render(v)[:160])
        elif r.short == 'MtuDiscovery::black_hole_detected':
            ctx.check(D.has_field(v, 'min_mtu'), 'd', 'black_hole_falls_back_to_min_mtu', r, w.where(), D.render(v), 'black hole fallback is not min_mtu')
        elif r.short == 'MtuDiscovery::on_peer_max_udp_payload_size_received':
            ok = v[0] == 'call' and v[1].endswith('::min') and D.has_field(v, 'current_mtu') and D.has_param(v, name='peer_max_udp_payload_size')
            ctx.check(ok, 'd', 'peer_limit_only_lowers_mtu', r, w.where(), D.render(v), 'peer limit handling no longer min(current, peer)')
        else:
            ctx.ok('d', 'current_mtu_writers', r, w.where(), allowed[r.short])
    ctx.floor('d', 'current_mtu_stores', len(st), 4)
    opa = ctx.pfn('EnabledMtuDiscovery::on_probe_acked')
    rd = [y for _, x in ret_descs(F, opa) for y in flat(x)]
    ok = any(y[0] == 'agg' and y[2].endswith('Some') and D.has_field(y, 'last_probed_mtu') for y in rd)
    ctx.check(ok, 'd', 'acked_probe_size_is_last_probed', opa, opa.where(), 'Some(last_probed_mtu) when in_flight_probe == Some(pn)', 'on_probe_acked returns something other than last_probed_mtu')
    brs = [b for b in branches(F, opa) if D.has_field(b.desc, 'in_flight_probe')]
    ctx.check(bool(brs), 'd', 'acked_probe_must_be_the_in_flight_one', opa, opa.where(), 'in_flight_probe == Some(pn)', 'any acked packet can now raise the MTU')
    # reset re-applies the peer limit
    rs = ctx.pfn('MtuDiscovery::reset')
    c = rs.calls_to('MtuDiscovery::on_peer_max_udp_payload_size_received')
    ok = bool(c) and all(D.has_field(arg_desc(F, x, 1), 'peer_max_udp_payload_size') for x in c)
    ctx.check(ok, 'd', 'reset_keeps_peer_limit', rs, rs.where(), 'reset() re-applies state.peer_max_udp_payload_size', 'MtuDiscovery::reset forgets the peer max_udp_payload_size (probes could exceed it after path_changed())')
    nw = ctx.pfn('MtuDiscovery::new')
    c = nw.calls_to('MtuDiscovery::on_peer_max_udp_payload_size_received')
    ctx.check(bool(c), 'd', 'new_path_applies_known_peer_limit', nw, nw.where(), 'new(.., Some(peer_max)) applies it', 'a migrated path no longer starts with the known peer limit')
    sp = ctx.pfn('Connection::set_peer_params')
    ctx.check(bool(sp.calls_to('MtuDiscovery::on_peer_max_udp_payload_size_received')), 'd', 'peer_params_apply_limit', sp, sp.where(), 'set_peer_params forwards max_udp_payload_size', 'peer max_udp_payload_size is no longer forwarded to MTU discovery')


def rule_e(ctx):
    F = ctx.facts
    ms = ctx.pfn('Datagrams::max_size')
    rd = [y for _, x in ret_descs(F, ms) for y in flat(x)]
    ok = False
    for y in rd:
        if y[0] == 'agg' and y[2].endswith('Some'):
            v = y[3][0]
            ok = v[0] == 'call' and v[1].endswith('::min') and D.has_call(v, 'PathData::current_mtu') and D.has_call(v, 'Connection::predict_1rtt_overhead') and D.has_field(v, 'max_datagram_frame_size') and D.has_const(v, named='SIZE_BOUND')
    ctx.check(ok, 'e', 'datagram_max_size_expression', ms, ms.where(), 'min(peer_limit - SIZE_BOUND, current_mtu - overhead - SIZE_BOUND)', 'Datagrams::max_size expression changed')
    dl = ctx.pfn('Connection::detect_lost_packets')
    bh = dl.calls_to('MtuDiscovery::black_hole_detected')
    do = dl.calls_to('DatagramState::drop_oversized')
    ok = bool(bh) and bool(do) and all(any(dl.dominates(b.bb, d_.bb) for b in bh) for d_ in do) and all(D.has_call(arg_desc(F, d_, 1), 'Datagrams::max_size') for d_ in do)
    ctx.check(ok, 'e', 'black_hole_drops_oversized_datagrams', dl, dl.where(), 'drop_oversized(max_size()) after black_hole_detected', 'queued datagrams larger than the fallen-back MTU are no longer dropped')


def run(ctx):
    rule_a(ctx)
    rule_b(ctx)
    rule_c(ctx)
    rule_d(ctx)
    rule_e(ctx)
