"""C13 — datagram sizes vs path MTU and peer limits (structural part)."""
from engine.rulelib import *
from engine import desc as D

EXPLANATION = ("Static rules over quinn-proto MIR: (a) capacity provenance in poll_transmit: segment_size starts from current_mtu() and is only reassigned from the "
               "first datagram's length; every value added to buf_capacity is segment_size or min(segment_size, INITIAL_MTU) and the latter exactly when a loss probe "
               "is consumed; PacketBuilder's max_size = buffer_capacity - tag_len; pad_to is called only with MIN_INITIAL_SIZE, segment_size or the probe size; the "
               "final pad-to-MTU keeps its capacity condition (loss probes stay <= 1200); (b) the MTU probe's capacity and padding both derive from "
               "MtuDiscovery::poll_transmit; one probe in flight; search bounds are clamped by the peer limit; (c) mandatory padding to 1200 for PATH_CHALLENGE / "
               "PATH_RESPONSE / client Initials; (d) writers of current_mtu: only on_acked raises it, with the acked probe's size; reset() re-applies the peer limit; "
               "(e) datagram-frame max_size tied to current MTU and peer limit; (f) CONNECTION_CLOSE encoders: the reason budget subtracts the encoded size of "
               "every field written before the reason; (d, cont.) the peer limit is recorded in MtuDiscovery itself, reset() clamps to it and PathData::new applies "
               "the known limit to a discovery-disabled path too. Recovery behaviour after an MTU drop is NOT decided.")
RULE = "rule instances = (rule, site) pairs over MIR stores / call arguments / branches; non-trivial = bound to a real site"
MT = 'mtud::MtuDiscovery'


# --------------------------------------------------------------------------
# exact-shape helpers (casts, copies and From/Into are already erased by the describer)
# --------------------------------------------------------------------------

def _is_call(v, *pats):
    """v IS the result of a call to one of pats (not merely contains one)"""
    return isinstance(v, tuple) and v[0] == 'call' and any(v[1] == p or path_matches(v[2], p) or D._trait_form(v[1]) == p for p in pats)


def _is_min(v):
    return isinstance(v, tuple) and v[0] == 'call' and v[1].rsplit('::', 1)[-1] == 'min' and len(v[3]) == 2


def _is_named_const(v, name):
    return isinstance(v, tuple) and v[0] == 'const' and bool(v[3]) and (v[3] == name or v[3].endswith('::' + name))


def _is_field(v, name):
    return isinstance(v, tuple) and v[0] == 'field' and v[2] == name


_CONV = ('Result::unwrap', 'Result::expect', 'Option::unwrap', 'Option::expect', 'TryInto::try_into', 'TryFrom::try_from')


def _peel_conv(v):
    """peel checked integer conversions (`x.try_into().unwrap()`, `u16::try_from(x).expect(..)`): same value as `x as _`"""
    while isinstance(v, tuple) and v[0] == 'call' and v[3] and (v[1] in _CONV or D._trait_form(v[1]) in _CONV):
        v = v[3][0]
    return v


def _payload(v):
    """peel `(X as Some|Ok|Continue).0` layers: the value carried by an Option / Result / Try::branch"""
    while isinstance(v, tuple) and v[0] == 'field' and v[2] == '0' and v[1][0] == 'variant' and v[1][2] in ('Some', 'Ok', 'Continue'):
        v = v[1][1]
    return v


_SUBS = ('saturating_sub', 'wrapping_sub')
_ADDS = ('saturating_add', 'wrapping_add')


def _terms(v, sign=1, pos=None, neg=None):
    """flatten a +/- expression (operators and saturating/wrapping method forms) into (added leaves, subtracted leaves)"""
    if pos is None:
        pos, neg = [], []
    m = v[1].rsplit('::', 1)[-1] if v[0] == 'call' and len(v[3]) == 2 else ''
    if (v[0] == 'bin' and v[1] == 'Sub') or m in _SUBS:
        a, b = (v[2], v[3]) if v[0] == 'bin' else v[3]
        _terms(a, sign, pos, neg)
        _terms(b, -sign, pos, neg)
    elif (v[0] == 'bin' and v[1] == 'Add') or m in _ADDS:
        a, b = (v[2], v[3]) if v[0] == 'bin' else v[3]
        _terms(a, sign, pos, neg)
        _terms(b, sign, pos, neg)
    else:
        (pos if sign > 0 else neg).append(v)
    return pos, neg


def _pure(v):
    """no arithmetic anywhere inside the descriptor"""
    for x in D.walk(v):
        if x[0] == 'bin' and x[1] in D.ARITH:
            return False
        if x[0] == 'call' and x[1].rsplit('::', 1)[-1] in D._ARITH_CALLS + _ADDS + _SUBS + ('next_multiple_of', 'pow', 'max'):
            return False
    return True


def _only_over_edge(body, br, good, bad, site):
    """site is dominated by the branch and cannot be reached over its `bad` edge without re-evaluating the branch"""
    return good != bad and body.dominates(br.bb, site) and site != br.bb and site not in body.reachable_from(bad, avoid=[br.bb])


def _leaf_defs(body, d, o, bb, idx, depth=0):
    """(block, descriptor) of the definitions an operand is copied from: unnamed temporaries are followed through
    plain copies/moves; the block is the one holding the defining statement (so that a value chosen by control flow
    -- `a && (b || c)` -- is attributed to the edge it was chosen on)"""
    if o[0] not in ('c', 'm'):
        return [(bb, d.operand(o, bb, idx))]
    local, proj = o[1]
    if proj or body.locals[local][1] or depth > 8:
        return [(bb, d.operand(o, bb, idx))]
    out = []
    for df in d.reaching_defs(local, bb, idx):
        if df[0] == 'stmt' and df[3][0] == 'use':
            out.extend(_leaf_defs(body, d, df[3][1], df[1], df[2], depth + 1))
        elif df[0] == 'stmt':
            out.append((df[1], d.rvalue(df[3], df[1], df[2], 0)))
        elif df[0] == 'call':
            out.append((df[1], d.call_desc(df[2], 0)))
        else:
            out.append((bb, ('local', local, '')))
    return out


def _is_true(v):
    return v[0] == 'const' and v[1] == 'int' and str(v[2]) in ('1', 'true')


def _inline_let(body, dn, v, use_bb, depth=0):
    """`let t = <expr>; .. t ..` IS `.. <expr> ..`: a named local with exactly ONE definition in the whole body (a `let`
    without reassignment, never borrowed mutably) that dominates the use is replaced by its defining expression (named
    operands kept), provided none of that expression's own named operands can be reassigned between the binding and
    the use (the binding would be stale).  Anything else is returned unchanged."""
    if not (isinstance(v, tuple) and v[0] == 'local' and v[2]) or depth > 3:
        return v
    n = v[1]
    defs = body.defs_of(n)
    if len(defs) != 1 or defs[0][0] != 'stmt' or n in dn.mut_borrowed:
        return v
    _, dbb, didx, rv = defs[0]
    if not body.dominates(dbb, use_bb):
        return v
    e = dn.rvalue(rv, dbb, didx, 0)
    if e == v:
        return v
    after = body.reachable_strict(dbb, avoid=[dbb])
    for x in D.walk(e):
        if x[0] == 'param' and (x[1] in dn.mut_borrowed or any(df[0] != 'arg' for df in body.defs_of(x[1]))):
            return v
        if x[0] != 'local':
            continue
        if x[1] in dn.mut_borrowed:
            return v
        for df in body.defs_of(x[1]):
            if df[0] == 'arg':
                continue
            xbb = df[1]
            at = df[2] if df[0] in ('stmt', 'field', 'sd') else len(body.blocks[xbb]['s'])
            if xbb == dbb:
                if at > didx:
                    return v
                continue
            if xbb in after and use_bb in body.reachable_from(xbb, avoid=[dbb]):
                return v
    return _inline_let(body, dn, e, use_bb, depth + 1)


def _guard_edges_inlined(ctx, body, relpred):
    """guard_edges(.., stop_named=True) with `let` temporaries on either side of the comparison replaced by their defining
    expression (see _inline_let); literal offsets on an operand still disqualify the relation"""
    dn = describer(ctx.facts, body, stop_named=True)
    out = []
    for br in branches(ctx.facts, body, True):
        for truth in (True, False):
            rel = relation_on(br.desc, truth)
            if rel is None:
                continue
            a, b = _inline_let(body, dn, rel[1], br.bb), _inline_let(body, dn, rel[2], br.bb)
            if relpred(rel[0], a, b) and not (D.const_offsets(a) | D.const_offsets(b)):
                out.append((br, truth, br.target(1 if truth else 0)))
    return out


def rule_a(ctx):
    F = ctx.facts
    pt = ctx.pfn('Connection::poll_transmit')
    dn = describer(F, pt, stop_named=True)
    d = describer(F, pt)
    # segment_size definitions
    seg = []
    for l, (ty, nm) in enumerate(pt.locals):
        if nm == 'segment_size':
            for df in pt.defs_of(l):
                if df[0] == 'stmt':
                    seg.append((df[1], df[2], d.rvalue(df[3], df[1], df[2], 0)))
                elif df[0] == 'call':
                    seg.append((df[1], 0, d.call_desc(df[2], 0)))
    # the value IS current_mtu() (cast / From erased) or IS buf.len(): `current_mtu() + k` is not a provenance
    ok = len(seg) == 2 and any(_is_call(v, 'PathData::current_mtu', 'MtuDiscovery::current_mtu') for _, _, v in seg)
    for bb, idx, v in seg:
        if not (_is_call(v, 'PathData::current_mtu', 'MtuDiscovery::current_mtu') or (_is_call(v, 'Vec::len') and len(v[3]) == 1 and v[3][0][0] == 'param' and v[3][0][2] == 'buf')):
            ok = False
    ctx.check(ok, 'a', 'segment_size_provenance', pt, pt.where(), 'segment_size = current_mtu() | buf.len() of the first datagram', 'segment_size has an unexpected definition: %s' % [D.render(v)[:80] for _, _, v in seg])
    # buf_capacity stores
    adds = []
    plain = []
    for i, j, pl, rv, line in pt.assigns():
        if pt.local_name(pl[0]) == 'buf_capacity' and not pl[1]:
            x = dn.rvalue(rv, i, j, 0)
            if x[0] == 'bin' and x[1] == 'Add':
                adds.append((i, j, x, line))
            else:
                plain.append((i, j, x, line))
    for i, j, x, line in adds:
        inc = x[3] if (x[2][0] == 'local' and x[2][2] == 'buf_capacity') else x[2]
        r = D.render(inc)
        ok = inc[0] == 'local' and inc[2] == 'next_datagram_size_limit'
        ctx.check(ok, 'a', 'capacity_increment_is_datagram_limit', pt, '%s:%d' % (pt.file, line), r, 'buf_capacity grows by something other than next_datagram_size_limit: ' + r)
    nl = local_defs_desc(ctx, pt, 'next_datagram_size_limit')
    dn2 = describer(F, pt, stop_named=True)
    vals = []
    for l, (ty, nm) in enumerate(pt.locals):
        if nm == 'next_datagram_size_limit':
            for df in pt.defs_of(l):
                if df[0] == 'stmt':
                    vals.append((df[1], dn2.rvalue(df[3], df[1], df[2], 0)))
                elif df[0] == 'call':
                    vals.append((df[1], dn2.call_desc(df[2], 0)))
    okv = len(vals) == 2
    probe_block = None
    for bb, v in vals:
        r = D.render(v)
        if v[0] == 'local' and v[2] == 'segment_size':
            continue
        if _is_min(v) and any(x[0] == 'local' and x[2] == 'segment_size' for x in v[3]) and any(_is_named_const(x, 'INITIAL_MTU') for x in v[3]):
            probe_block = bb
            continue
        okv = False
    ctx.check(okv, 'a', 'datagram_limit_values', pt, pt.where(), 'segment_size | min(segment_size, INITIAL_MTU)', 'next_datagram_size_limit has an unexpected value: %s' % [D.render(v)[:80] for _, v in vals])
    # the min(.., INITIAL_MTU) arm is the loss-probe arm: dominated by the loss_probes decrement
    dec = [w for w in field_writes(F, 'PacketSpace', 'loss_probes', crate='quinn_proto') if F.root_of(w.body).id == pt.id and w.kind == 'assign']
    ctx.check(probe_block is not None and bool(dec) and all(pt.dominates(w.bb, probe_block) or w.bb == probe_block for w in dec), 'a', 'loss_probe_datagrams_clamped_to_1200', pt, pt.where(),
              'loss_probes -= 1 dominates min(segment_size, INITIAL_MTU)', 'a loss-probe datagram is no longer clamped to INITIAL_MTU (1200)')
    for i, j, x, line in plain:
        r = D.render(x)
        ok = (x[0] == 'const' and str(x[2]) == '0') or (x[0] == 'call' and x[1] == 'Vec::len') or (x[0] == 'local' and x[2] == 'probe_size')
        ctx.check(ok, 'a', 'capacity_plain_stores', pt, '%s:%d' % (pt.file, line), r, 'unexpected plain store to buf_capacity: ' + r)
    # PacketBuilder::new max_size
    pb = ctx.pfn('PacketBuilder::new')
    cons = [c for c in constructions(F, 'PacketBuilder', 'PacketBuilder', crate='quinn_proto')]
    dpb = describer(F, pb)
    for c in cons:
        v = dpb.operand(c.field_op('max_size'), c.bb, c.idx)
        ok = v[0] == 'bin' and v[1] == 'Sub' and D.has_param(v[2], name='buffer_capacity')
        ctx.check(ok, 'a', 'max_size_is_capacity_minus_tag', pb, c.where(), D.render(v)[:100], 'PacketBuilder.max_size is not buffer_capacity - tag_len: ' + D.render(v)[:120])
    for c in pt.calls_to('PacketBuilder::new'):
        a = dn.operand(c.args[4], c.bb, term_idx(pt, c.bb))
        ok = a[0] == 'local' and a[2] == 'buf_capacity'
        ctx.check(ok, 'a', 'builder_given_tracked_capacity', pt, c.where(), D.render(a), 'PacketBuilder::new is not given the tracked buf_capacity: ' + D.render(a))
    # pad_to arguments
    # the argument IS (cast peeled) the constant MIN_INITIAL_SIZE, the segment_size local, or the size returned by
    # MtuDiscovery::poll_transmit -- `segment_size + k` / `MIN_INITIAL_SIZE - k` are not
    n = 0
    for fn in ('Connection::poll_transmit', 'Connection::send_path_challenge'):
        b = ctx.pfn(fn)
        dd = describer(F, b, stop_named=True)
        mps = b.calls_to('MtuDiscovery::poll_transmit')
        for c in b.calls_to('PacketBuilder::pad_to'):
            n += 1
            a = _peel_conv(dd.operand(c.args[1], c.bb, term_idx(b, c.bb)))
            full = _payload(_peel_conv(arg_desc(F, c, 1)))
            r = D.render(a)
            ok = _is_named_const(a, 'MIN_INITIAL_SIZE') or (a[0] == 'local' and a[2] == 'segment_size') or any(is_site(full, m) for m in mps)
            ctx.check(ok, 'a', 'pad_to_arguments', b, c.where(), r, 'pad_to called with an unexpected size: ' + r)
    ctx.floor('a', 'pad_to_sites', n, 6)
    # final pad-to-MTU: guarded by pad_datagram_to_mtu && buf_capacity >= datagram_start + segment_size
    fin = []
    for c in pt.calls_to('PacketBuilder::pad_to'):
        a = _peel_conv(dn.operand(c.args[1], c.bb, term_idx(pt, c.bb)))
        if a[0] == 'local' and a[2] == 'segment_size':
            fin.append(c)
    okf = True
    nf = 0
    for c in fin:
        es = _guard_edges_inlined(ctx, pt, lambda o, a, b: o in ('Le', 'Lt') and 'buf_capacity' in D.render(a) + D.render(b) and 'segment_size' in D.render(a) + D.render(b) and 'datagram_start' in D.render(a) + D.render(b))
        cov = any(pt.dominates(br.bb, c.bb) for br, truth, tgt in es)
        if not cov:
            okf = False
        else:
            nf += 1
    ctx.check(okf and nf >= 2, 'a', 'pad_to_mtu_needs_full_segment_capacity', pt, pt.where(), 'each pad_to(segment_size) is dominated by a `datagram_start + segment_size` vs `buf_capacity` test',
              'a packet can be padded to segment_size although its datagram was allocated less than a full segment (loss probes would exceed 1200 bytes)')


def _none_edges(F, body, is_place):
    """(Branch, target when the Option place is None, target when it is Some) for is_some()/is_none()/discriminant tests"""
    out = []
    for br in branches(F, body):
        inner, neg = peel_not(br.desc)
        if _is_call(inner, 'Option::is_some', 'Option::is_none') and len(inner[3]) == 1 and is_place(inner[3][0]):
            some_when = (inner[1].endswith('is_some')) != neg
            out.append((br, br.target(0 if some_when else 1), br.target(1 if some_when else 0)))
        elif inner[0] == 'discr' and is_place(inner[1]) and not neg:
            out.append((br, br.target(0), br.target(1)))
    return out


def _est_edges(ctx, body, own_state=False):
    """{block: [Branch, true target, false target]} of the branches whose condition IS <..>.state.is_established()
    (own_state: of the receiver parameter itself)"""
    est = {}
    for br, truth, tgt in bool_edges(ctx, body, lambda x: _is_call(x, 'State::is_established') and len(x[3]) == 1 and _is_field(x[3][0], 'state')
                                     and (not own_state or (x[3][0][1][0] == 'param' and x[3][0][1][1] == 1))):
        est.setdefault(br.bb, [br, None, None])[1 if truth else 2] = tgt
    return est


def _bool_needs_est(ctx, body, est, o, bb, idx, want, depth=0):
    """The bool operand `o` read at (bb, idx) can have the value `want` only if the last evaluation of is_established()
    before the read returned true.  Every definition reaching the read is one of
      * the constant `!want` (that definition never yields `want`: `let ok = est() && ..` stores `false` on the false edge);
      * a copy of / `!` of another operand of which the same holds (for `!want` under a `!`);
      * any value computed in a block that is only reachable over the true edge of an is_established() branch, when the read
        cannot be reached from that branch's false edge without passing the branch or a definition of the local again;
      * the result of a `&self` helper called on the same receiver, every return value of which satisfies this very
        condition inside the helper (`fn may_probe(&self) -> bool { self.state.is_established() && .. }`)."""
    F = ctx.facts
    d = describer(F, body)
    if depth > 6:
        return False
    if o[0] not in ('c', 'm'):
        v = d.operand(o, bb, idx)
        return v[0] == 'const' and v[1] == 'int' and str(v[2]) in ('0', '1', 'true', 'false') and _is_true(v) != want
    local, proj = o[1]
    if proj:
        return False
    defs = d.reaching_defs(local, bb, idx)
    if not defs:
        return False
    redef = set()
    for df in body.defs_of(local):
        if df[0] == 'arg':
            return False
        at = df[2] if df[0] in ('stmt', 'field', 'sd') else len(body.blocks[df[1]]['s'])
        if not (df[1] == bb and at >= idx):
            redef.add(df[1])

    def under(dbb):
        for br, t, f in est.values():
            if t is not None and f is not None and _only_over_edge(body, br, t, f, dbb) and bb not in body.reachable_from(f, avoid=redef | {br.bb}):
                return True
        return False
    for df in defs:
        if df[0] == 'stmt':
            rv = df[3]
            if rv[0] in ('use', 'cast') and _bool_needs_est(ctx, body, est, rv[-1], df[1], df[2], want, depth + 1):
                continue
            if rv[0] == 'un' and rv[1] == 'Not' and _bool_needs_est(ctx, body, est, rv[2], df[1], df[2], not want, depth + 1):
                continue
            if under(df[1]):
                continue
            return False
        elif df[0] == 'call':
            if under(df[1]):
                continue
            c = df[2]
            cal = F.bodies.get(c.f) if c.k == 'item' else None
            if cal is None or cal.kind != 'fn' or not c.args or cal.argc < 1:
                return False
            ty = str(cal.locals[1][0])
            recv = arg_desc(F, c, 0)
            if not (ty.startswith('&') and not ty.startswith('&mut') and recv[0] == 'param' and recv[1] == 1 and body.kind == 'fn' and cal.self_ty == body.self_ty):
                return False
            cest = _est_edges(ctx, cal, own_state=True)
            rets = [r for r in cal.return_blocks() if r in cal.live_blocks()]
            if not (cest and rets and all(_bool_needs_est(ctx, cal, cest, ['c', [0, []]], r, term_idx(cal, r), want, depth + 1) for r in rets)):
                return False
        else:
            return False
    return True


def _site_behind_est_flag(ctx, body, est, site):
    """site is reachable only over the edge of a bool branch whose discriminant can have that edge's value only after
    is_established() returned true (the test was hoisted into a named bool or a one-level `&self` helper)"""
    for br in branches(ctx.facts, body):
        t = body.blocks[br.bb]['t']
        if len(br.edges) != 2:
            continue
        for want in (True, False):
            good, other = br.target(1 if want else 0), br.target(0 if want else 1)
            if _only_over_edge(body, br, good, other, site) and _bool_needs_est(ctx, body, est, t[1], br.bb, term_idx(body, br.bb), want):
                return True
    return False


def rule_b(ctx):
    F = ctx.facts
    pt = ctx.pfn('Connection::poll_transmit')
    d = describer(F, pt)
    mp = pt.calls_to('MtuDiscovery::poll_transmit')
    ctx.floor('b', 'mtu_probe_sites', len(mp), 1)
    pbs = [c for c in pt.calls_to('PacketBuilder::new') if any(contains_site(arg_desc(F, c, 4), m) for m in mp)]
    ctx.check(len(pbs) == 1, 'b', 'probe_capacity_from_mtud', pt, pt.where(), 'probe PacketBuilder capacity = mtud.poll_transmit()', 'the MTU probe packet capacity does not derive from MtuDiscovery::poll_transmit')
    pads = [c for c in pt.calls_to('PacketBuilder::pad_to') if any(contains_site(arg_desc(F, c, 1), m) for m in mp)]
    ctx.check(len(pads) == 1, 'b', 'probe_padded_to_probe_size', pt, pt.where(), 'pad_to(probe_size)', 'the MTU probe is not padded to the size chosen by MtuDiscovery')
    # probe only when nothing else was written and established
    # the probe site is reachable only over the TRUE edge of a branch whose condition IS state.is_established()
    # -- or over the edge of a bool (named local / `&self` helper result) that can only have that value after is_established()
    est = _est_edges(ctx, pt)
    for m in mp:
        ok = any(_only_over_edge(pt, br, t, f, m.bb) for br, t, f in est.values()) or _site_behind_est_flag(ctx, pt, est, m.bb)
        ctx.check(ok, 'b', 'probe_only_when_established', pt, m.where(), 'probe only over the true edge of is_established()', 'MTU probes can be sent before the handshake completes')
    # one probe in flight: every `in_flight_probe = Some(..)` of MtuDiscovery's poll_transmit is reachable only over the
    # None edge of a test of in_flight_probe (is_some / is_none / discriminant)
    ep = ctx.pfn('EnabledMtuDiscovery::poll_transmit')
    ne = _none_edges(F, ep, lambda y: _is_field(y, 'in_flight_probe'))
    sets = [(w, v) for w, v in store_values(ctx, 'SearchState', 'in_flight_probe', in_fn=ep) if not (v[0] == 'agg' and v[2].endswith('Option::None'))]
    for w, v in sets:
        ok = any(_only_over_edge(ep, br, none_t, some_t, w.bb) for br, none_t, some_t in ne)
        ctx.check(ok, 'b', 'single_probe_in_flight', ep, w.where(), 'in_flight_probe set only over the None edge of its own test', 'a new probe can be put in flight while another one is (the in_flight_probe.is_some() -> None guard is gone or inverted)')
    ctx.floor('b', 'in_flight_probe_set_sites', len(sets), 1)
    ss = ctx.pfn('SearchState::new')
    cl = ss.calls_to('Ord::clamp')
    ok = bool(cl) and all(D.has_param(arg_desc(F, c, 2), name='peer_max_udp_payload_size') and D.has_field(arg_desc(F, c, 0), 'upper_bound') for c in cl)
    ctx.check(ok, 'b', 'search_upper_bound_clamped_by_peer_limit', ss, ss.where(), 'upper_bound = config.upper_bound.clamp(lower, peer_max)', 'the MTU search upper bound is no longer clamped by peer max_udp_payload_size')
    lb = local_defs_desc(ctx, ss, 'lower_bound')
    ok = any(y[0] == 'call' and y[1].endswith('::min') and D.has_param(y, name='peer_max_udp_payload_size') for x in lb for y in flat(x))
    ctx.check(ok, 'b', 'search_lower_bound_clamped_by_peer_limit', ss, ss.where(), 'lower_bound = min(lower_bound, peer_max)', 'the MTU search lower bound is no longer clamped by the peer limit')


def _client_initial_padded(ctx, pt, dn, pds):
    """RFC 9000 14.1.  From the construction of a packet (PacketBuilder::new(.., space, ..)), ASSUMING `space == Initial`
    and `self.side.is_client()` (branches on exactly these conditions only take the consistent edge, all other branches
    both), every path makes pad_datagram true -- a store of `true`, or of `pad_datagram | t` where t was assigned `true`
    / the Initial test / is_client() itself on that path -- before pad_datagram is consumed, reset, or or-ed with any
    other value.  Order and grouping of the `&&` / `||` operands, `if .. { pad_datagram = true }`, `matches!` and
    negated forms are all the same thing to this rule."""
    F = ctx.facts
    what = 'pad_datagram |= Initial && (is_client || ..)'
    ini_idx = [int(v['discr']) for v in F.adt('packet::SpaceId')['variants'] if v['name'] == 'Initial']
    starts = []
    for c in pt.calls_to('PacketBuilder::new'):
        if len(c.args) > 1 and c.t is not None:
            sd = dn.operand(c.args[1], c.bb, term_idx(pt, c.bb))
            full = arg_desc(F, c, 1)
            if full[0] == 'agg' and full[1] == 'adt' and not full[2].endswith('SpaceId::Initial'):
                continue          # a packet of a literally different space (the MTU probe: SpaceId::Data)
            if sd[0] in ('local', 'param'):
                starts.append((c, sd))
    if not starts:
        ctx.bad('c', 'pad_datagram_sources/anchor', pt, pt.where(), what + ': no PacketBuilder::new(.., <space variable>, ..) in poll_transmit')
        return

    def _is_initial(x):
        return x[0] == 'agg' and x[2].endswith('SpaceId::Initial') and not x[3]

    def _is_client(x):
        return _is_call(x, 'ConnectionSide::is_client', 'Side::is_client') and len(x[3]) == 1 and _is_field(x[3][0], 'side')

    def _is_ini_test(x, sd):
        return x[0] == 'bin' and x[1] == 'Eq' and ((_is_initial(x[2]) and x[3] == sd) or (_is_initial(x[3]) and x[2] == sd))
    locs = {l for l, _, _, _, _ in pds}
    for c, sd in starts:
        forced = {}
        for br in branches(F, pt, stop_named=True):
            inner, neg = peel_not(br.desc)
            if _is_client(inner) or _is_ini_test(inner, sd):
                forced[br.bb] = br.target(0 if neg else 1)
            elif inner[0] == 'bin' and inner[1] == 'Ne' and _is_ini_test(('bin', 'Eq') + inner[2:], sd):
                forced[br.bb] = br.target(1 if neg else 0)
            elif inner[0] == 'discr' and inner[1] == sd and ini_idx:
                forced[br.bb] = br.target(ini_idx[0])
        good, stop = set(), set()
        for l, bb, idx, x, rv in pds:
            if _is_true(x):
                good.add(bb)
            elif x[0] == 'bin' and x[1] == 'BitOr' and rv[0] == 'bin':
                for o in (rv[2], rv[3]):
                    if o[0] in ('c', 'm') and o[1] == [l, []]:
                        continue
                    for dbb, dv in _leaf_defs(pt, dn, o, bb, idx):
                        if _is_true(dv) or _is_client(dv) or _is_ini_test(dv, sd):
                            good.add(dbb)
                        else:
                            stop.add(dbb)
                stop.add(bb)
            else:
                stop.add(bb)      # reset / anything else
        for br in branches(F, pt, stop_named=True):
            inner, _ = peel_not(br.desc)
            if inner[0] == 'local' and inner[1] in locs:
                stop.add(br.bb)   # consumption
        stop -= good
        if not good:
            ctx.bad('c', 'pad_datagram_sources', pt, c.where(), what + ': nothing sets pad_datagram for a client Initial packet (RFC 9000 14.1: client Initials are padded to 1200)')
            continue
        seen, stack, prev = set(), [c.t], {c.t: None}
        hit = None
        while stack and hit is None:
            b = stack.pop()
            if b in seen or b in good:
                continue
            seen.add(b)
            if b in stop:
                hit = b
                break
            for t in ([forced[b]] if b in forced else pt.succ[b]):
                if t not in seen and t not in prev:
                    prev[t] = b
                if t not in seen:
                    stack.append(t)
        path = []
        b = hit
        while b is not None:
            path.append(b)
            b = prev.get(b)
        ctx.check(hit is None, 'c', 'pad_datagram_sources', pt, c.where(), what + ': a client Initial packet always gets pad_datagram set',
                  'a client Initial packet reaches %s without pad_datagram having been set (RFC 9000 14.1: client Initials are padded to 1200)' % fmt_path(pt, list(reversed(path))))


def rule_c(ctx):
    F = ctx.facts
    sp = ctx.pfn('Connection::send_path_challenge')
    pads = sp.calls_to('PacketBuilder::pad_to')
    fin = sp.calls_to('PacketBuilder::finish')
    ok = bool(pads) and bool(fin) and all(any(sp.dominates(p.bb, f.bb) for p in pads) for f in fin) and all('MIN_INITIAL_SIZE' in D.render(arg_desc(F, p, 1)) for p in pads)
    ctx.check(ok, 'c', 'path_challenge_padded', sp, sp.where(), 'pad_to(MIN_INITIAL_SIZE) dominates finish', 'PATH_CHALLENGE to the previous path is no longer padded to 1200')
    pt = ctx.pfn('Connection::poll_transmit')
    # off-path PATH_RESPONSE block: the finish_and_track whose SentFrames literal is non_retransmits and which follows pop_off_path
    pop = pt.calls_to('PathResponses::pop_off_path')
    ok = False
    for p in pop:
        pads = [c for c in pt.calls_to('PacketBuilder::pad_to') if 'MIN_INITIAL_SIZE' in D.render(arg_desc(F, c, 1)) and pt.dominates(p.bb, c.bb)]
        ok = bool(pads)
    ctx.check(ok, 'c', 'off_path_response_padded', pt, pt.where(), 'pad_to(MIN_INITIAL_SIZE) after pop_off_path', 'off-path PATH_RESPONSE is no longer padded to 1200')
    pp = ctx.pfn('Connection::populate_packet')
    rp = [w for w in field_writes(F, 'SentFrames', 'requires_padding', crate='quinn_proto') if F.root_of(w.body).id == pp.id and w.kind == 'assign']
    ctx.check(len(rp) >= 2, 'c', 'challenge_and_response_require_padding', pp, pp.where(), '%d requires_padding stores' % len(rp), 'PATH_CHALLENGE / PATH_RESPONSE no longer mark the packet as requiring padding')
    dn = describer(F, pt, stop_named=True)
    # whole-local stores to pad_datagram, as (block, idx, value with named locals kept, raw rvalue)
    pds = []
    for l, (ty, nm) in enumerate(pt.locals):
        if nm == 'pad_datagram':
            for df in pt.defs_of(l):
                if df[0] == 'stmt' and df[1] in pt.live_blocks():
                    pds.append((l, df[1], df[2], dn.rvalue(df[3], df[1], df[2], 0), df[3]))
    dfull = describer(F, pt)
    ok = any(D.has_field(dfull.rvalue(rv, bb, idx, 0), 'requires_padding') for _, bb, idx, _, rv in pds)
    ctx.check(ok, 'c', 'pad_datagram_sources', pt, pt.where(), 'pad_datagram |= sent.requires_padding', 'pad_datagram no longer collects SentFrames.requires_padding')
    _client_initial_padded(ctx, pt, dn, pds)
    pads = [c for c in pt.calls_to('PacketBuilder::pad_to') if 'MIN_INITIAL_SIZE' in D.render(arg_desc(F, c, 1))]
    guarded = 0
    for c in pads:
        brs = [br for br in branches(F, pt, stop_named=True) if peel_not(br.desc)[0][0] == 'local' and peel_not(br.desc)[0][2] == 'pad_datagram' and pt.dominates(br.bb, c.bb)]
        if brs:
            guarded += 1
    ctx.check(guarded >= 2, 'c', 'pad_datagram_applied_at_both_finish_sites', pt, pt.where(), '%d pad_to(MIN_INITIAL_SIZE) under pad_datagram' % guarded, 'pad_datagram is no longer applied at both packet-finishing sites')


def _is_acked_size(F, v):
    """v IS the Some payload of on_probe_acked(..) (directly, or of `opt.and_then(closure)` / `opt.map(..)`-free forms whose
    closure returns exactly that call); min(..) with such a value can only lower it and is accepted"""
    if v[0] == 'phi':
        return all(_is_acked_size(F, x) for x in v[1])
    if _is_min(v):
        return any(_is_acked_size(F, x) for x in v[3])
    if not (v[0] == 'field' and v[2] == '0' and v[1][0] == 'variant' and v[1][2] == 'Some'):
        return False
    return _is_acked_option(F, v[1][1])


def _is_acked_option(F, x):
    if x[0] == 'phi':
        return all(_is_acked_option(F, y) or (y[0] == 'agg' and y[2].endswith('Option::None')) for y in x[1]) and any(_is_acked_option(F, y) for y in x[1])
    if _is_call(x, 'EnabledMtuDiscovery::on_probe_acked'):
        return True
    if _is_call(x, 'Option::and_then') and len(x[3]) == 2 and x[3][1][0] == 'agg' and x[3][1][1] == 'closure':
        cb = [b_ for b_ in F.bodies.values() if b_.canon == x[3][1][2]]
        if len(cb) == 1:
            rd = [y for _, r_ in ret_descs(F, cb[0]) for y in flat(r_)]
            return bool(rd) and all(_is_call(y, 'EnabledMtuDiscovery::on_probe_acked') for y in rd)
    return False


_STATE_READERS = ('Option::as_mut', 'Option::as_ref', 'Option::as_deref_mut', 'Option::iter_mut')


def _is_fresh_state(v):
    """v IS Some(EnabledMtuDiscovery::new(..)): a live search state"""
    return v[0] == 'agg' and v[2].endswith('Option::Some') and len(v[3]) == 1 and _is_call(v[3][0], 'EnabledMtuDiscovery::new')


def _state_writers(ctx, body):
    """every site of `body` that may change which Option<EnabledMtuDiscovery> sits in MtuDiscovery.state, as
    (block, position in block, is a store of Some(EnabledMtuDiscovery::new(..)), where).  Position = statement index, or
    len(statements) for the terminator.  `&mut self.state` handed to a call replaces the Option at that call (take / replace /
    insert / get_or_insert_with / mem::..) unless the call is one of the projections as_mut / as_ref (which cannot);
    a call result stored there, a store of anything that is not literally Some(new(..)), a store to the whole `*self`
    and a raw `&mut` borrow all count as replacing it with something unknown (fail closed)."""
    F = ctx.facts
    d = describer(F, body)
    out = []
    for w in field_writes(F, MT, 'state', crate='quinn_proto'):
        if w.body is not body:
            continue
        if w.kind == 'assign':
            last = w.place[1][-1]
            whole = isinstance(last, list) and last[0] == 'f' and last[1] == 'state'
            fresh = whole and bool(w.rv) and w.rv[0] != 'sd' and _is_fresh_state(d.rvalue(w.rv, w.bb, w.idx, 0))
            out.append((w.bb, w.idx, fresh, w.where()))
        elif w.kind == 'mutborrow':
            if w.call is not None and (w.call.is_(*_STATE_READERS) or D._trait_form(w.call.f) in _STATE_READERS):
                continue
            if w.call is not None:
                out.append((w.call.bb, len(body.blocks[w.call.bb]['s']), False, w.call.where()))
            else:
                out.append((w.bb, w.idx, False, w.where()))
        else:
            out.append((w.bb, len(body.blocks[w.bb]['s']), False, w.where()))
    # `*self = ..` / `*mtud = ..`: the whole MtuDiscovery is replaced
    for i, j, pl, rv, line in body.assigns():
        if i in body.live_blocks() and pl[1] == ['*'] and 'MtuDiscovery' in str(body.local_ty(pl[0])) and 'Enabled' not in str(body.local_ty(pl[0])):
            out.append((i, j, False, '%s:%d' % (body.file, line)))
    return out


def _state_before(body, writers, bb, pos):
    """walk backwards from (bb, pos): the LAST writer of MtuDiscovery.state on every path reaching that point.
    Returns (set of 'fresh' | 'entry', list of `where` of non-fresh last writers)"""
    by = {}
    for wb, wi, fresh, where in writers:
        by.setdefault(wb, []).append((wi, fresh, where))
    kinds, clob = set(), []
    seen = set()
    stack = [(bb, pos)]
    while stack:
        b, p = stack.pop()
        cand = [x for x in by.get(b, []) if x[0] < p]
        if cand:
            wi, fresh, where = max(cand, key=lambda x: x[0])
            if fresh:
                kinds.add('fresh')
            else:
                clob.append(where)
            continue
        if b == 0:
            kinds.add('entry')
        for q in body.pred[b]:
            if q not in seen and not body.blocks[q]['c']:
                seen.add(q)
                stack.append((q, len(body.blocks[q]['s']) + 1))
    return kinds, clob


def _limit_lands_in_live_state(ctx, body, instance, what):
    """The peer limit survives in the search state only if on_peer_max_udp_payload_size_received(..) runs while
    MtuDiscovery.state holds the Some(EnabledMtuDiscovery) that the function leaves behind:
      (i)  on every path to the call the last writer of `.state` is a store of Some(EnabledMtuDiscovery::new(..)) -- or there
           is none and the receiver IS the value built by with_state(.., Some(EnabledMtuDiscovery::new(..))) -- never
           take()/replace()/None/unknown (the callee would record the limit into nothing);
      (ii) nothing reachable after the call writes `.state` again (the recorded limit would be thrown away)."""
    F = ctx.facts
    ks = body.calls_to('MtuDiscovery::on_peer_max_udp_payload_size_received')
    if not ks:
        ctx.bad('d', instance + '/anchor', body, body.where(), what + ': no call of on_peer_max_udp_payload_size_received')
        return
    ws = _state_writers(ctx, body)
    inner = [w for w in field_writes(F, MT, 'state', crate='quinn_proto') if w.body is not body and F.root_of(w.body).id == body.id]
    for k in ks:
        kinds, clob = _state_before(body, ws, k.bb, len(body.blocks[k.bb]['s']))
        recv = arg_desc(F, k, 0)
        built_live = _is_call(recv, 'MtuDiscovery::with_state') and len(recv[3]) == 3 and _is_fresh_state(recv[3][2])
        if inner:
            ctx.bad('d', instance, body, inner[0].where(), what + ': MtuDiscovery.state is written inside a closure of this function; cannot order it against the call')
        elif clob:
            ctx.bad('d', instance, body, k.where(), what + ': the peer limit is applied while MtuDiscovery.state was last written at %s (taken / replaced, not a fresh Some(EnabledMtuDiscovery::new(..))): '
                    'the limit is recorded into nothing and the next search ignores the peer max_udp_payload_size' % sorted(set(clob)))
        elif 'entry' in kinds and not built_live:
            ctx.bad('d', instance, body, k.where(), what + ': a path reaches the call without MtuDiscovery.state having been set to Some(EnabledMtuDiscovery::new(..)) and the receiver is not with_state(.., Some(new(..)))')
        else:
            ctx.ok('d', instance, body, k.where(), what + ': state is a fresh Some(EnabledMtuDiscovery::new(..)) on every path to the call')
        after = []
        if k.t is not None:
            reach = body.reachable_from(k.t)
            after = sorted({where for wb, wi, fresh, where in ws if wb in reach})
        ctx.check(not after, 'd', instance, body, k.where(), what + ': MtuDiscovery.state is not written again after the call',
                  what + ': MtuDiscovery.state is written again at %s after the peer limit was recorded in it: the new search state forgets the peer max_udp_payload_size' % after)


# --------------------------------------------------------------------------
# the peer limit also binds a path without MTU discovery (repair 46f23f8)
# --------------------------------------------------------------------------

def _is_recorded_limit(v):
    """v IS self.peer_max_udp_payload_size of the MtuDiscovery itself (receiver parameter), not the copy in the search state"""
    return _is_field(v, 'peer_max_udp_payload_size') and v[1][0] == 'param' and v[1][1] == 1


def _reset_store_clamped(ctx, rs, w, v):
    """every value reset() stores to current_mtu IS min(.., self.peer_max_udp_payload_size) -- or every path from the store to
    the return passes on_peer_max_udp_payload_size_received(self.peer_max_udp_payload_size), which takes the same min"""
    F = ctx.facts
    v = _peel_conv(v)
    ok = _is_min(v) and any(_is_recorded_limit(_peel_conv(x)) for x in v[3])
    if not ok and w.body is rs:
        ks = [k.bb for k in rs.calls_to('MtuDiscovery::on_peer_max_udp_payload_size_received') if _is_recorded_limit(_peel_conv(arg_desc(F, k, 1)))]
        starts = [w.bb] if w.bb not in ks else []
        ok = bool(ks) and path_avoiding(rs, starts, rs.return_blocks(), ks) is None
    ctx.check(ok, 'd', 'reset_clamps_to_recorded_peer_limit', rs, w.where(), 'current_mtu = min(.., self.peer_max_udp_payload_size)',
              'reset() stores %s to current_mtu without clamping to the recorded peer max_udp_payload_size: after path_changed() a path without MTU discovery sends datagrams larger than the peer accepts' % D.render(v)[:100])


def _peer_limit_recorded_outside_search_state(ctx):
    """MtuDiscovery.peer_max_udp_payload_size (what reset() clamps by): stored on every path of
    on_peer_max_udp_payload_size_received with exactly the announced limit, written nowhere else, constructed as `no limit`"""
    F = ctx.facts
    op = ctx.pfn('MtuDiscovery::on_peer_max_udp_payload_size_received')
    no_limit = F.const_int('quinn_proto::MAX_UDP_PAYLOAD')
    n = 0
    for w in field_writes(F, MT, 'peer_max_udp_payload_size', crate='quinn_proto'):
        r = F.root_of(w.body)
        if r.id != op.id:
            ctx.bad('d', 'peer_limit_recorded_for_reset/unexpected_writer', r, w.where(), 'MtuDiscovery.peer_max_udp_payload_size written (%s) in %s' % (w.kind, r.short))
            continue
        v = describer(F, w.body).rvalue(w.rv, w.bb, w.idx, 0) if w.kind == 'assign' and w.rv and w.rv[0] != 'sd' else ('?',)
        always = w.body is op and all(op.dominates(w.bb, rb) for rb in op.return_blocks())
        exact = v[0] == 'param' and v[1] == 2
        n += 1 if (always and exact) else 0
        ctx.check(always and exact, 'd', 'peer_limit_recorded_for_reset', op, w.where(), 'self.peer_max_udp_payload_size = <the announced limit>, on every path',
                  'the limit recorded for reset() is %s' % ('not stored on every path' if exact else 'not the announced peer max_udp_payload_size: ' + D.render(v)[:100]))
    ctx.floor('d', 'peer_limit_recorded_for_reset', n, 1)
    cons = [c for c in constructions(F, MT, 'MtuDiscovery', crate='quinn_proto') if not c.body.trait.endswith('::Clone')]
    for c in cons:
        if 'peer_max_udp_payload_size' not in c.fields:
            ctx.bad('d', 'peer_limit_starts_unlimited/anchor', c.body, c.where(), 'MtuDiscovery has no field peer_max_udp_payload_size: nothing remembers the peer limit for a path without MTU discovery')
            continue
        v = describer(F, c.body).operand(c.field_op('peer_max_udp_payload_size'), c.bb, c.idx)
        ok = v[0] == 'const' and v[1] == 'int' and int(v[2]) >= no_limit
        ctx.check(ok, 'd', 'peer_limit_starts_unlimited', c.body, c.where(), D.render(v)[:80], 'a new MtuDiscovery starts with a recorded peer limit other than `none yet` (MAX_UDP_PAYLOAD): ' + D.render(v)[:100])
    ctx.floor('d', 'mtu_discovery_constructions', len(cons), 1)


def _disabled_path_applies_known_limit(ctx):
    """PathData::new: a MtuDiscovery::disabled(..) value gets the already-known peer limit (the Option<u16> parameter):
    every path from the construction to the return of its body passes on_peer_max_udp_payload_size_received(<that value>,
    <the limit's payload>), except over the None edge of a test of the limit itself.  When the construction sits in a closure
    that does not do it, the same is required of the enclosing function from the call the closure is handed to."""
    F = ctx.facts
    inst = 'disabled_path_applies_known_peer_limit'
    pn = ctx.pfn('PathData::new')
    names = {nm for i, (ty, nm) in enumerate(pn.locals) if 1 <= i <= pn.argc and nm and ty.replace(' ', '').endswith('Option<u16>')}
    no_limit = F.const_int('quinn_proto::MAX_UDP_PAYLOAD')

    def is_lim(x):
        return (x[0] == 'param' and x[2] in names) or (x[0] == 'upvar' and x[1] in names)

    def limit_arg(x):
        """x IS the payload of the limit (`if let Some(l)`, `.unwrap()` under a Some test) or `limit.unwrap_or(<no limit>)`"""
        x = _payload(_peel_conv(x))
        if _is_call(x, 'Option::unwrap_or') and len(x[3]) == 2 and x[3][1][0] == 'const' and x[3][1][1] == 'int' and int(x[3][1][2]) >= no_limit:
            return is_lim(x[3][0])
        return is_lim(x)

    def covered(b, anchor):
        """None when fine, else a block path from the anchor to a return on which the limit is known but not applied"""
        ks = [k.bb for k in b.calls_to('MtuDiscovery::on_peer_max_udp_payload_size_received') if limit_arg(arg_desc(F, k, 1)) and is_site(arg_desc(F, k, 0), anchor)]
        if anchor.t is None:
            return None
        cut = {(br.bb, none_t) for br, none_t, some_t in _none_edges(F, b, is_lim) if none_t != some_t}
        reach = b.reachable_from(anchor.t, ks, cut) if anchor.t not in ks else set()
        rets = [r for r in b.return_blocks() if r in reach]
        if not rets:
            return None
        return path_avoiding(b, [anchor.t], rets, ks) or [anchor.t, rets[0]]

    if not names:
        ctx.bad('d', inst + '/anchor', pn, pn.where(), 'PathData::new has no Option<u16> parameter carrying the known peer max_udp_payload_size')
        return
    sites = [(b, c) for b in [pn] + list(F.closures_of(pn)) for c in b.calls_to('MtuDiscovery::disabled')]
    for b, c in sites:
        p = covered(b, c)
        if p is not None and b is not pn:
            outer = [k for k in pn.calls() if any(x[0] == 'agg' and x[1] == 'closure' and x[2] == b.canon for i in range(len(k.args)) for x in [arg_desc(F, k, i)])]
            if outer and all(covered(pn, k) is None for k in outer):
                p = None
        ctx.check(p is None, 'd', inst, pn, c.where(), 'disabled(..) is followed by on_peer_max_udp_payload_size_received(known limit) unless the limit is None',
                  'a path built without MTU discovery ignores the already-known peer max_udp_payload_size (%s): after a migration datagrams exceed what the peer accepts' % fmt_path(b, p or []))
    ctx.floor('d', 'disabled_mtud_sites_in_new_path', len(sites), 1)


def _guarded_lowering_store(ctx, op, w, v):
    """`if peer < self.current_mtu { self.current_mtu = peer }` IS `self.current_mtu = self.current_mtu.min(peer)`: the value
    stored IS the announced limit (the parameter itself, nothing added), the store is reachable only over the edge of a branch
    on which `peer < self.current_mtu` (or `<=`) holds, every path from that edge to a return passes the store, and the
    comparison is evaluated on every path through the function (it dominates every return)"""
    if w.body is not op or not (v[0] == 'param' and v[1] == 2):
        return False

    def cur(x):
        return _is_field(x, 'current_mtu') and x[1][0] == 'param' and x[1][1] == 1
    for br, truth, tgt in guard_edges(ctx, op, lambda o, a, b: o in ('Lt', 'Le') and a == v and cur(b)):
        other = br.target(0 if truth else 1)
        if not _only_over_edge(op, br, tgt, other, w.bb):
            continue
        if path_avoiding(op, [tgt], op.return_blocks(), [w.bb]) is not None:
            continue
        if all(op.dominates(br.bb, rb) for rb in op.return_blocks()):
            return True
    return False


def rule_d(ctx):
    F = ctx.facts
    allowed = {'MtuDiscovery::on_acked': 'probe acked', 'MtuDiscovery::black_hole_detected': 'min_mtu', 'MtuDiscovery::on_peer_max_udp_payload_size_received': 'min(old, peer)',
               'MtuDiscovery::reset': 'reset', 'MtuDiscovery::with_state': 'ctor'}
    st = store_values(ctx, MT, 'current_mtu')
    for w, v in st:
        r = F.root_of(w.body)
        if r.short not in allowed:
            ctx.bad('d', 'current_mtu_writers/unexpected_writer', r, w.where(), 'current_mtu stored in %s' % r.short)
            continue
        if r.short == 'MtuDiscovery::on_acked':
            ok = _is_acked_size(F, v)
            ctx.check(ok, 'd', 'mtu_raised_only_to_acked_probe_size', r, w.where(), D.render(v)[:120], 'current_mtu raised to something other than the acked probe size: ' + D.render(v)[:160])
        elif r.short == 'MtuDiscovery::black_hole_detected':
            ctx.check(D.has_field(v, 'min_mtu'), 'd', 'black_hole_falls_back_to_min_mtu', r, w.where(), D.render(v), 'black hole fallback is not min_mtu')
        elif r.short == 'MtuDiscovery::on_peer_max_udp_payload_size_received':
            ok = v[0] == 'call' and v[1].endswith('::min') and D.has_field(v, 'current_mtu') and D.has_param(v, name='peer_max_udp_payload_size')
            ok = ok or _guarded_lowering_store(ctx, r, w, v)
            ctx.check(ok, 'd', 'peer_limit_only_lowers_mtu', r, w.where(), D.render(v), 'peer limit handling no longer min(current, peer)')
        elif r.short == 'MtuDiscovery::reset':
            _reset_store_clamped(ctx, r, w, v)
        else:
            ctx.ok('d', 'current_mtu_writers', r, w.where(), allowed[r.short])
    ctx.floor('d', 'current_mtu_stores', len(st), 4)
    ctx.floor('d', 'reset_current_mtu_stores', sum(1 for w, v in st if F.root_of(w.body).short == 'MtuDiscovery::reset'), 1)
    _peer_limit_recorded_outside_search_state(ctx)
    _disabled_path_applies_known_limit(ctx)
    opa = ctx.pfn('EnabledMtuDiscovery::on_probe_acked')
    rd = [y for _, x in ret_descs(F, opa) for y in flat(x)]
    ok = any(y[0] == 'agg' and y[2].endswith('Some') and D.has_field(y, 'last_probed_mtu') for y in rd)
    ctx.check(ok, 'd', 'acked_probe_size_is_last_probed', opa, opa.where(), 'Some(last_probed_mtu) when in_flight_probe == Some(pn)', 'on_probe_acked returns something other than last_probed_mtu')
    # every `return Some(..)` is unreachable over the edge on which in_flight_probe != Some(<the acked pn>)
    def _is_pn(x):
        return (x[0] == 'param' and x[1] >= 2) or (x[0] == 'agg' and x[2].endswith('Option::Some') and len(x[3]) == 1 and x[3][0][0] == 'param' and x[3][0][1] >= 2)

    def _is_ifp(x):
        return _is_field(_payload(x), 'in_flight_probe')

    def _some_and_eq(x):
        """in_flight_probe.is_some_and(|p| p == pn)"""
        if not (_is_call(x, 'Option::is_some_and') and len(x[3]) == 2 and _is_ifp(x[3][0]) and x[3][1][0] == 'agg' and x[3][1][1] == 'closure'):
            return False
        caps = x[3][1][3]
        cb = [b_ for b_ in F.bodies.values() if b_.canon == x[3][1][2]]
        if len(cb) != 1 or len(caps) != 1 or not _is_pn(caps[0]) or caps[0][0] != 'param':
            return False
        rd = [y for _, r_ in ret_descs(F, cb[0]) for y in flat(r_)]
        return bool(rd) and all(y[0] == 'bin' and y[1] == 'Eq' and {y[2][0], y[3][0]} == {'param', 'upvar'} for y in rd)
    sites = sorted({i for i, j, pl, rv, line in opa.assigns() if i in opa.live_blocks() and pl[0] == 0 and not pl[1] and rv[0] == 'agg' and rv[1][0] == 'adt' and rv[1][2] == 'Some'})
    viol = [(br, tgt) for br, truth, tgt in guard_edges(ctx, opa, lambda o, a, b: o == 'Ne' and ((_is_pn(a) and _is_ifp(b)) or (_is_pn(b) and _is_ifp(a))))]
    viol += [(br, tgt) for br, truth, tgt in bool_edges(ctx, opa, _some_and_eq) if not truth]
    if not sites:
        ctx.bad('d', 'acked_probe_must_be_the_in_flight_one/anchor', opa, opa.where(), 'no `return Some(..)` site found in on_probe_acked')
    elif not viol:
        ctx.bad('d', 'acked_probe_must_be_the_in_flight_one/guard_missing', opa, opa.where(), 'no branch compares in_flight_probe with Some(<acked pn>): any acked packet can now raise the MTU')
    else:
        unprot = [s_ for s_ in sites if not any(opa.dominates(br.bb, s_) and s_ != br.bb and s_ not in opa.reachable_from(tgt, avoid=[br.bb]) for br, tgt in viol)]
        ctx.check(not unprot, 'd', 'acked_probe_must_be_the_in_flight_one', opa, viol[0][0].where(), 'in_flight_probe == Some(pn): %d `return Some(..)` site(s) only reachable over its pass edge' % len(sites),
                  '`return Some(..)` in blocks %s is reachable although in_flight_probe != Some(pn): any acked packet can now raise the MTU' % unprot)
    # reset re-applies the peer limit
    rs = ctx.pfn('MtuDiscovery::reset')
    c = rs.calls_to('MtuDiscovery::on_peer_max_udp_payload_size_received')
    ok = bool(c) and all(D.has_field(arg_desc(F, x, 1), 'peer_max_udp_payload_size') for x in c)
    ctx.check(ok, 'd', 'reset_keeps_peer_limit', rs, rs.where(), 'reset() re-applies state.peer_max_udp_payload_size', 'MtuDiscovery::reset forgets the peer max_udp_payload_size (probes could exceed it after path_changed())')
    _limit_lands_in_live_state(ctx, rs, 'reset_peer_limit_lands_in_new_state', 'reset()')
    nw = ctx.pfn('MtuDiscovery::new')
    c = nw.calls_to('MtuDiscovery::on_peer_max_udp_payload_size_received')
    ctx.check(bool(c), 'd', 'new_path_applies_known_peer_limit', nw, nw.where(), 'new(.., Some(peer_max)) applies it', 'a migrated path no longer starts with the known peer limit')
    _limit_lands_in_live_state(ctx, nw, 'new_path_peer_limit_lands_in_state', 'new()')
    # the callee records exactly the announced limit in the search state (what SearchState::new clamps by)
    op = ctx.pfn('MtuDiscovery::on_peer_max_udp_payload_size_received')
    rec = [w for w in field_writes(F, 'EnabledMtuDiscovery', 'peer_max_udp_payload_size', crate='quinn_proto') if w.kind in ('assign', 'callresult')]
    n = 0
    for w in rec:
        r = F.root_of(w.body)
        if r.id != op.id:
            ctx.bad('d', 'peer_limit_recorded_in_search_state/unexpected_writer', r, w.where(), 'EnabledMtuDiscovery.peer_max_udp_payload_size stored in %s' % r.short)
            continue
        n += 1
        v = describer(F, w.body).rvalue(w.rv, w.bb, w.idx, 0) if w.kind == 'assign' and w.rv and w.rv[0] != 'sd' else ('?',)
        ctx.check(w.body is op and v[0] == 'param' and v[1] == 2, 'd', 'peer_limit_recorded_in_search_state', op, w.where(), 'state.peer_max_udp_payload_size = <the announced limit>',
                  'the search state records something other than the announced peer max_udp_payload_size: ' + D.render(v)[:120])
    ctx.floor('d', 'peer_limit_record_sites', n, 1)
    sp = ctx.pfn('Connection::set_peer_params')
    ctx.check(bool(sp.calls_to('MtuDiscovery::on_peer_max_udp_payload_size_received')), 'd', 'peer_params_apply_limit', sp, sp.where(), 'set_peer_params forwards max_udp_payload_size', 'peer max_udp_payload_size is no longer forwarded to MTU discovery')


def rule_e(ctx):
    F = ctx.facts
    ms = ctx.pfn('Datagrams::max_size')
    rd = [y for _, x in ret_descs(F, ms) for y in flat(x)]
    # every returned Some(v): v IS min(A, B) with A = current_mtu() - predict_1rtt_overhead(..) - SIZE_BOUND and
    # B = peer max_datagram_frame_size - SIZE_BOUND, each checked on its own operand (any order / grouping of the terms)
    def _mtu_side(x):
        pos, neg = _terms(x)
        return (len(pos) == 1 and _is_call(pos[0], 'PathData::current_mtu', 'MtuDiscovery::current_mtu') and len(neg) == 2
                and sum(1 for t in neg if _is_call(t, 'Connection::predict_1rtt_overhead')) == 1 and sum(1 for t in neg if _is_named_const(t, 'SIZE_BOUND')) == 1)

    def _peer_side(x):
        pos, neg = _terms(x)
        return len(pos) == 1 and D.has_field(pos[0], 'max_datagram_frame_size') and _pure(pos[0]) and len(neg) == 1 and _is_named_const(neg[0], 'SIZE_BOUND')
    somes = [y[3][0] for y in rd if y[0] == 'agg' and y[2].endswith('Some') and len(y[3]) == 1]
    ok = bool(somes)
    for v in somes:
        if not (_is_min(v) and ((_mtu_side(v[3][0]) and _peer_side(v[3][1])) or (_mtu_side(v[3][1]) and _peer_side(v[3][0])))):
            ok = False
    ctx.check(ok, 'e', 'datagram_max_size_expression', ms, ms.where(), 'min(peer_limit - SIZE_BOUND, current_mtu - overhead - SIZE_BOUND)', 'Datagrams::max_size expression changed')
    dl = ctx.pfn('Connection::detect_lost_packets')
    bh = dl.calls_to('MtuDiscovery::black_hole_detected')
    do = dl.calls_to('DatagramState::drop_oversized')
    # the limit IS the payload of a max_size() evaluated AFTER black_hole_detected lowered the MTU (producer dominated too)
    def _fresh_limit(a):
        a = _payload(a)
        if a[0] == 'phi':
            return all(_fresh_limit(x) for x in a[1])
        return _is_call(a, 'Datagrams::max_size') and any(dl.dominates(b.bb, a[4]) and b.bb != a[4] for b in bh)
    ok = bool(bh) and bool(do) and all(any(dl.dominates(b.bb, d_.bb) for b in bh) for d_ in do) and all(_fresh_limit(arg_desc(F, d_, 1)) for d_ in do)
    ctx.check(ok, 'e', 'black_hole_drops_oversized_datagrams', dl, dl.where(), 'drop_oversized(max_size()) after black_hole_detected', 'queued datagrams larger than the fallen-back MTU are no longer dropped')


# --------------------------------------------------------------------------
# (f) close frames stay within the size they are given (repair 4a5e927)
# --------------------------------------------------------------------------

_FIXED_PUT = {'put_u8': 1, 'put_i8': 1, 'put_u16': 2, 'put_i16': 2, 'put_u16_le': 2, 'put_u32': 4, 'put_i32': 4, 'put_u32_le': 4, 'put_u64': 8, 'put_i64': 8, 'put_u64_le': 8}
_VARINT_WRAP = ('VarInt::from_u64', 'VarInt::from_u32', 'VarInt::from_u64_unchecked', 'VarInt::into_inner') + _CONV


def _meth(c):
    return c.f.rsplit('::', 1)[-1]


def _nosite(v):
    """descriptor without call-site blocks: two evaluations of the same pure expression compare equal"""
    if not isinstance(v, tuple):
        return v
    if v and v[0] == 'call':
        return tuple(_nosite(x) for x in v[:4])
    return tuple(_nosite(x) for x in v)


def _varint_value(v):
    """the integer a VarInt / varint write carries: VarInt::from_u64(x).unwrap(), x.into_inner(), try_from(x) are all x"""
    while isinstance(v, tuple) and v[0] == 'call' and v[3] and (v[1] in _VARINT_WRAP or D._trait_form(v[1]) in _VARINT_WRAP):
        v = v[3][0]
    return v


def _slice_len(v):
    """`x[..e].len()` / `x[0..e].len()` IS e (the indexing panics unless e <= x.len())"""
    if isinstance(v, tuple) and v[0] == 'call' and v[1].rsplit('::', 1)[-1] == 'len' and len(v[3]) == 1:
        a = v[3][0]
        if a[0] == 'call' and a[1].endswith('Index>::index') and len(a[3]) == 2:
            r = a[3][1]
            if r[0] == 'agg' and r[2].endswith('RangeTo::RangeTo') and len(r[3]) == 1:
                return _peel_conv(r[3][0])
            if r[0] == 'agg' and r[2].endswith('Range::Range') and len(r[3]) == 2 and r[3][0][0] == 'const' and r[3][0][1] == 'int' and str(r[3][0][2]) == '0':
                return _peel_conv(r[3][1])
    return v


def _select_min(F, b, v):
    """`if x < y { x } else { y }` (any of < <= > >=, either operand order, negated or not) IS `x.min(y)`: a two-way phi
    {X, Y} is rewritten to min(X, Y) when it is the value of a local with exactly two whole-local stores, X and Y, and a
    branch comparing exactly X with Y sends the edge on which X <= Y holds only to the store of X and the other edge only
    to the store of Y.  Every local with that pair of stores must pass (a `max` of the same pair anywhere keeps the phi)."""
    if not (isinstance(v, tuple) and v[0] == 'phi' and len(v[1]) == 2):
        return v
    X, Y = _nosite(v[1][0]), _nosite(v[1][1])
    d = describer(F, b)
    live = b.live_blocks()
    found = 0
    for l in range(len(b.locals)):
        defs = [df for df in b.defs_of(l) if df[0] == 'arg' or df[1] in live]
        if len(defs) != 2 or any(df[0] != 'stmt' for df in defs):
            continue
        vals = [_nosite(_peel_conv(d.rvalue(df[3], df[1], df[2], 0))) for df in defs]
        if sorted(vals, key=repr) != sorted([X, Y], key=repr) or X == Y:
            continue
        blk = {vals[0]: defs[0][1], vals[1]: defs[1][1]}
        ok = False
        for br in branches(F, b):
            for truth in (True, False):
                rel = relation_on(br.desc, truth)
                if rel is None or rel[0] not in ('Lt', 'Le'):
                    continue
                p, q = _nosite(_peel_conv(rel[1])), _nosite(_peel_conv(rel[2]))
                if {p, q} != {X, Y}:
                    continue
                tgt, other = br.target(1 if truth else 0), br.target(0 if truth else 1)
                if _only_over_edge(b, br, tgt, other, blk[p]) and _only_over_edge(b, br, other, tgt, blk[q]):
                    ok = True
        if not ok:
            return v
        found += 1
    if not found:
        return v
    return ('call', 'cmp::min', 'core::cmp::min', (v[1][0], v[1][1]), -1)


def _varint_len(n):
    return 1 if n < 1 << 6 else 2 if n < 1 << 14 else 4 if n < 1 << 30 else 8


def _const_value(F, v):
    if not (isinstance(v, tuple) and v[0] == 'const'):
        return None
    if v[1] == 'int':
        try:
            return int(v[2])
        except ValueError:
            return None
    cs = [c for p_, c in F.consts.items() if v[3] and (p_ == v[3] or path_matches(p_, v[3]))]
    if len(cs) == 1 and cs[0].get('kind') == 'int':
        return int(cs[0]['val'])
    return None


def _is_sink(body, v):
    """v IS a `&mut <buffer>` parameter other than the receiver"""
    return isinstance(v, tuple) and v[0] == 'param' and v[1] != 1 and str(body.locals[v[1]][0]).startswith('&mut ')


def _codec_class(F, ty):
    """how `BufMutExt::write::<ty>` encodes: ('varint',) = QUIC varint of the carried integer, ('fixed', n), or None (unknown)"""
    if ty == 'varint::VarInt' or ty.endswith('::varint::VarInt'):
        return ('varint',)
    bs = [b for b in F.bodies.values() if b.crate == 'quinn_proto' and b.name == 'encode' and (b.trait or '').endswith('coding::Codec') and b.self_ty == ty]
    if len(bs) != 1:
        return None
    b = bs[0]
    ws = [c for c in b.calls() if c.bb in b.live_blocks() and c.args and _is_sink(b, arg_desc(F, c, 0))]
    if len(ws) != 1 or len(ws[0].args) != 2:
        return None
    a = arg_desc(F, ws[0], 1)
    if _meth(ws[0]) == 'write_var' and _is_field(a, '0') and a[1][0] == 'param' and a[1][1] == 1:
        return ('varint',)
    if _meth(ws[0]) in _FIXED_PUT and a[0] == 'param' and a[1] == 1:
        return ('fixed', _FIXED_PUT[_meth(ws[0])])
    return None


def _close_reason_budget(ctx, b):
    """The frame written by <Close>::encode(out, max_len) is `header fields ++ reason[..n]`.  n IS min(.., B) where B is
    the max_len parameter minus terms that account for EVERY other write to `out`: a write of a varint is accounted for by
    a term VarInt::size(<the same value>) (for a written min(a, ..) the size of `a` is an upper bound), anything left by
    integer constants whose sum is at least the worst-case size of the writes left (constant value: its encoded size;
    fixed-width: its width; unknown varint: 8)."""
    F = ctx.facts
    inst = 'close_reason_budget_covers_header'
    for cb in F.closures_of(b):
        if any(_meth(c) in ('write', 'write_var') or _meth(c).startswith('put_') for c in cb.calls()):
            ctx.bad('f', inst + '/anchor', b, cb.where(), 'the frame is (also) written from a closure; the writes cannot be ordered against the budget')
            return
    sinks = [c for c in b.calls() if c.bb in b.live_blocks() and c.args and _is_sink(b, arg_desc(F, c, 0))]
    reason = []
    for c in sinks:
        if _meth(c) == 'put_slice' and len(c.args) == 2:
            a = arg_desc(F, c, 1)
            if a[0] == 'call' and a[1].endswith('Index>::index') and len(a[3]) == 2 and a[3][0][0] == 'field' and a[3][0][1][0] == 'param' and a[3][0][1][1] == 1:
                r = a[3][1]
                if r[0] == 'agg' and r[2].endswith('Range::Range') and len(r[3]) == 2 and _const_value(F, r[3][0]) == 0:
                    reason.append((c, r[3][1]))
                elif r[0] == 'agg' and r[2].endswith('RangeTo::RangeTo') and len(r[3]) == 1:
                    reason.append((c, r[3][0]))
    if len(reason) != 1:
        ctx.bad('f', inst + '/anchor', b, b.where(), 'expected exactly one `out.put_slice(&self.<reason>[..n])`, found %d' % len(reason))
        return
    rc, n = reason[0]
    n = _select_min(F, b, _peel_conv(n))
    others = [c for c in sinks if c is not rc]
    why = []
    if any(c.bb in b.reachable_strict(c.bb) for c in sinks):
        why.append('a write to the buffer sits in a loop')
    writes = []        # (call, worst-case size, value or None)
    for c in others:
        m = _meth(c)
        cls = None
        if m == 'write_var' and len(c.args) == 2:
            cls = ('varint',)
        elif m == 'write' and len(c.args) == 2 and c.ga and len(c.ga) >= 2:
            cls = _codec_class(F, c.ga[-1])
        elif m in _FIXED_PUT:
            cls = ('fixed', _FIXED_PUT[m])
        if cls is None:
            why.append('a write of unknown size at %s' % c.where())
        elif cls[0] == 'fixed':
            writes.append((c, cls[1], None))
        else:
            v = _select_min(F, b, _slice_len(_varint_value(arg_desc(F, c, 1))))
            k = _const_value(F, v)
            writes.append((c, 8 if k is None else _varint_len(k), None if k is not None else v))
    verdicts = []
    if not _is_min(n):
        why.append('the reason length %s is not min(.., budget)' % D.render(n)[:80])
    for B in (n[3] if _is_min(n) else ()):
        pos, neg = _terms(_peel_conv(B))
        if not (len(pos) == 1 and pos[0][0] == 'param' and pos[0][1] != 1 and not _is_sink(b, pos[0])):
            verdicts.append('%s does not start from the max_len parameter alone' % D.render(B)[:60])
            continue
        sizes = [_nosite(_varint_value(t[3][0])) for t in neg if _is_call(t, 'VarInt::size') and len(t[3]) == 1]
        allowance = sum(k for k in (_const_value(F, t) for t in neg) if k is not None)
        left = []
        for c, worst, v in writes:
            cands = []
            if v is not None:
                cands = [_nosite(v)] + ([_nosite(_varint_value(x)) for x in v[3]] if _is_min(v) else [])
            hit = [s_ for s_ in cands if s_ in sizes]
            if hit:
                sizes.remove(hit[0])
            else:
                left.append((c, worst))
        need = sum(w_ for _, w_ in left)
        if need <= allowance:
            verdicts = None
            break
        verdicts.append('the budget subtracts constants summing to %d but the writes at %s, not matched by a VarInt::size(<same value>) term, can take %d bytes' % (
            allowance, [c.where().rsplit('/', 1)[-1] for c, _ in left], need))
    ok = not why and verdicts is None
    ctx.check(ok, 'f', inst, b, rc.where(), 'reason[..min(len, max_len - sizes of the %d header writes)]' % len(others),
              'the CONNECTION_CLOSE reason budget does not cover the header actually written, the frame can exceed max_len (and the datagram the MTU): ' + '; '.join(why + (verdicts or [])))
    return len(others)


def rule_f(ctx):
    n = 0
    for fn in ('frame::ConnectionClose::encode', 'frame::ApplicationClose::encode'):
        n += _close_reason_budget(ctx, ctx.pfn(fn)) or 0
    ctx.floor('f', 'close_header_writes', n, 7)


def run(ctx):
    rule_a(ctx)
    rule_b(ctx)
    rule_c(ctx)
    rule_d(ctx)
    rule_e(ctx)
    rule_f(ctx)
