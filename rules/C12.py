"""C12 — sending respects the congestion window; loss accounting balances (structural part)."""
from engine.rulelib import *
from engine import desc as D

EXPLANATION = ("Static rules over the type-checked MIR of quinn-proto: (a) every SentPacket that leaves sent_packets is handed to "
               "remove_in_flight on that path (all 8 producer sites classified; flows checked on all CFG paths); in-flight counters have "
               "a single inserter/remover; (b) the congestion gate of poll_transmit compares in_flight.bytes + bytes_to_send against "
               "Controller::window() with >=, bytes_to_send = a full segment + the not-yet-tracked packet charged up to the end of its datagram, and its blocked edge skips packet construction; (c) PacketBuilder::new in the send loop is "
               "reachable only past the gate or under an enumerated exemption (loss probe / not ack-eliciting / close); (d) loss probes are "
               "added in {1,2} and consumed one per datagram; (e) built-in controllers' window stores end in a floor idiom; (f) loss "
               "declaration thresholds and ACK sanity guards. Numeric traces (bytes in flight returning to zero, no spurious loss) are NOT decided.")
RULE = "rule instances = (rule, site) pairs over MIR call sites / branches / stores; non-trivial = bound to at least one real site"

PRODUCERS = ['PacketSpace::take', 'SentPackets::into_values']
SINKS = ['Connection::remove_in_flight', 'PathData::remove_in_flight', 'Connection::on_packet_acked']
# (root function, producer callee) -> class ; confirmed by reading
CLASSES = {
    ('Connection::on_ack_received', 'PacketSpace::take'): 'acked',
    ('Connection::detect_lost_packets', 'PacketSpace::take'): 'lost',  # two sites: lost + lost MTU probe
    ('Connection::process_decrypted_packet', 'PacketSpace::take'): 'retry_acked_pn0',
    ('Connection::process_decrypted_packet', 'SentPackets::into_values'): 'retry_or_0rtt_reject_drain',  # two sites
    ('Connection::discard_space', 'SentPackets::into_values'): 'space_discarded',
}
WRAPPERS = ('PacketSpace::take', 'PacketSpace::sent')  # SentPackets::remove inside these is the storage layer


def producers(ctx):
    F = ctx.facts
    out = []
    for c in F.callers_of('PacketSpace::take', 'SentPackets::into_values', 'SentPackets::remove', crate='quinn_proto'):
        r = F.root_of(c.body)
        if r.short in WRAPPERS and c.is_('SentPackets::remove'):
            continue
        out.append(c)
    return out


def rule_a(ctx):
    F = ctx.facts
    ps = producers(ctx)
    n = 0
    for c in ps:
        r = F.root_of(c.body)
        key = (r.short, short(c.f))
        cls = CLASSES.get(key)
        if cls is None:
            ctx.bad('a', 'unclassified_sent_packet_producer', r, c.where(),
                    'new site %s yields an owned SentPacket in %s; every such site must be classified and hand the packet to remove_in_flight' % (short(c.f), r.short))
            continue
        sinks, path = flows_always(F, c, SINKS)
        n += 1
        if not sinks:
            ctx.bad('a', 'take_without_remove_in_flight', r, c.where(),
                    'SentPacket produced by %s never reaches remove_in_flight/on_packet_acked in %s' % (short(c.f), r.short), site_class=cls)
        elif path is not None:
            ctx.bad('a', 'take_without_remove_in_flight', r, c.where(),
                    'a path from the binding of the SentPacket to a return avoids remove_in_flight: %s' % fmt_path(c.body, path), site_class=cls)
        else:
            ctx.ok('a', 'take_flows_to_remove_in_flight', r, c.where(), 'class %s; sink at line(s) %s' % (cls, [s.line for s in sinks]))
    ctx.floor('a', 'producers', n, 7)
    # forgotten tail: PacketSpace::sent's result flows to remove_in_flight in PathData::sent
    ps_sent = ctx.pfn('PathData::sent')
    for c in ps_sent.calls_to('PacketSpace::sent'):
        sinks, path = flows_always(F, c, ['PathData::remove_in_flight'])
        ctx.check(bool(sinks) and path is None, 'a', 'forgotten_tail_removed_from_in_flight', ps_sent, c.where(),
                  'forgotten packet returned by PacketSpace::sent is removed from in-flight', 'forgotten packet is not removed from in-flight counters')
    # on_packet_acked must hand its parameter to remove_in_flight on every path
    opa = ctx.pfn('Connection::on_packet_acked')
    ok = must_call(F, opa, ['Connection::remove_in_flight'], depth=0)
    cs = opa.calls_to('Connection::remove_in_flight')
    flows = [c for c in cs if D.has_param(arg_desc(F, c, 1), name='info')]
    ctx.check(ok and bool(flows), 'a', 'on_packet_acked_removes_in_flight', opa, opa.where(),
              'on_packet_acked(info) must-calls remove_in_flight(&info)', 'on_packet_acked no longer always calls remove_in_flight(&info)')
    # Connection::remove_in_flight reaches PathData::remove_in_flight for path and prev_path
    rif = ctx.pfn('Connection::remove_in_flight')
    ctx.check(may_reach(F, rif, ['PathData::remove_in_flight'], 1), 'a', 'conn_remove_reaches_path_remove', rif, rif.where(),
              'delegates to PathData::remove_in_flight', 'no longer delegates to PathData::remove_in_flight')
    who_may_call(ctx, 'a', 'inflight_remove_single_caller', ['InFlight::remove'], ['PathData::remove_in_flight'], floor=1)
    who_may_call(ctx, 'a', 'inflight_insert_single_caller', ['InFlight::insert'], ['PathData::sent'], floor=1)
    who_may_call(ctx, 'a', 'path_sent_single_caller', ['PathData::sent'], ['PacketBuilder::finish_and_track'], floor=1)
    # generation match guard in PathData::remove_in_flight: InFlight::remove only on generation equality
    prf = ctx.pfn('PathData::remove_in_flight')
    # exact: an Eq/Ne comparison whose two operands ARE packet.path_generation and self.generation (any other relation,
    # e.g. `>`, lets packets of an older generation through)
    rm = [c.bb for c in prf.calls_to('InFlight::remove')]
    okg = False
    for br in branches(F, prf):
        rel = relation_on(br.desc, True)
        if rel is None or rel[0] not in ('Eq', 'Ne'):
            continue
        names = sorted(x[2] if x[0] == 'field' else '?' for x in (rel[1], rel[2]))
        if names != ['generation', 'path_generation']:
            continue
        eq_t = br.true_target() if rel[0] == 'Eq' else br.false_target()
        ne_t = br.false_target() if rel[0] == 'Eq' else br.true_target()
        if rm and all(edge_dominates(prf, br.bb, eq_t, x) for x in rm) and not any(x in prf.reachable_from(ne_t) for x in rm):
            okg = True
    ctx.check(okg, 'a', 'remove_only_on_matching_generation', prf, prf.where(),
              'InFlight::remove only when packet.path_generation == self.generation',
              'InFlight::remove is no longer guarded by the path generation comparison')


PATH_CTORS = ('PathData::new', 'PathData::from_previous')


def _is_step(v, field):
    """v IS `self.<field> + k` / `self.<field>.wrapping_add(k)` with a non-zero integer constant k"""
    def k(x):
        return x[0] == 'const' and x[1] == 'int' and str(x[2]) not in ('0', '')
    if v[0] == 'bin' and v[1] == 'Add':
        a, b = v[2], v[3]
    elif v[0] == 'call' and v[1] in ('u64::wrapping_add', 'u64::checked_add', 'u64::strict_add') and len(v[3]) == 2:
        a, b = v[3]
    else:
        return False
    return (_is_field(a, field) and k(b)) or (_is_field(b, field) and k(a))


def _read_sites(body, operand, adt, field, seen=None):
    """statements that read `adt.field` and whose value is what `operand` carries (copies through whole locals followed
    backwards); None when some reaching definition is anything else"""
    if operand[0] not in ('c', 'm'):
        return None
    place = operand[1]
    if place_ends_in_field(place, adt, field):
        return []   # read in place at the use
    if place[1]:
        return None
    seen = set() if seen is None else seen
    if place[0] in seen:
        return []
    seen.add(place[0])
    out = []
    defs = body.defs_of(place[0])
    if not defs:
        return None
    for df in defs:
        if df[0] != 'stmt' or df[3][0] != 'use' or df[3][1][0] not in ('c', 'm'):
            return None
        src = df[3][1]
        if place_ends_in_field(src[1], adt, field):
            out.append((df[1], df[2]))
            continue
        sub = _read_sites(body, src, adt, field, seen)
        if sub is None:
            return None
        out.extend(sub)
    return out


def _copy_root(body, operand):
    """the local that `operand` is a plain copy of: whole-local copies/moves followed backwards while the copied local has
    that copy as its only definition; None for constants and projected places"""
    if operand[0] not in ('c', 'm') or operand[1][1]:
        return None
    loc = operand[1][0]
    seen = set()
    while loc not in seen:
        seen.add(loc)
        defs = body.defs_of(loc)
        if len(defs) == 1 and defs[0][0] == 'stmt' and defs[0][3][0] == 'use' and defs[0][3][1][0] in ('c', 'm') and not defs[0][3][1][1][1]:
            loc = defs[0][3][1][1][0]
        else:
            break
    return loc


def _same_value_as_store(body, operand, stores):
    """the store among `stores` (plain `field = local` assignments in `body`) that writes the very value `operand` carries:
    both are copies of one local that is defined exactly once, at a site that is not on a cycle (so it is one evaluation,
    `let g = counter + 1; counter = g; f(g)`), or None"""
    root = _copy_root(body, operand)
    if root is None:
        return None
    defs = body.defs_of(root)
    if len(defs) != 1 or defs[0][0] not in ('stmt', 'call') or defs[0][1] in body.reachable_strict(defs[0][1]):
        return None
    for w in stores:
        if w.kind == 'assign' and w.rv and w.rv[0] == 'use' and _copy_root(body, w.rv[1]) == root:
            return w
    return None


def _path_generation(ctx):
    """PathData::remove_in_flight attributes a packet to a path by `packet.path_generation == self.generation` (checked by
    remove_only_on_matching_generation). That is an identification only if no two paths of a connection ever carry the same
    generation, including a path that replaced an abandoned one (migration aborted, `path = prev`), whose packets are still
    outstanding:
      * PathData.generation is set only by the aggregate in the two constructors, from their parameter;
      * every constructor call outside Connection's own construction passes the connection-level counter
        Connection.path_counter, read AFTER a store `path_counter = path_counter + k` (k != 0) that lies on every path to the
        call, and two constructor calls are never reached without such a store in between;
      * that counter has no other store (it never goes back: it is not derived from the generation of whatever path is
        current); the connection's first path gets the constant the counter starts with;
      * a SentPacket records the generation of the path it is charged to."""
    F = ctx.facts
    inst = 'path_generation_unique_per_path'
    ws = [w for w in field_writes(F, 'PathData', 'generation', crate='quinn_proto', include_borrows=True)]
    ctx.check(not ws, 'a', 'path_generation_set_at_construction_only', 'PathData.generation', '', 'no store outside the aggregate',
              'PathData.generation is modified after construction: %s' % [w.where() for w in ws])
    gen_arg = {}
    cons = [c for c in constructions(F, 'paths::PathData', crate='quinn_proto')]
    for c in cons:
        r = F.root_of(c.body)
        dd = describer(F, c.body)
        op = c.field_op('generation')
        v = dd.operand(op, c.bb, c.idx) if op is not None else ('const', 'other', '<none>', '')
        ok = r.short in PATH_CTORS and c.body.id == r.id and v[0] == 'param'
        if ok:
            gen_arg[r.short] = v[1] - 1
        ctx.check(ok, 'a', 'path_generation_set_at_construction_only', r, c.where(), 'generation: parameter %s of %s' % (v[2] if ok else '', r.short),
                  'a PathData is built with a generation that is not the constructor parameter: %s in %s' % (D.render(v)[:120], r.short))
    ctx.floor('a', 'pathdata_constructions', len(cons), 2)
    # the counter
    incs, other = [], []
    for w in field_writes(F, 'connection::Connection', 'path_counter', crate='quinn_proto', include_borrows=True):
        if w.kind == 'mutborrow':
            bs = borrow_stores(F, w)
            if not bs:
                other.append((w, '&mut borrow'))
            ws2 = bs
        else:
            ws2 = [w]
        for x in ws2:
            dd = describer(F, x.body)
            v = dd.call_desc(x.call, 0) if x.kind == 'callresult' else (dd.rvalue(x.rv, x.bb, x.idx, 0) if x.rv and x.rv[0] != 'sd' else ('const', 'other', '<sd>', ''))
            if _is_step(v, 'path_counter'):
                incs.append(x)
            else:
                other.append((x, D.render(v)[:120]))
    ctx.check(not other, 'a', 'path_counter_only_incremented', 'Connection.path_counter', '', '%d store(s), each `path_counter + k`' % len(incs),
              'Connection.path_counter is stored with something else than `path_counter + k`: generations can repeat: %s'
              % [(w.where(), v) for w, v in other])
    ctx.floor('a', 'path_counter_increments', len(incs), 1)
    # constructor calls
    calls = [c for c in F.callers_of(*PATH_CTORS, crate='quinn_proto') if not is_noise(c)]
    n = 0
    for c in calls:
        b = c.body
        r = F.root_of(b)
        if r.short in PATH_CTORS:
            continue
        n += 1
        ai = gen_arg.get(short(c.f))
        if ai is None or ai >= len(c.args):
            ctx.bad('a', inst, r, c.where(), 'cannot locate the generation argument of %s' % short(c.f))
            continue
        g = arg_desc(F, c, ai)
        if g[0] == 'const':
            # the first path of a connection: the same function builds the Connection with the counter starting at that constant
            init = [k for k in constructions(F, 'connection::Connection', crate='quinn_proto') if k.body.id == b.id and k.field_op('path_counter') is not None]
            dd = describer(F, b)
            same = bool(init) and all(dd.operand(k.field_op('path_counter'), k.bb, k.idx) == g for k in init)
            others_ = [x for x in calls if x.body.id == b.id and x is not c]
            ctx.check(same and not others_, 'a', inst, r, c.where(), 'first path: generation %s = initial path_counter' % D.render(g),
                      'a path is created with the constant generation %s outside the construction of the connection (or besides another path)' % D.render(g))
            continue
        here = [w for w in incs if w.body.id == b.id]
        inc_bbs = {w.bb for w in here}
        why = ''
        # the counter value may also reach the constructor through the local it was stored from (`let g = path_counter + k;
        # path_counter = g; new(.., g, ..)`): then the argument IS the value of the increment store `same`, which must
        # dominate the call with no further store of the counter in between
        same = _same_value_as_store(b, c.args[ai], here) if not _is_field(g, 'path_counter') else None
        if same is not None:
            if not ((same.bb == c.bb) or b.dominates(same.bb, c.bb)):
                why = 'a path entry -> %s does not pass the store of the incremented counter whose value is handed to it' % short(c.f)
            for x in here:
                if not why and x is not same and ((x.bb == same.bb and x.idx > same.idx) or
                                                  (x.bb != same.bb and x.bb in b.reachable_strict(same.bb) and c.bb in b.reachable_from(x.bb))):
                    why = 'path_counter is stored again (%s) between the increment whose value is passed and %s' % (x.where(), short(c.f))
            for x in calls:
                if not why and x.body.id == b.id and x.bb in b.reachable_strict(c.bb, avoid=inc_bbs):
                    why = 'a second path can be constructed (%s) without a further increment of path_counter' % x.where()
        elif not _is_field(g, 'path_counter') or g[1][0] != 'param':
            why = 'the generation of the new path is not the connection-level counter path_counter but %s' % D.render(g)[:160]
        elif not here or (c.bb not in inc_bbs and path_avoiding(b, [0], [c.bb], inc_bbs) is not None):
            why = 'a path entry -> %s does not increment path_counter' % short(c.f)
        else:
            reads = _read_sites(b, c.args[ai], 'connection::Connection', 'path_counter')
            if reads is None:
                why = 'cannot establish where the counter value handed to the constructor was read'
            else:
                reads = reads or [(c.bb, term_idx(b, c.bb))]
                for bb, idx in reads:
                    if not any((w.bb == bb and w.idx < idx) or (w.bb != bb and b.dominates(w.bb, bb)) for w in here):
                        why = 'the counter value handed to the constructor is read before the increment (line of read: block %d)' % bb
            for x in calls:
                if not why and x.body.id == b.id and x.bb in b.reachable_strict(c.bb, avoid=inc_bbs):
                    why = 'a second path can be constructed (%s) without a further increment of path_counter' % x.where()
        ctx.check(not why, 'a', inst, r, c.where(), 'generation = path_counter, incremented on every path before the call',
                  'two paths of a connection can get the same generation (remove_in_flight then subtracts a packet of an abandoned path from '
                  'the live one): ' + why)
    ctx.floor('a', 'path_constructor_calls', n, 3)
    # the generation a packet records is that of the path charged in the same function
    sp = constructions(F, 'spaces::SentPacket', crate='quinn_proto')
    for c in sp:
        r = F.root_of(c.body)
        dd = describer(F, c.body)
        op = c.field_op('path_generation')
        v = dd.operand(op, c.bb, c.idx) if op is not None else ('const', 'other', '<none>', '')
        base = None
        if v[0] == 'call' and _is_call(v, 'PathData::generation') and v[3]:
            base = v[3][0]
        elif _is_field(v, 'generation'):
            base = v[1]
        sent = [arg_desc(F, x, 0) for x in c.body.calls_to('PathData::sent')]
        ctx.check(base is not None and bool(sent) and all(x == base for x in sent), 'a', 'sent_packet_records_generation_of_charged_path', r, c.where(),
                  'path_generation = generation of the path whose in-flight counters are charged',
                  'SentPacket.path_generation is not the generation of the path charged by PathData::sent: %s' % D.render(v)[:160])
    ctx.floor('a', 'sent_packet_constructions', len(sp), 1)


def _space_index(d):
    """d is `self.spaces[i]` (Index / IndexMut call on the field): returns the descriptor of i"""
    if d[0] == 'call' and (d[1].endswith('::index_mut') or d[1].endswith('::index')) and len(d[3]) == 2 and _is_field(d[3][0], 'spaces'):
        return d[3][1]
    if d[0] == 'index' and _is_field(d[1], 'spaces'):
        return d[2] if len(d) > 2 else None
    return None


def _space_overwrites(ctx):
    """A PacketSpace owns the record of its outstanding packets (sent_packets). Overwriting a whole space of
    Connection.spaces, or its sent_packets field, drops that record, so the packets in it can never be acknowledged, lost
    or abandoned any more: their bytes would stay in flight for ever. Every such store is therefore preceded, on every path,
    by Connection::discard_space of the SAME space (which drains sent_packets through remove_in_flight: class
    space_discarded), with no packet recorded in between; and discard_space drains the space named by its argument."""
    F = ctx.facts
    inst = 'space_overwritten_only_after_discard'
    sites = []   # (body, bb, idx, line, target descriptor or None)
    for b in F.code_bodies('quinn_proto'):
        r = F.root_of(b)
        if r.short.startswith(('PacketSpace::', 'SentPackets::', '<PacketSpace as', '<SentPackets as')) or r.name in CTORS:
            continue
        live = b.live_blocks()
        dd = None
        for i, j, s in b.stmts():
            if i not in live or s[0] != '=':
                continue
            pl, rv = s[1], s[2]
            if rv[0] == 'ref':
                continue
            tgt = None
            hit = False
            if pl[1] == ['*'] and str(b.locals[pl[0]][0]).replace(' ', '') in ('&mutconnection::spaces::PacketSpace', '&mutconnection::spaces::SentPackets', '&mutconnection::sent_packets::SentPackets'):
                hit = True
                dd = dd or describer(F, b)
                tgt = dd.place([pl[0], []], i, j)
                if _is_field(tgt, 'sent_packets'):
                    tgt = tgt[1]
            elif pl[1] and isinstance(pl[1][-1], list) and pl[1][-1][0] in ('i', 'ci') and len(pl[1]) >= 2 and isinstance(pl[1][-2], list) \
                    and pl[1][-2][0] == 'f' and pl[1][-2][1] == 'spaces' and pl[1][-2][2].endswith('connection::Connection'):
                hit = True
            elif place_ends_in_field(pl, 'PacketSpace', 'sent_packets'):
                hit = True
                dd = dd or describer(F, b)
                base = [pl[0], pl[1][:-1]]
                if base[1] == ['*'] or not base[1]:
                    tgt = dd.place([pl[0], []], i, j)
            if hit:
                sites.append((b, i, j, s[3], tgt))
    for b, i, j, line, tgt in sites:
        r = F.root_of(b)
        where = '%s:%d' % (b.file, line)
        idx = _space_index(tgt) if tgt is not None else None
        if idx is None or idx[0] == 'phi':
            ctx.bad('a', inst, r, where, 'a PacketSpace / its sent_packets is overwritten through a place that cannot be identified as self.spaces[i]')
            continue
        ds = [c for c in b.calls_to('Connection::discard_space') if len(c.args) == 3 and arg_desc(F, c, 2) == idx and c.bb != i]
        dbs = {c.bb for c in ds}
        why = ''
        if not ds:
            why = 'no discard_space(%s) in %s' % (D.render(idx), r.short)
        else:
            p = path_avoiding(b, [0], [i], dbs)
            if p is not None:
                why = 'a path reaches the store without discard_space(%s): %s' % (D.render(idx), fmt_path(b, p))
            else:
                for m in may_sites(F, b, ['PacketSpace::sent', 'SentPackets::insert'], 3):
                    if m not in dbs and m in b.live_blocks() and path_avoiding(b, b.succ[m], [i], dbs) is not None:
                        why = 'a packet can be recorded between discard_space and the store (block %d)' % m
        ctx.check(not why, 'a', inst, r, where, 'preceded on every path by discard_space(%s)' % D.render(idx),
                  'the sent-packet record of a space is dropped without removing its packets from the in-flight counters: ' + why)
    ctx.floor('a', 'space_overwrite_sites', len(sites), 1)
    dsf = ctx.pfn('Connection::discard_space')
    ivs = dsf.calls_to('SentPackets::into_values')
    okd = bool(ivs)
    for c in ivs:
        a = arg_desc(F, c, 0)
        srcs = [x for x in D.walk(a) if _is_field(x, 'sent_packets')]
        okd = okd and bool(srcs) and all((_space_index(x[1]) or ('?',))[0] == 'param' and _space_index(x[1])[1] == 3 for x in srcs)
    ctx.check(okd, 'a', 'discard_space_drains_named_space', dsf, dsf.where(), 'drains self.spaces[space_id].sent_packets',
              'discard_space no longer drains the sent packets of the space given by its argument')


def gate_branch(ctx, pt):
    """the congestion gate: a comparison between (in_flight.bytes + x) and Controller::window()"""
    F = ctx.facts
    res = []
    for br in branches(F, pt):
        rel = relation_on(br.desc, True)
        if rel is None:
            continue
        op, a, b = rel
        both = (a, b)
        if any(D.has_call(x, 'Controller::window') for x in both) and any(D.has_field(x, 'in_flight') and D.has_field(x, 'bytes') for x in both):
            res.append(br)
    return res


def rule_b(ctx):
    F = ctx.facts
    pt = ctx.pfn('Connection::poll_transmit')
    gs = gate_branch(ctx, pt)
    if not ctx.check(len(gs) == 1, 'b', 'congestion_gate_present', pt, pt.where(), 'one gate comparison found', 'expected exactly one comparison of in_flight.bytes+bytes_to_send with Controller::window(), found %d' % len(gs)):
        return None
    g = gs[0]
    # relation: blocked iff in_flight + bytes_to_send >= window  <=>  NOT (in_flight+bts < window)
    rel_t = relation_on(g.desc, True)
    op, a, b = rel_t
    # normalise to 'blocked relation'
    lhs_is_inflight = D.has_field(a, 'in_flight')
    # determine which edge is "blocked": the edge from which the `congestion_blocked = true` store is reached first
    d = describer(F, pt)
    blocked_target = None
    for truth in (True, False):
        rel = relation_on(g.desc, truth)
        o, x, y = rel
        # blocked relation is window <= inflight+bts ; the window side IS the Controller::window() call (not a scaled /
        # offset value of it) and the other side is a sum with in_flight.bytes as one summand
        if o == 'Le' and _is_call(x, 'Controller::window') and any(_is_inflight_bytes(t) for t in _summands(y)):
            blocked_target = g.target(1 if truth else 0)
            pass_target = g.target(0 if truth else 1)
    if not ctx.check(blocked_target is not None, 'b', 'gate_relation_ge', pt, g.where(),
                     'blocked iff in_flight.bytes + bytes_to_send >= window()',
                     'gate relation is not `in_flight.bytes + bytes_to_send >= window()` (found %s)' % D.render(g.desc)[:400]):
        return None
    # operands: the bytes about to be sent include a full segment: besides in_flight.bytes the sum has a summand that is
    # the segment size itself (every reaching value a plain size read, one of them PathData::current_mtu())
    o, x, y = relation_on(g.desc, True)
    side = x if D.has_field(x, 'in_flight') else y
    rest = [t for t in _summands(side) if not _is_inflight_bytes(t)]
    ctx.check(side[0] == 'bin' and side[1] == 'Add' and any(_is_segment_size(t) for t in rest), 'b', 'gate_adds_bytes_to_send', pt, g.where(),
              'in_flight.bytes + bytes_to_send (a full segment is a summand)',
              'gate no longer adds the bytes about to be sent (no full-segment summand next to in_flight.bytes): %s' % D.render(side)[:400])
    _pending_packet_charge(ctx, pt, g, rest)
    # blocked edge skips packet construction in this iteration: PacketBuilder::new of the loop not reachable without passing the loop header
    pb = [c for c in pt.calls_to('PacketBuilder::new')]
    # the loop header = block of the `space_idx < spaces.len()` comparison: approximated as the dominator shared by gate and builder; we
    # check instead that from the blocked edge the builder is not reachable while avoiding the gate's own dominating loop head
    head = loop_head(pt, g.bb)
    hit = [c for c in pb if head is not None and c.bb in pt.reachable_from(blocked_target, avoid=[head])]
    ctx.check(head is not None and not hit, 'b', 'blocked_edge_skips_packet', pt, g.where(),
              'on the blocked edge no PacketBuilder::new is reachable within the same loop iteration',
              'on the congestion-blocked edge a packet can still be built in the same iteration')
    return g, blocked_target, pass_target, head


def _is_call(d, name):
    """d IS a call of `name` (every reaching value, for a phi)"""
    if d[0] == 'phi':
        return bool(d[1]) and all(_is_call(x, name) for x in d[1])
    return d[0] == 'call' and D.has_call(('call', d[1], d[2], (), 0), name)


def _is_field(d, name):
    return d[0] == 'field' and d[2] == name


def _is_product(d, k, pred):
    """d is exactly `k * y` with pred(y)"""
    if not (d[0] == 'bin' and d[1] == 'Mul'):
        return False
    for c, y in ((d[2], d[3]), (d[3], d[2])):
        if c[0] == 'const' and c[1] == 'int' and str(c[2]) == str(k) and pred(y):
            return True
    return False


def _summands(d):
    """terms of a (nested) addition"""
    if d[0] == 'bin' and d[1] == 'Add':
        return _summands(d[2]) + _summands(d[3])
    return [d]


def _is_inflight_bytes(d):
    return _is_field(d, 'bytes') and _is_field(d[1], 'in_flight')


def _plain_read(d):
    """a call whose arguments are plain places (params / fields): `self.path.current_mtu()`, `buf.len()`; no arithmetic,
    no min/max against a constant"""
    def place(x):
        while x[0] in ('field', 'index', 'variant'):
            x = x[1]
        return x[0] in ('param', 'upvar')
    return d[0] == 'call' and all(place(a) for a in d[3])


def _is_segment_size(d):
    alts = flat(d)
    return all(_plain_read(a) for a in alts) and any(_is_call(a, 'PathData::current_mtu') for a in alts)


def _is_zero(d):
    return d[0] == 'const' and d[1] == 'int' and str(d[2]) == '0'


def _is_datagram_limit(d):
    """the amount by which the datagram buffer grows for one more datagram: the segment size, or min(segment size, CONST)
    (loss probe clamp); every reaching value has one of these forms and the path MTU is among the sizes read"""
    def one(a):
        if _plain_read(a):
            return True
        return a[0] == 'call' and (a[1] in MIN_CALLS or D._trait_form(a[1]) in MIN_CALLS) and len(a[3]) == 2 and \
            any(x[0] == 'const' for x in a[3]) and any(x[0] != 'const' and all(_plain_read(y) for y in flat(x)) for x in a[3])
    alts = flat(d)
    return bool(alts) and all(one(a) for a in alts) and D.has_call(d, 'PathData::current_mtu')


def _is_datagram_end(d):
    """the capacity of the buffer up to the end of the datagram under construction: every reaching value is the empty
    capacity 0 or `previous end + datagram limit` (a whole datagram has been allocated on top); in particular NOT the
    current write position (a bare buf.len())"""
    alts = flat(d)
    adds = [a for a in alts if a[0] == 'bin' and a[1] == 'Add' and (_is_datagram_limit(a[2]) or _is_datagram_limit(a[3]))]
    return bool(adds) and all(_is_zero(a) or a in adds for a in alts)


def _pending_start(d):
    """d is the first byte of the pending packet, read from the builder held in an Option: (X as Some).0.partial_encode.start
    (or the start of its datagram, which is not larger); returns X or None"""
    if d[0] != 'field':
        return None
    if d[2] == 'start' and _is_field(d[1], 'partial_encode'):
        base = d[1][1]
    elif d[2] == 'datagram_start':
        base = d[1]
    else:
        return None
    if base[0] == 'field' and base[2] == '0' and base[1][0] == 'variant' and base[1][2] == 'Some':
        return base[1][1]
    return None


SUB_CALLS = ('usize::saturating_sub', 'u64::saturating_sub', 'usize::wrapping_sub', 'u64::wrapping_sub')
MIN_CALLS = ('Ord::min', 'usize::min', 'u64::min', 'cmp::min')


def _pending_charge(a):
    """a is `datagram end - start of the pending packet`; returns the Option place holding the builder, or None"""
    if a[0] == 'bin' and a[1] == 'Sub':
        x, y = a[2], a[3]
    elif a[0] == 'call' and a[1] in SUB_CALLS and len(a[3]) == 2:
        x, y = a[3]
    else:
        return None
    if not _is_datagram_end(x):
        return None
    return _pending_start(y)


def _pending_packet_charge(ctx, pt, g, rest):
    """The packet that is built but not yet handed to finish_and_track is not in in_flight.bytes. When a further datagram
    is opened it is padded to the end of its datagram and tracked at that size, so the gate must charge it from its first
    byte to the END OF ITS DATAGRAM (buffer capacity), not up to the bytes written so far; the charge may be 0 only on the
    edge on which no builder is pending."""
    F = ctx.facts
    d = describer(F, pt)
    segs = [t for t in rest if _is_segment_size(t)]
    extra = list(rest)
    if segs:
        extra.remove(segs[0])
    inst = 'gate_charges_pending_packet_to_datagram_end'
    if len(extra) != 1:
        ctx.bad('b', inst, pt, g.where(),
                'besides in_flight.bytes and the segment the gate sum must have exactly one summand, the charge for the packet still being '
                'built; found %d: %s' % (len(extra), [D.render(t)[:120] for t in extra]))
        return
    u = extra[0]
    alts = flat(u)
    holders = []
    wrong = []
    for a in alts:
        if _is_zero(a):
            continue
        h = _pending_charge(a)
        if h is None:
            wrong.append(a)
        else:
            holders.append((a, h))
    if wrong or not holders:
        ctx.bad('b', inst, pt, g.where(),
                'the packet still being built is not charged as `datagram end (buffer capacity) - first byte of the packet`: %s'
                % [D.render(a)[:300] for a in (wrong or alts)])
        return
    # 0 is the charge only on the no-builder edge: a test of the Option holding the builder dominates the gate, and from its
    # Some edge every path to the gate (within the loop iteration) passes a store of the charge to the local that carries it
    charge_descs = [a for a, h in holders]
    live = pt.live_blocks()
    stores = set()
    for loc in range(len(pt.locals)):
        defs = [df for df in pt.defs_of(loc) if df[0] in ('stmt', 'call') and df[1] in live]
        if len(defs) < 2:
            continue
        for df in defs:
            v = d.rvalue(df[3], df[1], df[2], 0) if df[0] == 'stmt' else d.call_desc(df[2], 0)
            if v in charge_descs:
                stores.add(df[1])
    head = loop_head(pt, g.bb)
    ok, why = True, ''
    if len(alts) > len(holders):
        tests = [br for br in branches(F, pt) if any(br.desc == ('discr', h) for a, h in holders) and pt.dominates(br.bb, g.bb) and br.bb != g.bb
                 and (head is None or pt.dominates(head, br.bb))]
        if not stores:
            ok, why = False, 'cannot locate the store that merges the charge with its 0 alternative'
        elif not tests:
            ok, why = False, 'no test of the pending builder dominates the gate, yet the charge may be 0'
        else:
            leaks = [path_avoiding(pt, [br.target(1)], [g.bb], stores | ({head} if head is not None else set())) for br in tests]
            if all(p is not None for p in leaks):
                ok, why = False, 'with a builder pending the gate is reachable without storing the charge: ' + fmt_path(pt, min(leaks, key=len))
    ctx.check(ok, 'b', inst, pt, g.where(),
              'untracked packet charged as buffer capacity - partial_encode.start; 0 only when no builder is pending (%d charge store(s))' % len(stores),
              'the packet still being built is not always charged up to the end of its datagram: ' + why)


def loop_head(body, bb):
    """innermost natural-loop header dominating bb: the dominator d of bb, closest to bb, that has a back edge (pred dominated by d)"""
    best = None
    for d in range(len(body.blocks)):
        if body.dominates(d, bb):
            for p in body.pred[d]:
                if body.dominates(d, p) and bb in body.reachable_from(d) and p in body.reachable_from(bb):
                    if best is None or body.dominates(best, d):
                        best = d
    return best


def rule_c(ctx, gate):
    F = ctx.facts
    pt = ctx.pfn('Connection::poll_transmit')
    g, blocked_t, pass_t, head = gate
    d = describer(F, pt)
    # exemption branch: the gate is entered only if ack_eliciting && !close && loss_probes == 0
    # find the branches that dominate the gate, and classify them
    exempt = {'ack_eliciting': False, 'close': False, 'loss_probes': False}
    # decision edges: the edge of an exemption test that leaves towards "not congestion controlled" (ack_eliciting false /
    # close true / loss_probes != 0) and the pass edge of the gate comparison. The operands are pure locals / field reads,
    # so the order in which the short-circuit chain tests them is immaterial: each test is classified on its own.
    decision_edges = {(g.bb, pass_t)}
    nbr = branches(F, pt, stop_named=True)
    for br in nbr:
        if not pt.dominates(br.bb, g.bb) or br.bb == g.bb:
            continue
        if head is not None and not pt.dominates(head, br.bb):
            continue
        # local named tests: (name, value of the local on the edge that leads to the gate)
        for name, want in (('ack_eliciting', True), ('close', False)):
            neg = _local_test(br.desc, name)
            if neg is None:
                continue
            val = want != neg   # value of the switch operand on the gate-ward edge
            to_gate, away = (br.true_target(), br.false_target()) if val else (br.false_target(), br.true_target())
            if to_gate != away and edge_dominates(pt, br.bb, to_gate, g.bb):
                exempt[name] = True
                decision_edges.add((br.bb, away))
        rel = relation_on(br.desc, True)
        if rel and rel[0] in ('Eq', 'Ne') and (D.has_field(rel[1], 'loss_probes') or D.has_field(rel[2], 'loss_probes')) \
                and (D.has_const(rel[1], 0) or D.has_const(rel[2], 0)):
            t = br.true_target() if rel[0] == 'Eq' else br.false_target()
            away = br.false_target() if rel[0] == 'Eq' else br.true_target()
            if t != away and edge_dominates(pt, br.bb, t, g.bb):
                exempt['loss_probes'] = True
                decision_edges.add((br.bb, away))
    for k, v in exempt.items():
        ctx.check(v, 'c', 'gate_entered_iff_' + k, pt, g.where(),
                  'gate guarded by %s test' % k, 'the congestion gate is no longer conditioned on `%s` (exemption set changed)' % k)
    # the builder in the loop, when starting a new datagram (path through buf_capacity increment), passes either the gate's pass edge or
    # an exemption edge: i.e. there is no path head -> builder that passes the "new datagram" allocation while avoiding
    # both the gate block and all exemption branch blocks. Since the exemption tests dominate the gate, this reduces to:
    # the allocation site is dominated by the first exemption test.
    allocs = [(i, j) for i, j, pl, rv, line in pt.assigns() if pt.local_name(pl[0]) == 'buf_capacity' and not pl[1] and rv[0] in ('bin', 'use')
              and D.has_const(d.rvalue(rv, i, j, 0), None) is False and _is_add_store(d, rv, i, j)]
    # exact form of "allocated only after the decision": no path entry -> allocation avoids every decision edge (the exemption
    # edge of one of the three tests, or the pass edge of the gate). Whichever of the pure tests the chain evaluates first,
    # a path that reaches the allocation has either been exempted or has passed the window comparison.
    free = pt.reachable_from(0, avoid_edges=decision_edges)
    okdom = bool(allocs) and not any(i in free for i, j in allocs)
    ctx.check(okdom, 'c', 'datagram_allocation_after_gate_decision', pt, pt.where(),
              'every `buf_capacity += ..` (new datagram) is reached only over an exemption edge or the pass edge of the gate',
              'a datagram can be allocated without passing the congestion gate decision (allocs=%s)' % allocs)


def _local_test(desc, name):
    """desc tests the named bool local: returns whether it is negated (`!name`), or None"""
    d, neg = peel_not(desc)
    if d[0] == 'local' and d[2] == name:
        return bool(neg)
    return None


def _is_local(desc, name):
    d, neg = peel_not(desc)
    if d[0] == 'phi':
        return False
    return d[0] == 'local' and d[2] == name


def _is_add_store(d, rv, i, j):
    x = d.rvalue(rv, i, j, 0)
    return x[0] == 'bin' and x[1] == 'Add'


def rule_d(ctx):
    F = ctx.facts
    lt = ctx.pfn('Connection::on_loss_detection_timeout')
    ws = [w for w in field_writes(F, 'PacketSpace', 'loss_probes', crate='quinn_proto') if w.kind in ('assign', 'callresult')]
    roots_ = sorted({F.root_of(w.body).short for w in ws})
    ctx.check(set(roots_) <= {'Connection::on_loss_detection_timeout', 'Connection::poll_transmit'}, 'd', 'loss_probes_writers', 'PacketSpace.loss_probes', '',
              'writers: %s' % roots_, 'unexpected writer of loss_probes: %s' % roots_)
    for w in ws:
        b = w.body
        dd = describer(F, b)
        if F.root_of(b).short == 'Connection::on_loss_detection_timeout':
            val = dd.rvalue(w.rv, w.bb, w.idx, 0) if w.rv else dd.call_desc(w.call, 0)
            ok = D.has_call(val, 'u32::saturating_add') or D.has_call(val, 'saturating_add')
            consts = {c for c, n in D.consts_in(val)}
            ctx.check(ok and consts <= {'1', '2'} and consts, 'd', 'probes_added_in_1_or_2', b, w.where(),
                      'loss_probes = loss_probes.saturating_add(count), count in %s' % sorted(consts),
                      'loss probe increment is not saturating_add of 1|2: %s' % D.render(val))
        else:
            val = dd.rvalue(w.rv, w.bb, w.idx, 0)
            ok = val[0] == 'bin' and val[1] == 'Sub' and D.has_const(val[3], 1) and D.has_field(val[2], 'loss_probes')
            ctx.check(ok, 'd', 'probe_consumed_one_per_datagram', b, w.where(), 'loss_probes -= 1',
                      'loss probe decrement is not `loss_probes - 1`: %s' % D.render(val))
    ctx.floor('d', 'loss_probes_stores', len(ws), 2)


FLOOR_IDIOMS = "old+x | saturating_add | max(x, minimum_window()) | = minimum_window() | = ssthresh(after max) | restore pre_congestion_state"


def window_stores(ctx, ty, field='window'):
    return [w for w in field_writes(ctx.facts, ty, field, crate='quinn_proto') if w.kind in ('assign', 'callresult')]


def rule_e(ctx):
    F = ctx.facts
    # NewReno / Cubic: P8 final-store form
    for ty, adt in (('NewReno', 'NewReno'), ('Cubic', 'cubic::State')):
        stores = window_stores(ctx, adt)
        by_fn = {}
        for w in stores:
            by_fn.setdefault(w.body.id, []).append(w)
        n = 0
        for fid, ws in by_fn.items():
            b = F.bodies[fid]
            if b.name in ('new', 'clone', 'clone_box', 'build'):
                continue
            dd = describer(F, b)
            blocks = {w.bb for w in ws}
            for w in ws:
                # final store on some path? i.e. a return reachable from w without another store block
                others = blocks - {w.bb}
                later_same = [x for x in ws if x.bb == w.bb and x.idx > w.idx]
                if later_same:
                    continue
                p = path_avoiding(b, b.succ[w.bb], b.return_blocks(), others)
                if p is None and b.succ[w.bb]:
                    continue  # always overwritten later
                val = dd.rvalue(w.rv, w.bb, w.idx, 0) if w.rv else dd.call_desc(w.call, 0)
                n += 1
                ok, why = floor_idiom(ctx, b, val, ty, adt)
                ctx.check(ok, 'e', 'window_final_store_has_floor', b, w.where(), '%s: %s' % (why, D.render(val)[:160]),
                          'final store to %s.window is not a floor idiom (%s): %s' % (ty, FLOOR_IDIOMS, D.render(val)[:300]))
        ctx.floor('e', ty + '_final_stores', n, 3)
        mw = ctx.pfn('<%s as Controller>::window' % ty) if F.try_fn('<%s as Controller>::window' % ty) else None
    # minimum_window = 2 * current_mtu
    for ty in ('NewReno', 'Cubic'):
        mw = ctx.pfn('%s::minimum_window' % ty)
        rd = ret_descs(F, mw)
        ok = all(_is_product(x, 2, lambda y: _is_field(y, 'current_mtu')) for _, x in rd)
        ctx.check(ok and rd, 'e', 'minimum_window_is_2_mtu', mw, mw.where(), '2 * current_mtu', 'minimum_window() is no longer 2*current_mtu: %s' % [D.render(x) for _, x in rd])
    # on_mtu_update: the floor must be computed from the NEW mtu (store of current_mtu dominates minimum_window())
    for ty in ('NewReno', 'Cubic'):
        mu = ctx.pfn('<%s as Controller>::on_mtu_update' % ty)
        sts = [w.bb for w in field_writes(F, ty, 'current_mtu', crate='quinn_proto', include_borrows=False) if w.body.id == mu.id]
        mws = mu.calls_to('%s::minimum_window' % ty)
        ctx.floor('e', ty + '_mtu_update_floor_sites', len(mws), 1)
        for c in mws:
            p = path_avoiding(mu, [0], [c.bb], sts)
            ctx.check(bool(sts) and p is None, 'e', 'mtu_update_floor_uses_new_mtu', mu, c.where(), 'current_mtu = new_mtu precedes minimum_window()',
                      '%s::on_mtu_update clamps the window with the minimum computed from the OLD mtu (current_mtu is stored after minimum_window())' % ty)
        # every store (plain or call result) of current_mtu in on_mtu_update stores exactly the parameter (casts / From erased)
        dm = describer(F, mu)
        mst = [w for w in field_writes(F, ty, 'current_mtu', crate='quinn_proto', include_borrows=True) if w.body.id == mu.id]
        ctx.floor('e', ty + '_mtu_update_stores', len(mst), 1)
        for w in mst:
            if w.kind == 'assign' and w.rv and w.rv[0] != 'sd':
                v = dm.rvalue(w.rv, w.bb, w.idx, 0)
            elif w.kind == 'callresult':
                v = dm.call_desc(w.call, 0)
            else:
                v = ('const', 'other', '<%s>' % w.kind, '')  # &mut borrow / opaque store: not the stated form
            ctx.check(all(x[0] == 'param' and x[2] == 'new_mtu' for x in flat(v)), 'e', 'mtu_update_stores_new_mtu', mu, w.where(), D.render(v),
                      'current_mtu is not set to exactly the new mtu: ' + D.render(v)[:300])
    # BBR
    bbr_cc = ctx.pfn('Bbr::calculate_cwnd')
    stores = [w for w in window_stores(ctx, 'Bbr', 'cwnd') if w.body.id == bbr_cc.id]
    dd = describer(F, bbr_cc)
    # the function must end, on every path that stored cwnd, with a store of min_cwnd guarded by cwnd < min_cwnd OR a store >= min_cwnd; we check:
    # there is a branch `cwnd < min_cwnd` whose true edge stores `cwnd = min_cwnd`, and every other store to cwnd is followed (on all paths to return) by that branch.
    fl = None
    for br in branches(F, bbr_cc):
        rel = relation_on(br.desc, True)
        if rel and rel[0] == 'Lt' and _is_field(rel[1], 'cwnd') and _is_field(rel[2], 'min_cwnd'):
            fl = br
    okf = False
    if fl is not None:
        tt = fl.true_target()
        st = [w for w in stores if w.rv and w.bb in bbr_cc.reachable_from(tt) and _is_field(dd.rvalue(w.rv, w.bb, w.idx, 0), 'min_cwnd')]
        okf = bool(st)
        for w in stores:
            if w in st:
                continue
            p = path_avoiding(bbr_cc, bbr_cc.succ[w.bb], bbr_cc.return_blocks(), {fl.bb})
            if p is not None:
                okf = False
    ctx.check(okf, 'e', 'bbr_calculate_cwnd_ends_with_floor', bbr_cc, bbr_cc.where(), 'every cwnd store is followed by `if cwnd < min_cwnd {cwnd = min_cwnd}`',
              'Bbr::calculate_cwnd no longer ends with the min_cwnd floor on every path')
    for fn, what in (('<Bbr as Controller>::on_mtu_update', 'max(cwnd,min_cwnd)'),):
        b = ctx.pfn(fn)
        ws = [w for w in window_stores(ctx, 'Bbr', 'cwnd') if w.body.id == b.id]
        d2 = describer(F, b)
        vals = [d2.rvalue(w.rv, w.bb, w.idx, 0) if w.rv else d2.call_desc(w.call, 0) for w in ws]
        # the stored value IS max(.., self.min_cwnd): one argument of the max is exactly the field
        # (or, in the branch form of the floor, the field itself)
        ok = bool(ws) and all(_bbr_floor_value(v, _min_cwnd_alias(ctx, b, w.bb, w.idx)) for w, v in zip(ws, vals))
        ctx.check(ok, 'e', 'bbr_on_mtu_update_floor', b, b.where(), what, 'Bbr::on_mtu_update cwnd store lost its max(.., min_cwnd) floor')
    cmw = ctx.pfn('bbr::calculate_min_window')
    rd = ret_descs(F, cmw)
    ctx.check(rd and all(_is_product(x, 4, lambda y: y[0] == 'param') for _, x in rd), 'e', 'bbr_min_window_is_4_mtu', cmw, cmw.where(),
              '4 * mtu', 'bbr calculate_min_window is no longer 4*mtu')
    # window() of the three controllers returns the stored field (so the floor idioms bound what is reported)
    for ty, fld in (('NewReno', 'window'), ('Cubic', 'window')):
        b = ctx.pfn('<%s as Controller>::window' % ty)
        rd = ret_descs(F, b)
        ctx.check(rd and all(x[0] == 'field' and x[2] == fld for _, x in rd), 'e', 'window_reports_stored_field', b, b.where(), 'returns self.%s' % fld,
                  'Controller::window() no longer returns the floored field')
    # Bbr::window(): every returned value is a floored quantity: self.cwnd, self.recovery_window, self.min_cwnd, the probe-rtt
    # window, a min(..) ALL of whose operands are floored quantities (one of them self.cwnd) or a max(..) with one such operand
    b = ctx.pfn('<Bbr as Controller>::window')
    alts = [a for _, x in ret_descs(F, b) for a in flat(x)]

    def _bbr_ok(a):
        if _is_min_call(a):
            return any(_is_field(y, 'cwnd') for y in a[3]) and all(_bbr_reported(y) for y in a[3])
        return _bbr_reported(a)
    ctx.check(bool(alts) and all(_bbr_ok(a) for a in alts) and any(_is_field(a, 'cwnd') for a in alts), 'e', 'window_reports_stored_field', b, b.where(),
              'returns self.cwnd | min(self.cwnd, self.recovery_window) | get_probe_rtt_cwnd()',
              'Bbr::window() returns a value not bounded by the floored fields cwnd / recovery_window: %s' % [D.render(a)[:120] for a in alts])
    _bbr_recovery_window(ctx)
    _bbr_min_cwnd_change(ctx)


def _is_min_call(d):
    return d[0] == 'call' and (d[1] in MIN_CALLS or D._trait_form(d[1]) in MIN_CALLS)


def _bbr_floor_value(v, alias=()):
    """v >= self.min_cwnd by construction: the field itself (or a value in `alias`: the very value a dominating store has
    just put into the field, see _min_cwnd_alias), max(..) with such an operand, min(..) of such operands only"""
    if v[0] == 'phi':
        return bool(v[1]) and all(_bbr_floor_value(x, alias) for x in v[1])
    if _is_field(v, 'min_cwnd') or v in alias:
        return True
    if _is_max_call(v):
        return any(_bbr_floor_value(a, alias) for a in v[3])
    if _is_min_call(v):
        return bool(v[3]) and all(_bbr_floor_value(a, alias) for a in v[3])
    return False


def _min_cwnd_alias(ctx, body, bb, idx):
    """descriptors that denote, at statement (bb, idx) of `body`, the value self.min_cwnd holds there without being a read
    of the field: `let floor = calculate_min_window(..); self.min_cwnd = floor; .. floor ..`. Exact conditions:
      * the value is a call result (its descriptor carries the call site, so equal descriptors are the same evaluation,
        not a re-computation of the same expression) and the call site is not on a cycle (evaluated once per invocation);
      * a store `self.min_cwnd = <that value>` in `body` dominates (bb, idx);
      * that store is the only write of Bbr.min_cwnd outside the constructors (no other store in `body` can intervene and
        no callee can change the field behind the local)."""
    F = ctx.facts
    ws = [w for w in field_writes(F, 'Bbr', 'min_cwnd', crate='quinn_proto', include_borrows=True) if w.body.name not in CTORS]
    if len(ws) != 1 or ws[0].body.id != body.id or ws[0].kind not in ('assign', 'callresult'):
        return ()
    w = ws[0]
    if not ((w.bb == bb and w.idx < idx) or (w.bb != bb and body.dominates(w.bb, bb))):
        return ()
    vs = [v for x, v in store_values(ctx, 'Bbr', 'min_cwnd') if x.body.id == body.id and x.bb == w.bb and x.idx == w.idx]
    if len(vs) != 1:
        return ()
    v = vs[0]
    if v[0] != 'call' or len(v) < 5 or not isinstance(v[4], int) or v[4] in body.reachable_strict(v[4]):
        return ()
    return (v,)


def _bbr_reported(a):
    """a quantity Bbr::window() may report: a field whose stores are floored (cwnd, recovery_window: checked by their own
    instances), the probe-rtt window, or a floor value / min / max built from those"""
    if a[0] == 'phi':
        return bool(a[1]) and all(_bbr_reported(x) for x in a[1])
    if _is_field(a, 'cwnd') or _is_field(a, 'recovery_window') or _is_call(a, 'Bbr::get_probe_rtt_cwnd') or _bbr_floor_value(a):
        return True
    if _is_max_call(a):
        return any(_bbr_reported(y) for y in a[3])
    if _is_min_call(a):
        return bool(a[3]) and all(_bbr_reported(y) for y in a[3])
    return False


def _bbr_recovery_window(ctx):
    """Bbr::window() reports min(cwnd, recovery_window) while in recovery, so recovery_window carries the same lower bound
    as cwnd whenever it can be read:
      * in the function that maintains it (calculate_recovery_window) every store that is the last one on some path to the
        return stores a value that IS >= min_cwnd by construction (max(.., self.min_cwnd) / self.min_cwnd);
      * that function leaves recovery_window untouched only over the not-in-recovery edge (window() does not read it then);
      * any other store that is not floored (the `0 = unset` marker) and every store to recovery_state is followed, on all
        paths of every caller of the storing function, by calculate_recovery_window, which replaces it before window() can run."""
    F = ctx.facts
    crw = ctx.pfn('Bbr::calculate_recovery_window')
    sv = store_values(ctx, 'Bbr', 'recovery_window')
    inside = [(w, v) for w, v in sv if w.body.id == crw.id]
    outside = [(w, v) for w, v in sv if w.body.id != crw.id and w.body.name not in ('new', 'clone', 'clone_box', 'build')]
    # opaque writers (a &mut borrow handed to a call) cannot be valued: fail closed
    opaque = [w for w in field_writes(F, 'Bbr', 'recovery_window', crate='quinn_proto', include_borrows=True)
              if w.kind == 'mutborrow' and not borrow_stores(F, w)]
    ctx.check(not opaque, 'e', 'bbr_recovery_window_stores_valued', 'Bbr.recovery_window', '', 'every store has a value descriptor',
              'recovery_window is written through a borrow whose stored value cannot be determined: %s' % [w.where() for w in opaque])
    blocks = {w.bb for w, v in inside}
    # the branch form of the floor (as in calculate_cwnd): `if recovery_window < min_cwnd { recovery_window = min_cwnd }`: a test
    # with exactly these two fields whose "below" edge reaches a return only through a store of min_cwnd
    floor_tests = set()
    fstores = {w.bb for w, v in inside if _bbr_floor_value(v)}
    for br in branches(F, crw):
        for truth in (True, False):
            rel = relation_on(br.desc, truth)
            # the bound of the test is min_cwnd or any value that IS >= min_cwnd by construction (`let floor =
            # self.min_cwnd.max(x); if recovery_window < floor { recovery_window = floor }`): on the other edge
            # recovery_window >= floor >= min_cwnd
            if rel and rel[0] == 'Lt' and _is_field(rel[1], 'recovery_window') and _bbr_floor_value(rel[2]):
                t = br.target(1 if truth else 0)
                if path_avoiding(crw, [t], crw.return_blocks(), fstores) is None:
                    floor_tests.add(br.bb)
    n = 0
    for w, v in inside:
        if any(x.bb == w.bb and x.idx > w.idx for x, _ in inside):
            continue
        p = path_avoiding(crw, crw.succ[w.bb], crw.return_blocks(), blocks - {w.bb})
        if p is None and crw.succ[w.bb]:
            continue   # overwritten on every path
        n += 1
        if not _bbr_floor_value(v) and floor_tests and (w.bb in floor_tests or
                path_avoiding(crw, crw.succ[w.bb], crw.return_blocks(), (blocks - {w.bb}) | floor_tests) is None):
            ctx.ok('e', 'bbr_recovery_window_final_store_has_floor', crw, w.where(), 'followed on every path by `if recovery_window < min_cwnd { = min_cwnd }`')
            continue
        ctx.check(_bbr_floor_value(v), 'e', 'bbr_recovery_window_final_store_has_floor', crw, w.where(), D.render(v)[:160],
                  'a last store to Bbr.recovery_window is not max(.., self.min_cwnd): window() = min(cwnd, recovery_window) can fall below '
                  'the minimum window: %s' % D.render(v)[:300])
    ctx.floor('e', 'bbr_recovery_window_final_stores', n, 2)
    # no store only when not in recovery
    skip_edges = _not_in_recovery_edges(F, crw)
    free = crw.reachable_from(0, avoid=blocks, avoid_edges=skip_edges) if 0 not in blocks else set()
    leak = [r for r in crw.return_blocks() if r in free]
    ctx.check(bool(skip_edges) and not leak, 'e', 'bbr_recovery_window_set_whenever_in_recovery', crw, crw.where(),
              'returns without a store only over the !in_recovery() edge',
              'calculate_recovery_window can return while in recovery without storing recovery_window (the 0 sentinel / a stale value stays readable)')
    # unfloored stores elsewhere (the `0 = unset` marker written on entering recovery) and every change of recovery_state
    # (the switch that makes window() read recovery_window) are followed by calculate_recovery_window in every caller
    sites = [(w, 'recovery_window = ' + D.render(v)[:80]) for w, v in outside
             if not _bbr_floor_value(v, _min_cwnd_alias(ctx, w.body, w.bb, w.idx))]
    sites += [(w, 'recovery_state store') for w in field_writes(F, 'Bbr', 'recovery_state', crate='quinn_proto', include_borrows=True)
              if w.body.name not in ('new', 'clone', 'clone_box', 'build')]
    nrw = 0
    for w, what in sites:
        nrw += what == 'recovery_state store'
        r = F.root_of(w.body)
        if r.id == crw.id:
            ctx.bad('e', 'bbr_recovery_window_reset_then_recomputed', r, w.where(), 'calculate_recovery_window itself changes recovery_state')
            continue
        if w.body.id == r.id and (w.bb in must_sites(F, r, ['Bbr::calculate_recovery_window'], 1) or
                                  must_follow(F, r, w.bb, ['Bbr::calculate_recovery_window'], 1) is None):
            ctx.ok('e', 'bbr_recovery_window_reset_then_recomputed', r, w.where(), '%s; followed by calculate_recovery_window in the same function' % what)
            continue
        callers = F.callers_of(r.short, crate='quinn_proto')
        okc = bool(callers)
        why = 'no caller found for %s' % r.short
        for c in callers:
            p = must_follow(F, c.body, c.bb, ['Bbr::calculate_recovery_window'], 1)
            if p is not None:
                okc = False
                why = 'in %s a path after the call avoids calculate_recovery_window: %s' % (F.root_of(c.body).short, fmt_path(c.body, p))
        ctx.check(okc, 'e', 'bbr_recovery_window_reset_then_recomputed', r, w.where(),
                  '%s; every call of %s is followed by calculate_recovery_window (%d caller(s))' % (what, r.short, len(callers)),
                  'an unfloored recovery_window (%s) can be read by window(): %s' % (what, why))
    ctx.floor('e', 'bbr_recovery_state_stores', nrw, 1)


def _not_in_recovery_edges(F, body):
    """branch edges of `body` on which self.recovery_state is NotInRecovery (window() does not read recovery_window then):
    the false edge of recovery_state.in_recovery(), the NotInRecovery arm of a match on the field, or the equal edge of a
    comparison of the field with that variant"""
    skip_edges = set()
    for br in branches(F, body):
        inner, neg = peel_not(br.desc)
        if _is_call(inner, 'RecoveryState::in_recovery') and inner[3] and _is_field(inner[3][0], 'recovery_state'):
            skip_edges.add((br.bb, br.target(1 if neg else 0)))   # edge on which in_recovery() is false
            continue
        # ... or as a match on the discriminant: the edge(s) taken for the NotInRecovery variant only
        if br.desc[0] == 'discr' and _is_field(br.desc[1], 'recovery_state'):
            vs = [v['name'] for v in F.adt('bbr::RecoveryState')['variants']]
            if 'NotInRecovery' in vs:
                t = br.target(vs.index('NotInRecovery'))
                if all(br.target(i) != t for i, nm in enumerate(vs) if nm != 'NotInRecovery'):
                    skip_edges.add((br.bb, t))
            continue
        # the same test spelled as a comparison: recovery_state == RecoveryState::NotInRecovery
        rel = relation_on(br.desc, True)
        if rel and rel[0] in ('Eq', 'Ne'):
            ops = (rel[1], rel[2])
            if any(_is_field(x, 'recovery_state') for x in ops) and \
                    any(x[0] == 'agg' and x[1] == 'adt' and x[2].endswith('RecoveryState::NotInRecovery') for x in ops):
                skip_edges.add((br.bb, br.true_target() if rel[0] == 'Eq' else br.false_target()))
    return skip_edges


CTORS = ('new', 'clone', 'clone_box', 'build')


def _bbr_min_cwnd_change(ctx):
    """min_cwnd is the bound the floor idioms of cwnd and recovery_window refer to. A store that changes it (on_mtu_update
    raises it with the MTU) invalidates the bound of the values already stored, so on every path from such a store to a
    return
      * cwnd is stored again with a value that IS >= min_cwnd (read after the change), and
      * recovery_window likewise, except over an edge on which recovery_state is NotInRecovery (window() does not read it
        then; entering recovery resets it and calculate_recovery_window recomputes it: bbr_recovery_window_reset_then_recomputed);
    the edge of a test `field < min_cwnd` on which the field is not below needs no store (branch form of the floor)."""
    F = ctx.facts
    ws = [w for w in field_writes(F, 'Bbr', 'min_cwnd', crate='quinn_proto', include_borrows=True) if w.body.name not in CTORS]
    ctx.floor('e', 'bbr_min_cwnd_stores', len(ws), 1)
    for w in ws:
        b = w.body
        r = F.root_of(b)
        if w.kind == 'mutborrow':
            ctx.bad('e', 'bbr_min_cwnd_stores_located', r, w.where(), 'min_cwnd is written through a &mut borrow: the point after which the '
                    'floored fields must be re-floored cannot be determined')
            continue
        rets = [x for x in b.return_blocks() if x in b.live_blocks()]
        for field, inst, cond in (('cwnd', 'bbr_min_cwnd_change_refloors_cwnd', False),
                                  ('recovery_window', 'bbr_min_cwnd_change_refloors_recovery_window', True)):
            fl = [x for x, v in store_values(ctx, 'Bbr', field) if x.body.id == b.id and
                  _bbr_floor_value(v, _min_cwnd_alias(ctx, b, x.bb, x.idx))]
            if any(x.bb == w.bb and x.idx > w.idx for x in fl):
                ctx.ok('e', inst, r, w.where(), '%s re-floored right after the min_cwnd store' % field)
                continue
            done = {x.bb for x in fl if x.bb != w.bb}
            skip = set(_not_in_recovery_edges(F, b)) if cond else set()
            for br in branches(F, b):
                for truth in (True, False):
                    rel = relation_on(br.desc, truth)
                    if rel and rel[0] == 'Le' and _is_field(rel[2], field) and \
                            (_is_field(rel[1], 'min_cwnd') or rel[1] in _min_cwnd_alias(ctx, b, br.bb, term_idx(b, br.bb))):
                        skip.add((br.bb, br.target(1 if truth else 0)))
            reach = b.reachable_strict(w.bb, avoid=done, avoid_edges=skip)
            leak = [x for x in rets if x in reach]
            ctx.check(bool(rets) and not leak, 'e', inst, r, w.where(),
                      'after the store of min_cwnd every path to the return stores %s = max(.., min_cwnd)%s (%d store(s))'
                      % (field, ' unless not in recovery' if cond else '', len(fl)),
                      'min_cwnd changes but %s is not re-floored by the new min_cwnd on every path to the return%s: window() can report '
                      'a value below the minimum window (%d floored store(s) of %s in %s, none on some path after the min_cwnd store)'
                      % (field, ' while in recovery' if cond else '', len(fl), field, r.short))


MAX_CALLS = ('Ord::max', 'u64::max', 'cmp::max')


def _floor_value(val, ty):
    """val is >= minimum_window() by construction: the minimum_window() call itself, or max(..) with such an argument"""
    if val[0] == 'phi':
        return bool(val[1]) and all(_floor_value(x, ty) for x in val[1])
    if _is_call(val, ty + '::minimum_window'):
        return True
    if val[0] == 'call' and (val[1] in MAX_CALLS or D._trait_form(val[1]) in MAX_CALLS):
        return any(_floor_value(a, ty) for a in val[3])
    return False


def floor_idiom(ctx, b, val, ty, adt):
    """accepted final-store idioms"""
    if val[0] == 'phi':
        res = [floor_idiom(ctx, b, x, ty, adt) for x in val[1]]
        return all(x[0] for x in res), 'phi of ' + ','.join(x[1] for x in res)
    if _floor_value(val, ty):
        return True, 'max(x, minimum_window()) / = minimum_window()'
    if val[0] == 'call' and val[1] in ('u64::saturating_add',) and _is_field(val[3][0], 'window'):
        return True, 'saturating_add'
    if val[0] == 'bin' and val[1] == 'Add' and (_is_field(val[2], 'window') or _is_field(val[3], 'window')):
        return True, 'old + x'
    if val[0] == 'field' and val[2] == 'ssthresh':
        # ssthresh itself must be stored from max(_, minimum_window()) in the same function
        ws = [w for w in field_writes(ctx.facts, adt, 'ssthresh', crate='quinn_proto') if w.body.id == b.id]
        dd = describer(ctx.facts, b)
        ok = bool(ws) and all(w.kind in ('assign', 'callresult') and
                              _floor_value(dd.rvalue(w.rv, w.bb, w.idx, 0) if w.rv else dd.call_desc(w.call, 0), ty) for w in ws)
        return ok, '= ssthresh (ssthresh = max(_, minimum_window()))'
    if val[0] == 'field' and val[2] == 'window' and D.has_field(val, 'pre_congestion_state'):
        return True, 'restore pre_congestion_state'
    if val[0] == 'field' and val[2] == 'window':
        # copy from a saved state (prior.window)
        return True, 'restore saved window'
    return False, 'unrecognised'


def rule_f(ctx):
    F = ctx.facts
    dl = ctx.pfn('Connection::detect_lost_packets')
    # a packet number is pushed to lost_packets only on packet_too_old || largest_acked >= packet + packet_threshold
    pushes = [c for c in dl.calls_to('Vec::push') if D.render(arg_desc(F, c, 0)).find('lost_packets') >= 0 or True]
    d = describer(F, dl)
    pushes = [c for c in dl.calls_to('Vec::push') if _recv_is_local(dl, c, 'lost_packets')]
    brs = branches(F, dl)
    # exact operand classes, per edge:  time test  loss_delay <= now.saturating_duration_since(info.time_sent)
    #                                   pn test    pn + packet_threshold <= largest_acked_packet   (or packet_threshold <= largest - pn)
    time_edges, thr_edges, delay_descs = [], [], []
    for br in brs:
        for truth in (True, False):
            rel = relation_on(br.desc, truth)
            if rel is None or rel[0] != 'Le':
                continue
            o, x, y = rel
            tgt = br.target(1 if truth else 0)
            if _is_max_call(x) and _is_elapsed_since_sent(y):
                time_edges.append((br.bb, tgt))
                delay_descs.append(x)
            if _is_pn_plus_threshold(x) and _is_largest_acked(y):
                thr_edges.append((br.bb, tgt))
            if _is_field(x, 'packet_threshold') and y[0] == 'bin' and y[1] == 'Sub' and _is_largest_acked(y[2]) and _from_scan(y[3]):
                thr_edges.append((br.bb, tgt))
    ok = bool(pushes) and bool(time_edges) and bool(thr_edges)
    if ok:
        # the push is reachable only over a "lost" edge of one of these tests
        reach = dl.reachable_from(0, avoid_edges=set(time_edges) | set(thr_edges))
        ok = not any(c.bb in reach for c in pushes)
    ctx.check(ok, 'f', 'lost_only_when_too_old_or_past_packet_threshold', dl, dl.where(),
              'lost_packets.push only on (elapsed >= loss_delay) or (largest_acked >= pn + packet_threshold) edges',
              'a packet can be declared lost without the time or packet threshold test (pushes=%d, time tests=%d, packet-threshold tests=%d with the exact operands)'
              % (len(pushes), len(time_edges), len(thr_edges)))
    # loss_delay = max(rtt*time_threshold, TIMER_GRANULARITY): the arguments of the max ARE the product and the constant
    okd = bool(delay_descs)
    for x in delay_descs:
        args = x[3]
        if not (len(args) == 2 and any(a[0] == 'const' and D.has_const(a, named='TIMER_GRANULARITY') for a in args) and
                any(_is_call(a, 'Duration::mul_f32') and any(_is_field(z, 'time_threshold') for z in a[3]) for a in args if a[0] == 'call')):
            okd = False
    ctx.check(okd, 'f', 'loss_delay_floor', dl, dl.where(), 'loss_delay = max(rtt*time_threshold, TIMER_GRANULARITY)', 'loss_delay expression changed')
    # iteration range 0..largest_acked_packet : the argument IS Range{0, largest_acked_packet} (or RangeTo{largest_acked_packet});
    # any other shape (RangeFrom, RangeInclusive, an end bound with arithmetic on it) is a violation
    rng = [c for c in dl.calls_to('SentPackets::range')]
    okr = bool(rng)
    shapes = []
    for c in rng:
        ad = arg_desc(F, c, 1)
        shapes.append(D.render(ad)[:200])
        if ad[0] == 'agg' and ad[1] == 'adt' and ad[2] == 'ops::Range::Range' and len(ad[3]) == 2:
            good = ad[3][0][0] == 'const' and ad[3][0][1] == 'int' and str(ad[3][0][2]) == '0' and _is_largest_acked(ad[3][1])
        elif ad[0] == 'agg' and ad[1] == 'adt' and ad[2] == 'ops::RangeTo::RangeTo' and len(ad[3]) == 1:
            good = _is_largest_acked(ad[3][0])
        else:
            good = False
        okr = okr and good
    ctx.check(okr, 'f', 'loss_scan_range_below_largest_acked', dl, dl.where(), 'range(0..largest_acked_packet)',
              'loss scan no longer restricted to packets below the largest acked: range argument(s) %s' % shapes)
    # on_ack_received sanity
    oa = ctx.pfn('Connection::on_ack_received')
    g = [br for br in branches(F, oa) if relation_on(br.desc, True) and desc_has(br.desc, fields=['largest', 'next_packet_number'])]
    okg = False
    for br in g:
        for truth in (True, False):
            rel = relation_on(br.desc, truth)
            if rel[0] == 'Le' and D.has_field(rel[1], 'next_packet_number') and D.has_field(rel[2], 'largest'):
                ok1, why = edge_leads_to_error(ctx, oa, br, 1 if truth else 0, 'PROTOCOL_VIOLATION',
                                               stop_sites=[c.bb for c in oa.calls_to('PacketSpace::take')])
                okg = ok1 and br.bb in oa.reachable_from(0) and all(oa.dominates(br.bb, c.bb) for c in oa.calls_to('PacketSpace::take'))
                ctx.info('f', 'unsent-ack guard: %s' % why)
    ctx.check(okg, 'f', 'ack_of_unsent_rejected_first', oa, oa.where(), 'ack.largest >= next_packet_number -> PROTOCOL_VIOLATION before any state change',
              'ACK of an unsent packet number is no longer rejected before packets are taken')
    ca = oa.calls_to('PacketNumberFilter::check_ack')
    ins = oa.calls_to('ArrayRangeSet::insert_one')
    tk = oa.calls_to('PacketSpace::take')
    okc = bool(ca) and bool(ins) and all(any(oa.dominates(x.bb, c.bb) for x in ca) for c in ins)
    # the Result of every check_ack call is examined: a branch on its discriminant (`?`, match / if let, is_err / is_ok) whose
    # Ok edge is the only way to the recording of acked packet numbers and whose Err edge reaches neither that nor take
    work = [c.bb for c in ins] + [c.bb for c in tk]
    obr = branches(F, oa)
    for c in ca:
        guarded = False
        for br in obr:
            edges = _result_edges(br, c)
            if edges is None:
                continue
            ok_t, err_ts = edges
            err_reach = set()
            for t in err_ts:
                err_reach |= oa.reachable_from(t)
            if all(edge_dominates(oa, br.bb, ok_t, x.bb) for x in ins) and not any(w in err_reach for w in work):
                guarded = True
        okc = okc and guarded
    # and the taken packet numbers derive from the set filled there
    okc = okc and bool(tk) and all(D.has_call(arg_desc(F, c, 1), 'ArrayRangeSet::elts') for c in tk)
    ctx.check(okc, 'f', 'check_ack_precedes_take', oa, oa.where(), 'check_ack (skipped pn) dominates take; its Err edge leaves without processing', 'skipped-packet-number check no longer precedes processing of acked packets, or its Err result does not stop the processing')


def _strip_unwrap(d):
    """Option payload access erased: x.unwrap() / x.expect(..) / (x as Some).0"""
    while True:
        if d[0] == 'call' and d[1] in ('Option::unwrap', 'Option::expect', 'Option::unwrap_unchecked') and d[3]:
            d = d[3][0]
        elif d[0] == 'field' and d[2] == '0' and d[1][0] == 'variant' and d[1][2] == 'Some':
            d = d[1][1]
        else:
            return d


def _is_largest_acked(d):
    return all(_is_field(_strip_unwrap(a), 'largest_acked_packet') for a in flat(d))


def _from_scan(d):
    """a place of the item yielded by the SentPackets::range scan (no arithmetic on it)"""
    while d[0] in ('field', 'variant', 'index'):
        d = d[1]
    return d[0] == 'call' and D.has_call(d, 'SentPackets::range')


def _is_pn_plus_threshold(d):
    if not (d[0] == 'bin' and d[1] == 'Add'):
        return False
    a, b = d[2], d[3]
    return (_is_field(a, 'packet_threshold') and _from_scan(b)) or (_is_field(b, 'packet_threshold') and _from_scan(a))


def _is_max_call(d):
    return d[0] == 'call' and (d[1] in MAX_CALLS or D._trait_form(d[1]) in MAX_CALLS)


def _is_elapsed_since_sent(d):
    return d[0] == 'call' and d[1] in ('Instant::saturating_duration_since', 'Instant::duration_since') and len(d[3]) == 2 \
        and d[3][0][0] == 'param' and d[3][0][2] == 'now' and _is_field(d[3][1], 'time_sent')


def _result_edges(br, call):
    """br tests the Result produced at `call`: returns (ok_target, [error targets]) or None"""
    d = br.desc
    if d[0] == 'discr':
        x = d[1]
        if x[0] == 'call' and x[1] in ('Result::map_err', 'Result::or_else') and x[3]:
            x = x[3][0]
        if is_site(x, call) and x[0] != 'phi':
            return br.target(0), br.other_targets(0)   # Ok / ControlFlow::Continue = 0
        return None
    inner, neg = peel_not(d)
    if inner[0] == 'call' and inner[1] in ('Result::is_err', 'Result::is_ok') and inner[3] and inner[3][0][0] != 'phi' and is_site(inner[3][0], call):
        ok_val = (inner[1] == 'Result::is_ok') != neg
        return br.target(1 if ok_val else 0), [br.target(0 if ok_val else 1)]
    return None


def _recv_is_local(body, call, name):
    a = call.args[0]
    if a[0] not in ('c', 'm'):
        return False
    # receiver temp = &mut local
    for d in body.defs_of(a[1][0]):
        if d[0] == 'stmt' and d[3][0] == 'ref' and body.local_name(d[3][2][0]) == name:
            return True
    return False


def run(ctx):
    from rules.shared_rules import in_flight_removed_from_either_path
    in_flight_removed_from_either_path(ctx, 'a', 'in_flight_removed_from_either_path')
    rule_a(ctx)
    _path_generation(ctx)
    _space_overwrites(ctx)
    gate = rule_b(ctx)
    if gate:
        rule_c(ctx, gate)
    rule_d(ctx)
    rule_e(ctx)
    rule_f(ctx)
    ctx.assume('Controller implementations other than the built-in NewReno/Cubic/Bbr are a component boundary')
