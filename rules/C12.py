"""C12 — sending respects the congestion window; loss accounting balances (structural part)."""
from engine.rulelib import *
from engine import desc as D

EXPLANATION = ("Static rules over the type-checked MIR of quinn-proto: (a) every SentPacket that leaves sent_packets is handed to "
               "remove_in_flight on that path (all 8 producer sites classified; flows checked on all CFG paths); in-flight counters have "
               "a single inserter/remover; (b) the congestion gate of poll_transmit compares in_flight.bytes + bytes_to_send against "
               "Controller::window() with >= and its blocked edge skips packet construction; (c) PacketBuilder::new in the send loop is "
               "reachable only past the gate or under an enumerated exemption (loss probe / not ack-eliciting / close); (d) loss probes are "
               "added in {1,2} and consumed one per datagram; (e) built-in controllers' window stores end in a floor idiom; (f) loss "
               "declaration thresholds and ACK sanity guards. Numeric traces (bytes in flight returning to zero, no spurious loss) are NOT decided.")
RULE = "rule instances = (rule, site) pairs over MIR call sites / branches / stores; non-trivial = bound to at least one real site"

PRODUCERS = ['PacketSpace::take', 'SentPackets::into_values']
SINKS = ['Connection::remove_in_flight', 'PathData::remove_in_flight', 'Connection::on_packet_acked']
# (root function, producer callee) -> class ; confirmed by reading
CLASSES = {
    ('Connection::on_ack_received', 'PacketSpace::take'): 'acked',
    ('Connection::detect_lost_packets', 'PacketSpace::take'): 'lost',  # two sites: lost + lost MTU probe
    ('Connection::process_decrypted_packet', 'PacketSpace::take'): 'retry_acked_pn0',
    ('Connection::process_decrypted_packet', 'SentPackets::into_values'): 'retry_or_0rtt_reject_drain',  # two sites
    ('Connection::discard_space', 'SentPackets::into_values'): 'space_discarded',
}
WRAPPERS = ('PacketSpace::take', 'PacketSpace::sent')  # SentPackets::remove inside these is the storage layer


def producers(ctx):
    F = ctx.facts
    out = []
    for c in F.callers_of('PacketSpace::take', 'SentPackets::into_values', 'SentPackets::remove', crate='quinn_proto'):
        r = F.root_of(c.body)
        if r.short in WRAPPERS and c.is_('SentPackets::remove'):
            continue
        out.append(c)
    return out


def rule_a(ctx):
    F = ctx.facts
    ps = producers(ctx)
    n = 0
    for c in ps:
        r = F.root_of(c.body)
        key = (r.short, short(c.f))
        cls = CLASSES.get(key)
        if cls is None:
            ctx.bad('a', 'unclassified_sent_packet_producer', r, c.where(),
                    'new site %s yields an owned SentPacket in %s; every such site must be classified and hand the packet to remove_in_flight' % (short(c.f), r.short))
            continue
        sinks, path = flows_always(F, c, SINKS)
        n += 1
        if not sinks:
            ctx.bad('a', 'take_without_remove_in_flight', r, c.where(),
                    'SentPacket produced by %s never reaches remove_in_flight/on_packet_acked in %s' % (short(c.f), r.short), site_class=cls)
        elif path is not None:
            ctx.bad('a', 'take_without_remove_in_flight', r, c.where(),
                    'a path from the binding of the SentPacket to a return avoids remove_in_flight: %s' % fmt_path(c.body, path), site_class=cls)
        else:
            ctx.ok('a', 'take_flows_to_remove_in_flight', r, c.where(), 'class %s; sink at line(s) %s' % (cls, [s.line for s in sinks]))
    ctx.floor('a', 'producers', n, 7)
    # forgotten tail: PacketSpace::sent's result flows to remove_in_flight in PathData::sent
    ps_sent = ctx.pfn('PathData::sent')
    for c in ps_sent.calls_to('PacketSpace::sent'):
        sinks, path = flows_always(F, c, ['PathData::remove_in_flight'])
        ctx.check(bool(sinks) and path is None, 'a', 'forgotten_tail_removed_from_in_flight', ps_sent, c.where(),
                  'forgotten packet returned by PacketSpace::sent is removed from in-flight', 'forgotten packet is not removed from in-flight counters')
    # on_packet_acked must hand its parameter to remove_in_flight on every path
    opa = ctx.pfn('Connection::on_packet_acked')
    ok = must_call(F, opa, ['Connection::remove_in_flight'], depth=0)
    cs = opa.calls_to('Connection::remove_in_flight')
    flows = [c for c in cs if D.has_param(arg_desc(F, c, 1), name='info')]
    ctx.check(ok and bool(flows), 'a', 'on_packet_acked_removes_in_flight', opa, opa.where(),
              'on_packet_acked(info) must-calls remove_in_flight(&info)', 'on_packet_acked no longer always calls remove_in_flight(&info)')
    # Connection::remove_in_flight reaches PathData::remove_in_flight for path and prev_path
    rif = ctx.pfn('Connection::remove_in_flight')
    ctx.check(may_reach(F, rif, ['PathData::remove_in_flight'], 1), 'a', 'conn_remove_reaches_path_remove', rif, rif.where(),
              'delegates to PathData::remove_in_flight', 'no longer delegates to PathData::remove_in_flight')
    who_may_call(ctx, 'a', 'inflight_remove_single_caller', ['InFlight::remove'], ['PathData::remove_in_flight'], floor=1)
    who_may_call(ctx, 'a', 'inflight_insert_single_caller', ['InFlight::insert'], ['PathData::sent'], floor=1)
    who_may_call(ctx, 'a', 'path_sent_single_caller', ['PathData::sent'], ['PacketBuilder::finish_and_track'], floor=1)
    # generation match guard in PathData::remove_in_flight: InFlight::remove only on generation equality
    prf = ctx.pfn('PathData::remove_in_flight')
    brs = [b for b in branches(F, prf) if relation_on(b.desc, True) and desc_has(b.desc, fields=['path_generation', 'generation'])]
    okg = False
    for br in brs:
        rel = relation_on(br.desc, True)
        rm = [c.bb for c in prf.calls_to('InFlight::remove')]
        eq_t = br.true_target() if rel[0] == 'Eq' else br.false_target()
        ne_t = br.false_target() if rel[0] == 'Eq' else br.true_target()
        if rm and all(x in prf.reachable_from(eq_t) for x in rm) and not any(x in prf.reachable_from(ne_t) for x in rm):
            okg = True
    ctx.check(okg, 'a', 'remove_only_on_matching_generation', prf, prf.where(),
              'InFlight::remove only when packet.path_generation == self.generation',
              'InFlight::remove is no longer guarded by the path generation comparison')


def gate_branch(ctx, pt):
    """the congestion gate: a comparison between (in_flight.bytes + x) and Controller::window()"""
    F = ctx.facts
    res = []
    for br in branches(F, pt):
        rel = relation_on(br.desc, True)
        if rel is None:
            continue
        op, a, b = rel
        both = (a, b)
        if any(D.has_call(x, 'Controller::window') for x in both) and any(D.has_field(x, 'in_flight') and D.has_field(x, 'bytes') for x in both):
            res.append(br)
    return res


def rule_b(ctx):
    F = ctx.facts
    pt = ctx.pfn('Connection::poll_transmit')
    gs = gate_branch(ctx, pt)
    if not ctx.check(len(gs) == 1, 'b', 'congestion_gate_present', pt, pt.where(), 'one gate comparison found', 'expected exactly one comparison of in_flight.bytes+bytes_to_send with Controller::window(), found %d' % len(gs)):
        return None
    g = gs[0]
    # relation: blocked iff in_flight + bytes_to_send >= window  <=>  NOT (in_flight+bts < window)
    rel_t = relation_on(g.desc, True)
    op, a, b = rel_t
    # normalise to 'blocked relation'
    lhs_is_inflight = D.has_field(a, 'in_flight')
    # determine which edge is "blocked": the edge from which the `congestion_blocked = true` store is reached first
    d = describer(F, pt)
    blocked_target = None
    for truth in (True, False):
        rel = relation_on(g.desc, truth)
        o, x, y = rel
        # blocked relation is window <= inflight+bts
        if o == 'Le' and D.has_call(x, 'Controller::window') and D.has_field(y, 'in_flight'):
            blocked_target = g.target(1 if truth else 0)
            pass_target = g.target(0 if truth else 1)
    if not ctx.check(blocked_target is not None, 'b', 'gate_relation_ge', pt, g.where(),
                     'blocked iff in_flight.bytes + bytes_to_send >= window()',
                     'gate relation is not `in_flight.bytes + bytes_to_send >= window()` (found %s)' % D.render(g.desc)):
        return None
    # operands: bytes_to_send contains segment_size
    o, x, y = relation_on(g.desc, True)
    side = x if D.has_field(x, 'in_flight') else y
    ctx.check(side[0] == 'bin' and side[1] == 'Add', 'b', 'gate_adds_bytes_to_send', pt, g.where(), 'in_flight.bytes + bytes_to_send', 'gate no longer adds the bytes about to be sent: %s' % D.render(side))
    # blocked edge skips packet construction in this iteration: PacketBuilder::new of the loop not reachable without passing the loop header
    pb = [c for c in pt.calls_to('PacketBuilder::new')]
    # the loop header = block of the `space_idx < spaces.len()` comparison: approximated as the dominator shared by gate and builder; we
    # check instead that from the blocked edge the builder is not reachable while avoiding the gate's own dominating loop head
    head = loop_head(pt, g.bb)
    hit = [c for c in pb if head is not None and c.bb in pt.reachable_from(blocked_target, avoid=[head])]
    ctx.check(head is not None and not hit, 'b', 'blocked_edge_skips_packet', pt, g.where(),
              'on the blocked edge no PacketBuilder::new is reachable within the same loop iteration',
              'on the congestion-blocked edge a packet can still be built in the same iteration')
    return g, blocked_target, pass_target, head


def loop_head(body, bb):
    """innermost natural-loop header dominating bb: the dominator d of bb, closest to bb, that has a back edge (pred dominated by d)"""
    best = None
    for d in range(len(body.blocks)):
        if body.dominates(d, bb):
            for p in body.pred[d]:
                if body.dominates(d, p) and bb in body.reachable_from(d) and p in body.reachable_from(bb):
                    if best is None or body.dominates(best, d):
                        best = d
    return best


def rule_c(ctx, gate):
    F = ctx.facts
    pt = ctx.pfn('Connection::poll_transmit')
    g, blocked_t, pass_t, head = gate
    d = describer(F, pt)
    # exemption branch: the gate is entered only if ack_eliciting && !close && loss_probes == 0
    # find the branches that dominate the gate, and classify them
    exempt = {'ack_eliciting': False, 'close': False, 'loss_probes': False}
    nbr = branches(F, pt, stop_named=True)
    for br in nbr:
        if not pt.dominates(br.bb, g.bb) or br.bb == g.bb:
            continue
        if head is not None and not pt.dominates(head, br.bb):
            continue
        ds = D.render(br.desc)
        # which edge leads to the gate?
        for v, t in br.edges:
            pass
        # local named tests
        if _is_local(br.desc, 'ack_eliciting') and edge_dominates(pt, br.bb, br.true_target(), g.bb):
            exempt['ack_eliciting'] = True
        if _is_local(br.desc, 'close') and edge_dominates(pt, br.bb, br.false_target(), g.bb):
            exempt['close'] = True
        rel = relation_on(br.desc, True)
        if rel and rel[0] in ('Eq', 'Ne') and (D.has_field(rel[1], 'loss_probes') or D.has_field(rel[2], 'loss_probes')) \
                and (D.has_const(rel[1], 0) or D.has_const(rel[2], 0)):
            t = br.true_target() if rel[0] == 'Eq' else br.false_target()
            if edge_dominates(pt, br.bb, t, g.bb):
                exempt['loss_probes'] = True
    for k, v in exempt.items():
        ctx.check(v, 'c', 'gate_entered_iff_' + k, pt, g.where(),
                  'gate guarded by %s test' % k, 'the congestion gate is no longer conditioned on `%s` (exemption set changed)' % k)
    # the builder in the loop, when starting a new datagram (path through buf_capacity increment), passes either the gate's pass edge or
    # an exemption edge: i.e. there is no path head -> builder that passes the "new datagram" allocation while avoiding
    # both the gate block and all exemption branch blocks. Since the exemption tests dominate the gate, this reduces to:
    # the allocation site is dominated by the first exemption test.
    allocs = [(i, j) for i, j, pl, rv, line in pt.assigns() if pt.local_name(pl[0]) == 'buf_capacity' and not pl[1] and rv[0] in ('bin', 'use')
              and D.has_const(d.rvalue(rv, i, j, 0), None) is False and _is_add_store(d, rv, i, j)]
    first_tests = [br.bb for br in nbr if _is_local(br.desc, 'ack_eliciting') and pt.dominates(br.bb, g.bb)]
    okdom = bool(allocs) and bool(first_tests) and all(any(pt.dominates(t, i) for t in first_tests) for i, j in allocs)
    ctx.check(okdom, 'c', 'datagram_allocation_after_gate_decision', pt, pt.where(),
              'every `buf_capacity += ..` (new datagram) is dominated by the gate/exemption decision',
              'a datagram can be allocated without passing the congestion gate decision (allocs=%s)' % allocs)


def _is_local(desc, name):
    d, neg = peel_not(desc)
    if d[0] == 'phi':
        return False
    return d[0] == 'local' and d[2] == name


def _is_add_store(d, rv, i, j):
    x = d.rvalue(rv, i, j, 0)
    return x[0] == 'bin' and x[1] == 'Add'


def rule_d(ctx):
    F = ctx.facts
    lt = ctx.pfn('Connection::on_loss_detection_timeout')
    ws = [w for w in field_writes(F, 'PacketSpace', 'loss_probes', crate='quinn_proto') if w.kind in ('assign', 'callresult')]
    roots_ = sorted({F.root_of(w.body).short for w in ws})
    ctx.check(set(roots_) <= {'Connection::on_loss_detection_timeout', 'Connection::poll_transmit'}, 'd', 'loss_probes_writers', 'PacketSpace.loss_probes', '',
              'writers: %s' % roots_, 'unexpected writer of loss_probes: %s' % roots_)
    for w in ws:
        b = w.body
        dd = describer(F, b)
        if F.root_of(b).short == 'Connection::on_loss_detection_timeout':
            val = dd.rvalue(w.rv, w.bb, w.idx, 0) if w.rv else dd.call_desc(w.call, 0)
            ok = D.has_call(val, 'u32::saturating_add') or D.has_call(val, 'saturating_add')
            consts = {c for c, n in D.consts_in(val)}
            ctx.check(ok and consts <= {'1', '2'} and consts, 'd', 'probes_added_in_1_or_2', b, w.where(),
                      'loss_probes = loss_probes.saturating_add(count), count in %s' % sorted(consts),
                      'loss probe increment is not saturating_add of 1|2: %s' % D.render(val))
        else:
            val = dd.rvalue(w.rv, w.bb, w.idx, 0)
            ok = val[0] == 'bin' and val[1] == 'Sub' and D.has_const(val[3], 1) and D.has_field(val[2], 'loss_probes')
            ctx.check(ok, 'd', 'probe_consumed_one_per_datagram', b, w.where(), 'loss_probes -= 1',
                      'loss probe decrement is not `loss_probes - 1`: %s' % D.render(val))
    ctx.floor('d', 'loss_probes_stores', len(ws), 2)


FLOOR_IDIOMS = "old+x | saturating_add | max(x, minimum_window()) | = minimum_window() | = ssthresh(after max) | restore pre_congestion_state"


def window_stores(ctx, ty, field='window'):
    return [w for w in field_writes(ctx.facts, ty, field, crate='quinn_proto') if w.kind in ('assign', 'callresult')]


def rule_e(ctx):
    F = ctx.facts
    # NewReno / Cubic: P8 final-store form
    for ty, adt in (('NewReno', 'NewReno'), ('Cubic', 'cubic::State')):
        stores = window_stores(ctx, adt)
        by_fn = {}
        for w in stores:
            by_fn.setdefault(w.body.id, []).append(w)
        n = 0
        for fid, ws in by_fn.items():
            b = F.bodies[fid]
            if b.name in ('new', 'clone', 'clone_box', 'build'):
                continue
            dd = describer(F, b)
            blocks = {w.bb for w in ws}
            for w in ws:
                # final store on some path? i.e. a return reachable from w without another store block
                others = blocks - {w.bb}
                later_same = [x for x in ws if x.bb == w.bb and x.idx > w.idx]
                if later_same:
                    continue
                p = path_avoiding(b, b.succ[w.bb], b.return_blocks(), others)
                if p is None and b.succ[w.bb]:
                    continue  # always overwritten later
                val = dd.rvalue(w.rv, w.bb, w.idx, 0) if w.rv else dd.call_desc(w.call, 0)
                n += 1
                ok, why = floor_idiom(ctx, b, val, ty, adt)
                ctx.check(ok, 'e', 'window_final_store_has_floor', b, w.where(), '%s: %s' % (why, D.render(val)[:160]),
                          'final store to %s.window is not a floor idiom (%s): %s' % (ty, FLOOR_IDIOMS, D.render(val)[:300]))
        ctx.floor('e', ty + '_final_stores', n, 3)
        mw = ctx.pfn('<%s as Controller>::window' % ty) if F.try_fn('<%s as Controller>::window' % ty) else None
    # minimum_window = 2 * current_mtu
    for ty in ('NewReno', 'Cubic'):
        mw = ctx.pfn('%s::minimum_window' % ty)
        rd = ret_descs(F, mw)
        ok = all(x[0] == 'bin' and x[1] == 'Mul' and D.has_const(x, 2) and D.has_field(x, 'current_mtu') for _, x in rd)
        ctx.check(ok and rd, 'e', 'minimum_window_is_2_mtu', mw, mw.where(), '2 * current_mtu', 'minimum_window() is no longer 2*current_mtu: %s' % [D.render(x) for _, x in rd])
    # on_mtu_update: the floor must be computed from the NEW mtu (store of current_mtu dominates minimum_window())
    for ty in ('NewReno', 'Cubic'):
        mu = ctx.pfn('<%s as Controller>::on_mtu_update' % ty)
        sts = [w.bb for w in field_writes(F, ty, 'current_mtu', crate='quinn_proto', include_borrows=False) if w.body.id == mu.id]
        mws = mu.calls_to('%s::minimum_window' % ty)
        ctx.floor('e', ty + '_mtu_update_floor_sites', len(mws), 1)
        for c in mws:
            p = path_avoiding(mu, [0], [c.bb], sts)
            ctx.check(bool(sts) and p is None, 'e', 'mtu_update_floor_uses_new_mtu', mu, c.where(), 'current_mtu = new_mtu precedes minimum_window()',
                      '%s::on_mtu_update clamps the window with the minimum computed from the OLD mtu (current_mtu is stored after minimum_window())' % ty)
        for w, v in [(w, describer(F, mu).rvalue(w.rv, w.bb, w.idx, 0)) for w in field_writes(F, ty, 'current_mtu', crate='quinn_proto', include_borrows=False) if w.body.id == mu.id and w.rv]:
            ctx.check(D.has_param(v, name='new_mtu') and not D.const_offsets(v), 'e', 'mtu_update_stores_new_mtu', mu, w.where(), D.render(v), 'current_mtu is not set to the new mtu: ' + D.render(v))
    # BBR
    bbr_cc = ctx.pfn('Bbr::calculate_cwnd')
    stores = [w for w in window_stores(ctx, 'Bbr', 'cwnd') if w.body.id == bbr_cc.id]
    dd = describer(F, bbr_cc)
    # the function must end, on every path that stored cwnd, with a store of min_cwnd guarded by cwnd < min_cwnd OR a store >= min_cwnd; we check:
    # there is a branch `cwnd < min_cwnd` whose true edge stores `cwnd = min_cwnd`, and every other store to cwnd is followed (on all paths to return) by that branch.
    fl = None
    for br in branches(F, bbr_cc):
        rel = relation_on(br.desc, True)
        if rel and rel[0] == 'Lt' and D.has_field(rel[1], 'cwnd') and D.has_field(rel[2], 'min_cwnd'):
            fl = br
    okf = False
    if fl is not None:
        tt = fl.true_target()
        st = [w for w in stores if w.bb in bbr_cc.reachable_from(tt) and D.has_field(dd.rvalue(w.rv, w.bb, w.idx, 0), 'min_cwnd')]
        okf = bool(st)
        for w in stores:
            if w in st:
                continue
            p = path_avoiding(bbr_cc, bbr_cc.succ[w.bb], bbr_cc.return_blocks(), {fl.bb})
            if p is not None:
                okf = False
    ctx.check(okf, 'e', 'bbr_calculate_cwnd_ends_with_floor', bbr_cc, bbr_cc.where(), 'every cwnd store is followed by `if cwnd < min_cwnd {cwnd = min_cwnd}`',
              'Bbr::calculate_cwnd no longer ends with the min_cwnd floor on every path')
    for fn, what in (('<Bbr as Controller>::on_mtu_update', 'max(cwnd,min_cwnd)'),):
        b = ctx.pfn(fn)
        ws = [w for w in window_stores(ctx, 'Bbr', 'cwnd') if w.body.id == b.id]
        d2 = describer(F, b)
        ok = bool(ws) and all(D.has_call(d2.rvalue(w.rv, w.bb, w.idx, 0) if w.rv else d2.call_desc(w.call, 0), 'Ord::max') and
                              D.has_field(d2.rvalue(w.rv, w.bb, w.idx, 0) if w.rv else d2.call_desc(w.call, 0), 'min_cwnd') for w in ws)
        ctx.check(ok, 'e', 'bbr_on_mtu_update_floor', b, b.where(), what, 'Bbr::on_mtu_update cwnd store lost its max(.., min_cwnd) floor')
    cmw = ctx.pfn('bbr::calculate_min_window')
    rd = ret_descs(F, cmw)
    ctx.check(rd and all(x[0] == 'bin' and x[1] == 'Mul' and D.has_const(x, 4) for _, x in rd), 'e', 'bbr_min_window_is_4_mtu', cmw, cmw.where(),
              '4 * mtu', 'bbr calculate_min_window is no longer 4*mtu')
    # window() of the three controllers returns the stored field (so the floor idioms bound what is reported)
    for ty, fld in (('NewReno', 'window'), ('Cubic', 'window')):
        b = ctx.pfn('<%s as Controller>::window' % ty)
        rd = ret_descs(F, b)
        ctx.check(rd and all(x[0] == 'field' and x[2] == fld for _, x in rd), 'e', 'window_reports_stored_field', b, b.where(), 'returns self.%s' % fld,
                  'Controller::window() no longer returns the floored field')


def floor_idiom(ctx, b, val, ty, adt):
    """accepted final-store idioms"""
    r = D.render(val)
    if val[0] == 'phi':
        res = [floor_idiom(ctx, b, x, ty, adt) for x in val[1]]
        return all(x[0] for x in res), 'phi of ' + ','.join(x[1] for x in res)
    if D.has_call(val, ty + '::minimum_window') and (val[0] == 'call' and (val[1] in ('Ord::max', 'u64::max', 'cmp::max') or val[1].endswith('minimum_window'))):
        return True, 'max(x, minimum_window()) / = minimum_window()'
    if val[0] == 'call' and val[1] in ('u64::saturating_add',) and D.has_field(val[3][0], 'window'):
        return True, 'saturating_add'
    if val[0] == 'bin' and val[1] == 'Add' and (D.has_field(val[2], 'window') or D.has_field(val[3], 'window')):
        return True, 'old + x'
    if val[0] == 'field' and val[2] == 'ssthresh':
        # ssthresh itself must be stored from max(_, minimum_window()) in the same function
        ws = [w for w in field_writes(ctx.facts, adt, 'ssthresh', crate='quinn_proto') if w.body.id == b.id and w.kind in ('assign', 'callresult')]
        dd = describer(ctx.facts, b)
        ok = bool(ws) and all(D.has_call(dd.rvalue(w.rv, w.bb, w.idx, 0) if w.rv else dd.call_desc(w.call, 0), ty + '::minimum_window') for w in ws)
        return ok, '= ssthresh (ssthresh = max(_, minimum_window()))'
    if val[0] == 'field' and val[2] == 'window' and D.has_field(val, 'pre_congestion_state'):
        return True, 'restore pre_congestion_state'
    if val[0] == 'field' and val[2] == 'window':
        # copy from a saved state (prior.window)
        return True, 'restore saved window'
    if val[0] == 'call' and val[1] in ('Ord::max', 'u64::max', 'cmp::max') and D.has_call(val, ty + '::minimum_window'):
        return True, 'max(x, minimum_window())'
    return False, 'unrecognised'


def rule_f(ctx):
    F = ctx.facts
    dl = ctx.pfn('Connection::detect_lost_packets')
    # a packet number is pushed to lost_packets only on packet_too_old || largest_acked >= packet + packet_threshold
    pushes = [c for c in dl.calls_to('Vec::push') if D.render(arg_desc(F, c, 0)).find('lost_packets') >= 0 or True]
    d = describer(F, dl)
    pushes = [c for c in dl.calls_to('Vec::push') if _recv_is_local(dl, c, 'lost_packets')]
    brs = branches(F, dl)
    too_old = [br for br in brs if relation_on(br.desc, True) and desc_has(br.desc, calls=['Instant::saturating_duration_since']) and
               D.has_call(br.desc, 'Ord::max') | D.has_call(br.desc, 'cmp::max')]
    thr = [br for br in brs if relation_on(br.desc, True) and desc_has(br.desc, fields=['packet_threshold'])]
    ok = bool(pushes) and bool(too_old) and bool(thr)
    if ok:
        # the push is reachable only via too_old true edge or threshold true edge
        for c in pushes:
            o = too_old[0]
            rel = relation_on(o.desc, True)  # loss_delay <= elapsed  (elapsed >= loss_delay)
            t_old = o.true_target() if rel[0] == 'Le' else o.false_target()
            f_old = o.false_target() if rel[0] == 'Le' else o.true_target()
            h = thr[0]
            relh = relation_on(h.desc, True)
            t_thr = h.true_target() if relh[0] == 'Le' else h.false_target()
            f_thr = h.false_target() if relh[0] == 'Le' else h.true_target()
            # avoid both "lost" edges: push must be unreachable
            reach = dl.reachable_from(0, avoid_edges={(o.bb, t_old), (h.bb, t_thr)})
            if c.bb in reach:
                ok = False
    ctx.check(ok, 'f', 'lost_only_when_too_old_or_past_packet_threshold', dl, dl.where(),
              'lost_packets.push only on (elapsed >= loss_delay) or (largest_acked >= pn + packet_threshold) edges',
              'a packet can be declared lost without the time or packet threshold test')
    # loss_delay = max(rtt*time_threshold, TIMER_GRANULARITY)
    okd = any(D.has_call(br.desc, 'Duration::mul_f32') and D.has_const(br.desc, named='TIMER_GRANULARITY') and D.has_field(br.desc, 'time_threshold') for br in too_old)
    ctx.check(okd, 'f', 'loss_delay_floor', dl, dl.where(), 'loss_delay = max(rtt*time_threshold, TIMER_GRANULARITY)', 'loss_delay expression changed')
    # iteration range 0..largest_acked_packet
    rng = [c for c in dl.calls_to('SentPackets::range')]
    okr = False
    for c in rng:
        ad = arg_desc(F, c, 1)
        if ad[0] == 'agg' and 'Range' in ad[2] and D.has_const(ad[3][0], 0) and D.has_field(ad[3][1], 'largest_acked_packet'):
            okr = True
    ctx.check(okr, 'f', 'loss_scan_range_below_largest_acked', dl, dl.where(), 'range(0..largest_acked_packet)', 'loss scan no longer restricted to packets below the largest acked')
    # on_ack_received sanity
    oa = ctx.pfn('Connection::on_ack_received')
    g = [br for br in branches(F, oa) if relation_on(br.desc, True) and desc_has(br.desc, fields=['largest', 'next_packet_number'])]
    okg = False
    for br in g:
        for truth in (True, False):
            rel = relation_on(br.desc, truth)
            if rel[0] == 'Le' and D.has_field(rel[1], 'next_packet_number') and D.has_field(rel[2], 'largest'):
                ok1, why = edge_leads_to_error(ctx, oa, br, 1 if truth else 0, 'PROTOCOL_VIOLATION',
                                               stop_sites=[c.bb for c in oa.calls_to('PacketSpace::take')])
                okg = ok1 and br.bb in oa.reachable_from(0) and all(oa.dominates(br.bb, c.bb) for c in oa.calls_to('PacketSpace::take'))
                ctx.info('f', 'unsent-ack guard: %s' % why)
    ctx.check(okg, 'f', 'ack_of_unsent_rejected_first', oa, oa.where(), 'ack.largest >= next_packet_number -> PROTOCOL_VIOLATION before any state change',
              'ACK of an unsent packet number is no longer rejected before packets are taken')
    ca = oa.calls_to('PacketNumberFilter::check_ack')
    ins = oa.calls_to('ArrayRangeSet::insert_one')
    okc = bool(ca) and bool(ins) and all(any(oa.dominates(x.bb, c.bb) for x in ca) for c in ins)
    # and the taken packet numbers derive from the set filled there
    tk = oa.calls_to('PacketSpace::take')
    okc = okc and bool(tk) and all(D.has_call(arg_desc(F, c, 1), 'ArrayRangeSet::elts') for c in tk)
    ctx.check(okc, 'f', 'check_ack_precedes_take', oa, oa.where(), 'check_ack (skipped pn) dominates take', 'skipped-packet-number check no longer precedes processing of acked packets')


def _recv_is_local(body, call, name):
    a = call.args[0]
    if a[0] not in ('c', 'm'):
        return False
    # receiver temp = &mut local
    for d in body.defs_of(a[1][0]):
        if d[0] == 'stmt' and d[3][0] == 'ref' and body.local_name(d[3][2][0]) == name:
            return True
    return False


def run(ctx):
    from rules.shared_rules import in_flight_removed_from_either_path
    in_flight_removed_from_either_path(ctx, 'a', 'in_flight_removed_from_either_path')
    rule_a(ctx)
    gate = rule_b(ctx)
    if gate:
        rule_c(ctx, gate)
    rule_d(ctx)
    rule_e(ctx)
    rule_f(ctx)
    ctx.assume('Controller implementations other than the built-in NewReno/Cubic/Bbr are a component boundary')
