"""C06 — a receiver enforces its own limits (structural part)."""
from engine.rulelib import *
from engine import desc as D
from engine import rulelib as RL

EXPLANATION = ("Static rules over quinn-proto MIR: (a) each receive-side limit has a guard with the stated relation whose violating edge always "
               "reaches the prescribed transport error (FLOW_CONTROL_ERROR, FINAL_SIZE_ERROR, STREAM_LIMIT_ERROR, STREAM_STATE_ERROR, PROTOCOL_VIOLATION, "
               "CRYPTO_BUFFER_EXCEEDED); (b) those guards dominate buffering (Assembler::insert, incoming.push_back) and application notification; the datagram "
               "receive buffer evicts in a loop until the new datagram fits; (c) connection credit is returned only by the four legitimate callers of "
               "add_read_credits with the stated amounts; MAX_STREAM_DATA bookkeeping only from write_control_frames; (d) local_max_data / sent_max_* / "
               "receive_window_shrink_debt store idioms; (e) transport errors from the receive path propagate through `?`; (f) ingest()/reset() are checked against "
               "(self.data_recvd, self.local_max_data), forward them to credit_consumed_by, and every accepting path adds the new bytes to data_recvd; (g) credit once per "
               "consumed byte: the set of delivered offsets of an unordered Assembler is born containing exactly 0..bytes_read and every buffered chunk, is consulted for "
               "the whole arriving frame before anything is buffered in unordered mode, and has no other writers. The numeric bound "
               "'buffered <= window' is NOT decided.")
RULE = "rule instances = (rule, site) pairs over MIR branches / stores / call sites; non-trivial = bound to at least one real site"
SS = 'StreamsState'


def P(name):
    return lambda d: D.has_param(d, name=name)


def Fd(name):
    return lambda d: D.has_field(d, name)


def rule_a(ctx):
    F = ctx.facts
    cc = ctx.pfn('Recv::credit_consumed_by')
    guard_error(ctx, 'a', 'stream_window_exceeded', cc, lambda o, a, b: o == 'Lt' and D.has_field(a, 'sent_max_stream_data') and D.has_param(b, name='offset'),
                code='FLOW_CONTROL_ERROR', what='offset > sent_max_stream_data')
    # received + new_bytes > max_data, where new_bytes IS offset (-) self.end (operand order matters: the reverse is 0 for every advancing frame)
    guard_error(ctx, 'a', 'connection_window_exceeded', cc,
                lambda o, a, b: o == 'Lt' and _is_param(a, 'max_data') and b[0] == 'bin' and b[1] == 'Add' and
                ((_is_param(b[2], 'received') and _is_new_bytes(b[3])) or (_is_param(b[3], 'received') and _is_new_bytes(b[2]))),
                code='FLOW_CONTROL_ERROR', what='received + new_bytes > max_data')
    oks = [x[3][0] for _, r in ret_descs(F, cc) for x in flat(r) if x[0] == 'agg' and x[2].endswith('Result::Ok') and x[3]]
    okv = bool(oks) and all(_is_new_bytes(x) for x in oks)
    ctx.check(okv, 'a', 'new_bytes_is_offset_minus_end', cc, cc.where(), 'Ok(offset.saturating_sub(self.end))',
              'credit_consumed_by no longer returns offset (-) self.end: ' + ' | '.join(D.render(x)[:80] for x in oks))
    ing = ctx.pfn('Recv::ingest')
    ins = [c.bb for c in ing.calls_to('Assembler::insert')]
    ctx.floor('a', 'ingest_buffering_sites', len(ins), 1)
    e = guard_error(ctx, 'a', 'offset_above_2_62', ing, lambda o, a, b: o == 'Le' and D.has_call(a, 'u64::pow') and b[0] == 'bin' and b[1] == 'Add' and D.has_field(b, 'offset'),
                    code='FLOW_CONTROL_ERROR', protect=ins, what='end >= 2^62')
    _guard_before(ctx, 'a', 'offset_above_2_62', ing, e, ins, 'end >= 2^62', True)
    e = guard_error(ctx, 'a', 'data_beyond_final_size', ing, lambda o, a, b: o == 'Lt' and _is_final(a) and _is_end(b),
                    code='FINAL_SIZE_ERROR', protect=ins, what='end > final_offset')
    _guard_before(ctx, 'a', 'data_beyond_final_size', ing, e, ins, 'end > final_offset', _final_known)
    e = guard_error(ctx, 'a', 'fin_at_other_offset', ing, lambda o, a, b: o == 'Ne' and ((_is_final(a) and _is_end(b)) or (_is_final(b) and _is_end(a))),
                    code='FINAL_SIZE_ERROR', protect=ins, what='fin && end != final_offset')
    _guard_before(ctx, 'a', 'fin_at_other_offset', ing, e, ins, 'fin && end != final_offset', _final_known)
    # a FIN establishes the final size: it may not lie below data already received (sibling of the check in Recv::reset)
    size_stores = [w.bb for w in field_writes(F, 'recv::RecvState', 'size', crate='quinn_proto') if F.root_of(w.body).id == ing.id]
    ctx.floor('a', 'final_size_stores_in_ingest', len(size_stores), 1)
    e = guard_error(ctx, 'a', 'fin_below_received_data', ing, lambda o, a, b: o == 'Lt' and _is_end(a) and b[0] == 'field' and b[2] == 'end',
                    code='FINAL_SIZE_ERROR', protect=size_stores + ins, what='fin && end < self.end')
    _guard_before(ctx, 'a', 'fin_below_received_data', ing, e, size_stores + ins, 'fin && end < self.end', _final_known)
    rs = ctx.pfn('Recv::reset')
    st = [w.bb for w in field_writes(F, 'recv::Recv', 'state', crate='quinn_proto') if F.root_of(w.body).id == rs.id and w.kind == 'assign']
    ctx.floor('a', 'reset_state_stores', len(st), 1)
    e = guard_error(ctx, 'a', 'reset_final_size_inconsistent', rs, lambda o, a, b: o == 'Ne' and (D.has_call(a, 'Recv::final_offset') or D.has_call(b, 'Recv::final_offset')) and (D.has_param(a, name='final_offset') or D.has_param(b, name='final_offset')),
                    code='FINAL_SIZE_ERROR', protect=st, what='final_offset != known final size')
    _guard_before(ctx, 'a', 'reset_final_size_inconsistent', rs, e, st, 'final_offset != known final size', _final_known)
    e = guard_error(ctx, 'a', 'reset_below_high_water_mark', rs, lambda o, a, b: o == 'Lt' and D.has_param(a, name='final_offset') and D.has_field(b, 'end'),
                    code='FINAL_SIZE_ERROR', protect=st, what='end > final_offset')
    _guard_before(ctx, 'a', 'reset_below_high_water_mark', rs, e, st, 'end > final_offset', _final_known)
    # the high-water-mark check may not be skipped for stopped streams: its branch must not be conditioned on `stopped`
    for br, truth, tgt in guard_edges(ctx, rs, lambda o, a, b: o == 'Lt' and D.has_param(a, name='final_offset') and D.has_field(b, 'end')):
        cond = [b2 for b2 in branches(F, rs) if rs.dominates(b2.bb, br.bb) and b2.bb != br.bb and D.has_field(b2.desc, 'stopped')]
        ctx.check(not cond, 'a', 'high_water_check_unconditional', rs, br.where(), 'not conditioned on self.stopped', 'the final-size lower-bound check is skipped depending on `stopped`')
    vr = ctx.pfn('StreamsState::validate_receive_id')
    guard_error(ctx, 'a', 'stream_limit', vr, lambda o, a, b: o == 'Le' and D.has_field(a, 'max_remote') and D.has_call(b, 'StreamId::index'),
                code='STREAM_LIMIT_ERROR', what='index >= max_remote[dir]')
    guard_error(ctx, 'a', 'unopened_local_bidi', vr, lambda o, a, b: o == 'Le' and D.has_field(a, 'next') and D.has_call(b, 'StreamId::index'),
                code='STREAM_STATE_ERROR', what='index >= next[Bi]')
    dr = ctx.pfn('DatagramState::received')
    push = [c.bb for c in dr.calls_to('VecDeque::push_back')]
    e = guard_error(ctx, 'a', 'datagram_larger_than_window', dr, lambda o, a, b: o == 'Lt' and (D.has_param(a, name='window') or D.render(a).find('window') >= 0) and b[0] == 'call' and b[1] == 'Bytes::len',
                    code='PROTOCOL_VIOLATION', protect=push, what='len > window')
    _guard_before(ctx, 'a', 'datagram_larger_than_window', dr, e, push, 'len > window', True)
    # datagrams disabled -> PROTOCOL_VIOLATION
    eb = err_code_calls(ctx, dr, 'PROTOCOL_VIOLATION')
    ctx.check(len(eb) >= 2, 'a', 'datagram_disabled_rejected', dr, dr.where(), '%d PROTOCOL_VIOLATION sites' % len(eb), 'DatagramState::received lost one of its PROTOCOL_VIOLATION exits (disabled / too large)')
    rc = ctx.pfn('Connection::read_crypto')
    cins = [c.bb for c in rc.calls_to('Assembler::insert')]
    ctx.floor('a', 'crypto_buffering_sites', len(cins), 1)
    e = guard_error(ctx, 'a', 'crypto_buffer_exceeded', rc, lambda o, a, b: o == 'Lt' and D.has_field(a, 'crypto_buffer_size') and D.has_call(b, 'Assembler::bytes_read'),
                    code='CRYPTO_BUFFER_EXCEEDED', protect=cins, what='end - bytes_read > crypto_buffer_size')
    _guard_before(ctx, 'a', 'crypto_buffer_exceeded', rc, e, cins, 'end - bytes_read > crypto_buffer_size', True)


def _guard_before(ctx, rule, instance, body, edges, sites, what, dom):
    """ORDER half of clause (b): guard_error only walks forward from the violating edge, so a protected site that lies
    BEFORE the guard is never seen.  Every live protected site needs a guard edge (br, truth, violating target) with
      * the site cannot flow (back) into the guard's branch  -> the limit is tested before the effect, never after it;
      * the site is reachable from the branch, but only over its pass edge;
      * dominance: dom is True  -> the guard's branch itself dominates the site (unconditional limits);
                   dom is a predicate over branch discriminants -> the guard is nested under an applicability test
                   (`if let Some(final_offset) = self.final_offset()`): that test must dominate both the guard and the site.
    No edges at all is reported by guard_error (/guard_missing)."""
    if not edges:
        return
    live = body.live_blocks()
    F = ctx.facts
    for s in sorted({x for x in sites if x in live}):
        why = ''
        for br, truth, tgt in edges:
            if br.bb in body.reachable_from(s):
                why = 'the protected block bb%d is executed BEFORE the limit is tested at %s' % (s, br.where())
                continue
            if s not in body.reachable_from(br.bb) or s in body.reachable_from(tgt, avoid=[br.bb]):
                why = 'the protected block bb%d is not (only) behind the pass edge of the guard at %s' % (s, br.where())
                continue
            if dom is True:
                d_ok = body.dominates(br.bb, s)
            else:
                d_ok = body.dominates(br.bb, s) or any(dom(b2.desc) and body.dominates(b2.bb, br.bb) and body.dominates(b2.bb, s) for b2 in branches(F, body))
            if not d_ok:
                why = 'a path reaches the protected block bb%d without passing the guard at %s (or the test it is nested under)' % (s, br.where())
                continue
            why = None
            break
        ctx.check(why is None, rule, instance, body, edges[0][0].where(), '%s: guard is evaluated before protected block bb%d and dominates it' % (what, s),
                  '%s: %s' % (what, why))


def _final_known(d):
    """discriminant of `self.final_offset()` (the `if let Some(final_offset) = ..` both final-size guards hang under)"""
    return d[0] == 'discr' and d[1][0] == 'call' and d[1][1] == 'Recv::final_offset'


def _is_param(d, name):
    return d[0] == 'param' and d[2] == name


def _is_self_end(d):
    return d[0] == 'field' and d[2] == 'end' and _is_param(d[1], 'self')


def _is_new_bytes(d):
    """the value IS offset (-) self.end, minuend `offset`, subtrahend `self.end` (or min(offset, self.end))"""
    if d[0] == 'call' and d[1] in ('u64::saturating_sub', 'u64::checked_sub') and len(d[3]) == 2:
        return _is_param(d[3][0], 'offset') and _is_self_end(d[3][1])
    if d[0] == 'call' and d[1] in ('Option::unwrap_or', 'Option::unwrap_or_default') and d[3]:
        zero = len(d[3]) == 1 or (d[3][1][0] == 'const' and str(d[3][1][2]) in ('0', '0_u64'))
        return zero and d[3][0][0] == 'call' and d[3][0][1] == 'u64::checked_sub' and _is_new_bytes(d[3][0])
    if d[0] == 'bin' and d[1] == 'Sub':
        sub = d[3]
        mn = sub[0] == 'call' and sub[1] in ('u64::min', 'Ord::min', 'cmp::min') and len(sub[3]) == 2 and \
            any(_is_param(x, 'offset') for x in sub[3]) and any(_is_self_end(x) for x in sub[3])
        return _is_param(d[2], 'offset') and (_is_self_end(sub) or mn)
    if d[0] == 'phi':
        # if offset > self.end { offset - self.end } else { 0 }
        alts = flat(d)
        nz = [x for x in alts if not (x[0] == 'const' and str(x[2]) in ('0', '0_u64'))]
        return bool(nz) and all(_is_new_bytes(x) for x in nz)
    return False


def _is_final(d):
    return D.has_call(d, 'Recv::final_offset') or (d[0] == 'local' and d[2] == 'final_offset')


def _is_end(d):
    return d[0] == 'bin' and d[1] == 'Add' and D.has_field(d, 'offset')


def rule_b(ctx):
    F = ctx.facts
    rcv = ctx.pfn('StreamsState::received')
    must_precede_sites(ctx, 'b', 'ingest_after_id_validation', rcv, rcv.calls_to('Recv::ingest'), ['StreamsState::validate_receive_id'], depth=0)
    must_precede_sites(ctx, 'b', 'notify_after_ingest', rcv, rcv.calls_to('StreamsState::on_stream_frame'), ['Recv::ingest'], depth=0)
    # the Ok edge of `?` on ingest: on_stream_frame unreachable from the residual (Break) edge
    for c in rcv.calls_to('Recv::ingest') + rcv.calls_to('StreamsState::validate_receive_id'):
        _err_edge_skips(ctx, 'b', 'error_edge_skips_delivery', rcv, c, [x.bb for x in rcv.calls_to('StreamsState::on_stream_frame')] + [x.bb for x in rcv.calls_to('StreamsState::add_read_credits')])
    rr = ctx.pfn('StreamsState::received_reset')
    must_precede_sites(ctx, 'b', 'reset_after_id_validation', rr, rr.calls_to('Recv::reset'), ['StreamsState::validate_receive_id'], depth=0)
    for c in rr.calls_to('Recv::reset') + rr.calls_to('StreamsState::validate_receive_id'):
        _err_edge_skips(ctx, 'b', 'error_edge_skips_delivery', rr, c, [x.bb for x in rr.calls_to('StreamsState::on_stream_frame')] + [x.bb for x in rr.calls_to('StreamsState::add_read_credits')])
    ing = ctx.pfn('Recv::ingest')
    must_precede_sites(ctx, 'b', 'buffer_after_flow_control', ing, ing.calls_to('Assembler::insert'), ['Recv::credit_consumed_by'], depth=0)
    for c in ing.calls_to('Recv::credit_consumed_by'):
        _err_edge_skips(ctx, 'b', 'error_edge_skips_buffering', ing, c, [x.bb for x in ing.calls_to('Assembler::insert')])
    who_may_call(ctx, 'b', 'assembler_insert_callers', ['Assembler::insert'], ['Recv::ingest', 'Connection::read_crypto'], floor=2)
    who_may_call(ctx, 'b', 'ingest_callers', ['Recv::ingest'], ['StreamsState::received'], floor=1)
    who_may_call(ctx, 'b', 'received_callers', ['StreamsState::received'], ['Connection::process_payload'], floor=1)
    # datagram receive buffer: eviction is a loop whose exit condition is "fits"
    dr = ctx.pfn('DatagramState::received')
    push = dr.calls_to('VecDeque::push_back')
    ctx.floor('b', 'datagram_push_sites', len(push), 1)

    def over(o, a, b):
        # len + recv_buffered > window  <=>  window < len + recv_buffered
        return o == 'Lt' and b[0] == 'bin' and b[1] == 'Add' and D.has_field(b, 'recv_buffered') and D.has_call(b, 'Bytes::len')
    edges = guard_edges(ctx, dr, over)
    okloop = False
    for br, truth, tgt in edges:
        # over-limit edge must come back to the same test (loop) after calling recv(), and push only reachable via the other edge
        recvs = [c.bb for c in dr.calls_to('DatagramState::recv')]
        back = br.bb in dr.reachable_from(tgt)
        through = all(path_avoiding(dr, [tgt], [p.bb for p in push], [br.bb]) is None for _ in [0])
        okloop = back and through and any(r in dr.reachable_from(tgt) for r in recvs)
        # .. or after doing what recv() does, spelled out in the loop body: the oldest buffered datagram is popped off
        # self.incoming and its length comes off recv_buffered -- on every trip round the loop
        if back and through and not okloop:
            okloop = any(p in dr.reachable_from(tgt) and path_avoiding(dr, [tgt], [br.bb], [p]) is None for p in _inline_evictions(ctx, dr, br.bb))
    ctx.check(okloop, 'b', 'datagram_eviction_loops_until_fit', dr, dr.where(), 'while len + recv_buffered > window { recv() } precedes push_back',
              'the datagram receive buffer no longer evicts repeatedly until the new datagram fits (bounded buffering)')


def _inline_evictions(ctx, body, head):
    """DatagramState::recv() is `let x = self.incoming.pop_front()?.data; self.recv_buffered -= x.len(); Some(x)`: the
    oldest buffered datagram leaves the queue and its length leaves the byte count; on an empty queue nothing happens.
    Returns the blocks of `body` that do the same without the call: a `pop_front()` on self.incoming whose Some payload P
    (bound by a test of the pop's own result, or taken with unwrap / expect) is followed, on every path from there to
    the loop head `head` or to a return, by a store  self.recv_buffered = self.recv_buffered - P.data.len()  -- a store
    of that value that is only made when something was popped.  A pop without the matching decrement (or a decrement by
    anything else than the popped datagram's length) is not an eviction."""
    F = ctx.facts
    out = []
    stores = [(w, v) for w, v in store_values(ctx, 'DatagramState', 'recv_buffered', in_fn=body) if w.body.id == body.id]
    stops = [head] + list(body.return_blocks())
    for p in body.calls_to('VecDeque::pop_front'):
        if not (p.args and _is_self_field(arg_desc(F, p, 0), 'incoming')):
            continue

        def popped(x, p=p):
            if x[0] == 'field' and x[2] == '0' and x[1][0] == 'variant' and x[1][2] == 'Some':
                return is_site(x[1][1], p)
            if x[0] == 'call' and _trait(x[1]) in ('Option::unwrap', 'Option::expect') and x[3]:
                return is_site(x[3][0], p)
            return False

        def is_len(x):
            return x[0] == 'call' and x[1] == 'Bytes::len' and len(x[3]) == 1 and x[3][0][0] == 'field' and x[3][0][2] == 'data' and popped(x[3][0][1])
        good = [w.bb for w, v in stores if _is_diff(v, lambda a: _is_self_field(a, 'recv_buffered'), is_len)]
        if not good:
            continue
        ok = False
        tests = [br for br in branches(F, body) if br.desc[0] == 'discr' and is_site(br.desc[1], p)]
        for br in tests:
            t_some, t_none = br.target(1), br.target(0)
            if t_some is None or t_some == t_none:
                continue
            if all(edge_dominates(body, br.bb, t_some, g) for g in good) and path_avoiding(body, [t_some], stops, good) is None:
                ok = True
        if not tests and all(body.dominates(p.bb, g) for g in good) and path_avoiding(body, list(body.succ[p.bb]), stops, good) is None:
            ok = True   # pop_front().unwrap(): no None edge to speak of
        if ok:
            out.append(p.bb)
    return out


def _err_edge_skips(ctx, rule, instance, body, call, sites):
    """after `call(..)?` the Break/Err edge cannot reach `sites`"""
    F = ctx.facts
    # find the Try::branch call consuming the result, then the discriminant switch
    d = describer(F, body)
    found = False
    for br in branches(F, body):
        if br.desc[0] == 'discr' and contains_site(br.desc[1], call):
            found = True
            t_err = br.target(1)  # ControlFlow::Break / Result::Err discriminant 1
            reach = body.reachable_from(t_err)
            bad = [s for s in sites if s in reach]
            ctx.check(not bad, rule, instance, body, call.where(), 'error edge of %s skips %d protected site(s)' % (short(call.f), len(sites)),
                      'on the error edge of %s protected blocks %s are reachable' % (short(call.f), bad))
    if not found:
        ctx.bad(rule, instance + '/result_not_checked', body, call.where(), 'the Result of %s is not branched on (error dropped?)' % short(call.f))


def rule_c(ctx):
    F = ctx.facts
    who_may_call(ctx, 'c', 'add_read_credits_callers', ['StreamsState::add_read_credits'],
                 ['Chunks::finalize_inner', 'RecvStream::stop', 'StreamsState::received', 'StreamsState::received_reset'], floor=4,
                 why='connection flow-control credit may only be returned for consumed or discarded data')
    who_may_call(ctx, 'c', 'record_sent_max_stream_data_callers', ['Recv::record_sent_max_stream_data'], ['StreamsState::write_control_frames'], floor=1)
    # amounts
    fi = ctx.pfn('Chunks::finalize_inner')
    for c in fi.calls_to('StreamsState::add_read_credits'):
        a = arg_desc(F, c, 1)
        ctx.check(a[0] == 'field' and a[2] == 'read', 'c', 'finalize_credits_bytes_read', fi, c.where(), D.render(a), 'finalize credits something other than the bytes read: ' + D.render(a))
    nx = ctx.pfn('Chunks::next')
    for w, v in store_values(ctx, 'recv::Chunks', 'read'):
        r = F.root_of(w.body)
        if r.id == nx.id:
            ok = v[0] == 'bin' and v[1] == 'Add' and D.has_field(v, 'read') and D.has_call(v, 'Bytes::len') and D.has_call(v, 'Assembler::read')
            ctx.check(ok, 'c', 'read_counter_counts_delivered_bytes', nx, w.where(), D.render(v)[:140], 'Chunks.read is not incremented by the delivered chunk length: ' + D.render(v)[:200])
    st = ctx.pfn('RecvStream::stop')
    for c in st.calls_to('StreamsState::add_read_credits'):
        a = arg_desc(F, c, 1)
        # the argument IS the first component of Recv::stop()'s Ok payload — not an expression containing it (max(..), + x)
        ctx.check(_is_ok_component(a, 'Recv::stop', '0'), 'c', 'stop_credits_discarded_bytes', st, c.where(), D.render(a)[:100],
                  'stop() credits something other than exactly Recv::stop()s read_credits: ' + _outline(a))
    ctx.floor('c', 'stop_credit_sites', len(st.calls_to('StreamsState::add_read_credits')), 1)
    rs = ctx.pfn('Recv::stop')
    # what stop() discards: for a live stream everything received and not read; for a stream whose RESET_STREAM has been
    # received NOTHING (received_reset already credited final_offset - bytes_read when it dropped the data)
    why = _stop_credit_shape(F, rs)
    ctx.check(why is None, 'c', 'discarded_is_end_minus_read', rs, rs.where(), 'match self.state { Recv => self.end - bytes_read, ResetRecvd => 0 }',
              'Recv::stop must return end - bytes_read for a stream in state Recv and exactly 0 for one in state ResetRecvd (its data was credited by the reset): %s' % why)
    rcv = ctx.pfn('StreamsState::received')
    for c in rcv.calls_to('StreamsState::add_read_credits'):
        a = arg_desc(F, c, 1)
        ctx.check(_is_ok_component(a, 'Recv::ingest', '0'), 'c', 'stopped_stream_credits_new_bytes', rcv, c.where(), D.render(a)[:100],
                  'credits on the stopped path are not exactly ingest()s new_bytes: ' + _outline(a))
        # only on the stopped edge: on_stream_frame(true) edge returns before
        brs = [br for br in branches(F, rcv) if D.has_field(br.desc, 'stopped')]
        okb = any(c.bb in rcv.reachable_from(br.target(1)) and c.bb not in rcv.reachable_from(br.target(0)) for br in brs)
        ctx.check(okb, 'c', 'immediate_credit_only_when_stopped', rcv, c.where(), 'only on rs.stopped edge', 'credit is returned immediately for data that is still buffered (not stopped)')
    rr = ctx.pfn('StreamsState::received_reset')
    for c in rr.calls_to('StreamsState::add_read_credits'):
        a = arg_desc(F, c, 1)
        # final_offset - (already credited): bytes_read for a live stream, `end` for a stopped one (stop() and the
        # stopped-stream path of received() have credited everything received so far)
        ok = a[0] == 'bin' and a[1] == 'Sub' and (D.has_param(a[2], name='frame') or D.render(a[2]).find('final_offset') >= 0) and a[3][0] == 'phi'
        alts = flat(a[3]) if ok else []
        ok = ok and len(alts) == 2 and any(D.has_call(x, 'Assembler::bytes_read') and not D.has_field(x, 'end') for x in alts) and any(x[0] == 'field' and x[2] == 'end' for x in alts)
        ctx.check(ok, 'c', 'reset_credits_only_uncredited_remainder', rr, c.where(), D.render(a)[:160],
                  'reset must credit final_offset - bytes_read for a live stream and final_offset - end for a stopped one (whose data was already credited): ' + D.render(a)[:200])
        # the choice is made by `stopped`, and in the right direction: the block producing the `end` alternative is only
        # reachable over the stopped == true edge of a branch on <recv>.stopped, the `bytes_read` one only over its false edge
        why = _base_selected_by_stopped(F, rr, c, alts) if ok else 'the credited base is not a two-way choice between bytes_read and end'
        ctx.check(why is None, 'c', 'reset_credit_base_selected_by_stopped', rr, c.where(), 'if stopped { end } else { bytes_read }',
                  'the already-credited base is not chosen by the stopped flag: %s' % why)
    ctx.floor('c', 'reset_credit_sites', len(rr.calls_to('StreamsState::add_read_credits')), 1)


def _is_unread(d):
    """d IS self.end - self.assembler.bytes_read()"""
    return d[0] == 'bin' and d[1] == 'Sub' and _is_self_end(d[2]) and d[3][0] == 'call' and d[3][1] == 'Assembler::bytes_read' and \
        len(d[3][3]) == 1 and d[3][3][0] == ('field', ('param', 1, 'self'), 'assembler')


def _stop_credit_shape(F, body):
    """None when the first component of every Ok(..) returned by Recv::stop is `self.end - bytes_read` on the Recv edge of a
    test of self.state and the constant 0 on its ResetRecvd edge (and nothing else); else the reason"""
    dsc = describer(F, body)
    comps = []
    for _, r in ret_descs(F, body):
        for x in flat(r):
            if x[0] == 'agg' and x[2].endswith('Result::Ok'):
                pay = x[3][0] if x[3] else None
                if not (pay and pay[0] == 'agg' and pay[1] == 'tuple' and len(pay[3]) == 2):
                    return 'the Ok payload is not a (credits, ShouldTransmit) pair built in stop()'
                comps.extend(flat(pay[3][0]))
    kinds = {'unread' if _is_unread(x) else 'zero' if _is_zero(x) else 'other:' + D.render(x)[:60] for x in comps}
    if kinds != {'unread', 'zero'}:
        return 'the credited value is %s (expected exactly: end - bytes_read | 0)' % (' | '.join(sorted(kinds)) or 'absent')
    # where each alternative is produced: the stores of the local that merges them, or (early-return form) the blocks that
    # build Ok((<alternative>, ..))
    prod = None
    for l in range(1, len(body.locals)):
        defs = body.defs_of(l)
        if len(defs) == 2 and all(df[0] == 'stmt' for df in defs):
            vals = [(dsc.rvalue(df[3], df[1], df[2], 0), df[1]) for df in defs]
            if sorted('u' if _is_unread(v) else 'z' if _is_zero(v) else '?' for v, _ in vals) == ['u', 'z']:
                prod = vals
                break
    if prod is None:
        prod = []
        for df in body.defs_of(0):
            if df[0] != 'stmt':
                continue
            v = dsc.rvalue(df[3], df[1], df[2], 0)
            if v[0] == 'agg' and v[2].endswith('Result::Ok') and v[3] and v[3][0][0] == 'agg' and v[3][0][3]:
                prod.append((v[3][0][3][0], df[1]))
        if not prod or not all(_is_unread(v) or _is_zero(v) for v, _ in prod):
            return 'cannot locate where the two alternatives of the credited value are produced'
    names = {v['name']: int(v['discr']) for v in F.adt('recv::RecvState')['variants']}
    if set(names) != {'Recv', 'ResetRecvd'}:
        return 'RecvState no longer has exactly the variants Recv and ResetRecvd: %s' % sorted(names)
    tests = [br for br in branches(F, body) if br.desc[0] == 'discr' and _is_self_field(br.desc[1], 'state')]
    if not tests:
        return 'the credited value does not depend on a test of self.state'
    live = body.live_blocks()
    errs = []
    for v, blk in prod:
        if blk not in live:
            continue
        want, other = ('Recv', 'ResetRecvd') if _is_unread(v) else ('ResetRecvd', 'Recv')
        good = False
        for br in tests:
            t_want, t_other = br.target(names[want]), br.target(names[other])
            if t_want != t_other and edge_dominates(body, br.bb, t_want, blk) and blk not in body.reachable_from(t_other, avoid=[br.bb]):
                good = True
        if not good:
            errs.append('`%s` is not confined to the %s edge of a test of self.state' % ('end - bytes_read' if _is_unread(v) else '0', want))
    return '; '.join(errs) if errs else None


def _is_ok_component(d, callee, idx):
    """d is exactly `<callee>(..)?.<idx>`: tuple component idx of the Ok/Continue/Some payload of a call of callee
    (casts, moves and `?` are erased by the describer); nothing wrapped around it"""
    if not (d[0] == 'field' and d[2] == idx):
        return False
    x = d[1]
    while x[0] == 'field' and x[2] == '0' and x[1][0] == 'variant' and x[1][2] in ('Continue', 'Ok', 'Some'):
        x = x[1][1]
    return x[0] == 'call' and x[1] == callee


def _outline(d):
    """outermost operator of a descriptor, for messages"""
    if d[0] == 'call':
        return 'outermost node is a call of %s' % d[1]
    if d[0] == 'bin':
        return 'outermost node is the binary operation %s' % d[1]
    return 'outermost node is %s %s' % (d[0], d[2] if len(d) > 2 and isinstance(d[2], str) else '')


def _base_selected_by_stopped(F, body, call, alts):
    """None when ok, else the reason.  alts = the two alternatives (end | bytes_read) of the subtrahend."""
    dsc = describer(F, body)
    # the merge local: a local with one plain store per alternative
    blocks = None
    for l in range(len(body.locals)):
        defs = [df for df in body.defs_of(l) if df[0] == 'stmt']
        if len(defs) != len(alts) or len(body.defs_of(l)) != len(defs):
            continue
        vals = [(dsc.rvalue(df[3], df[1], df[2], 0), df[1]) for df in defs]
        if sorted((repr(v) for v, _ in vals)) == sorted(repr(x) for x in alts):
            blocks = vals
            break
    if blocks is None:
        return 'no local merges exactly the alternatives of the credited base'
    live = body.live_blocks()
    errs = []
    for v, blk in blocks:
        if blk not in live:
            errs.append('an alternative is defined in dead code')
            continue
        is_end = v[0] == 'field' and v[2] == 'end'
        base = v[1] if is_end else None
        good = False
        for br in branches(F, body):
            inner, neg = peel_not(br.desc)
            if not (inner[0] == 'field' and inner[2] == 'stopped'):
                continue
            if is_end and inner[1] != base:
                continue  # `stopped` of another object than the one whose `end` is used
            if not (is_end or D.has_call(v, 'Assembler::bytes_read') and any(x == inner[1] for x in D.walk(v))):
                continue
            t_true, t_false = br.target(0 if neg else 1), br.target(1 if neg else 0)
            want, other = (t_true, t_false) if is_end else (t_false, t_true)
            if want == other or not body.dominates(br.bb, call.bb):
                continue
            if edge_dominates(body, br.bb, want, blk) and blk not in body.reachable_from(other, avoid=[br.bb]):
                good = True
        if not good:
            errs.append('the alternative `%s` is not confined to the stopped == %s edge of a branch on the stream`s stopped flag'
                        % (D.render(v)[-40:], 'true' if is_end else 'false'))
    return '; '.join(errs) if errs else None


# --------------------------------------------------------------------------
# rule d, set_receive_window: a window change never creates credit
# --------------------------------------------------------------------------
# Invariant kept by add_read_credits / set_receive_window:  local_max_data - debt == consumed + receive_window.
#   shrink by s : the limit already advertised cannot be taken back, so debt += s (future credits pay it off first)
#   expand by d : the part of d that only re-covers what an earlier shrink left outstanding is NOT new credit:
#                 local_max_data += d (-) debt   and   debt = debt (-) d        ((-) = saturating difference)
# Both right-hand sides speak about the state BEFORE the change (old window, old debt).

def _is_monus(d, isa, isb):
    """d IS a (-) b, the saturating difference with minuend a and subtrahend b"""
    if d[0] == 'call' and _trait(d[1]) == 'u64::saturating_sub' and len(d[3]) == 2:
        return isa(d[3][0]) and isb(d[3][1])
    if d[0] == 'call' and _trait(d[1]) in ('Option::unwrap_or', 'Option::unwrap_or_default') and d[3]:
        c = d[3][0]
        return (len(d[3]) == 1 or _is_zero(d[3][1])) and c[0] == 'call' and _trait(c[1]) == 'u64::checked_sub' and len(c[3]) == 2 and isa(c[3][0]) and isb(c[3][1])
    if d[0] == 'bin' and d[1] == 'Sub':
        # a - min(a, b)
        m = d[3]
        return isa(d[2]) and m[0] == 'call' and _trait(m[1]) in ('u64::min', 'Ord::min', 'cmp::min') and len(m[3]) == 2 and \
            ((isa(m[3][0]) and isb(m[3][1])) or (isa(m[3][1]) and isb(m[3][0])))
    return False


def _is_diff(d, isa, isb):
    """d IS a - b (on an edge where a >= b is known the checked, saturating and absolute differences coincide)"""
    if d[0] == 'bin' and d[1] == 'Sub':
        return isa(d[2]) and isb(d[3])
    if d[0] == 'call' and len(d[3]) == 2 and _trait(d[1]) == 'u64::saturating_sub':
        return isa(d[3][0]) and isb(d[3][1])
    if d[0] == 'call' and len(d[3]) == 2 and _trait(d[1]) == 'u64::abs_diff':
        return (isa(d[3][0]) and isb(d[3][1])) or (isa(d[3][1]) and isb(d[3][0]))
    return False


def _is_sat_sum(d, isa, isb):
    """d IS a.saturating_add(b), either operand order"""
    if not (d[0] == 'call' and _trait(d[1]) == 'u64::saturating_add' and len(d[3]) == 2):
        return False
    return (isa(d[3][0]) and isb(d[3][1])) or (isa(d[3][1]) and isb(d[3][0]))


def _rv_operands(rv):
    k = rv[0]
    if k == 'use':
        return [rv[1]]
    if k in ('ref', 'ptr'):
        return [] if (k == 'ref' and rv[1]) else [['c', rv[2]]]
    if k == 'bin':
        return [rv[2], rv[3]]
    if k in ('un', 'cast'):
        return [rv[2]]
    if k == 'discr':
        return [['c', rv[1]]]
    if k == 'agg':
        return list(rv[2])
    if k == 'rep':
        return [rv[1]]
    return []


def _field_loads(body, adt, name):
    """(bb, idx, line) of every read of a place through field adt.name in the body (statements, call arguments, switch /
    assert operands); idx of a terminator = number of statements of its block"""
    out = []
    live = body.live_blocks()

    def hit(o):
        return isinstance(o, (list, tuple)) and len(o) > 1 and o[0] in ('c', 'm') and place_has_field(o[1], adt, name)
    for i, j, s in body.stmts():
        if i in live and s[0] == '=' and any(hit(o) for o in _rv_operands(s[2])):
            out.append((i, j, s[3]))
    for i, b in enumerate(body.blocks):
        if b['c'] or i not in live:
            continue
        t = b['t']
        ops = []
        if t[0] == 'call':
            ops = list(t[1]['args'])
        elif t[0] in ('switch', 'assert'):
            ops = [t[1]]
        if any(hit(o) for o in ops):
            out.append((i, len(b['s']), t[1]['line'] if t[0] == 'call' else 0))
    return out


def _window_change(ctx, srw):
    F = ctx.facts
    DEBT, WIN, LMD = 'receive_window_shrink_debt', 'receive_window', 'local_max_data'

    def is_old(d):
        return _is_self_field(d, WIN)

    def is_debt(d):
        return _is_self_field(d, DEBT)

    def is_lmd(d):
        return _is_self_field(d, LMD)
    # ---- anchor: the window being installed = the one value stored to self.receive_window, an argument of the function
    wins = store_values(ctx, SS, WIN, in_fn=srw)
    ctx.floor('d', 'receive_window_stores', len(wins), 1)
    news = {v for _, v in wins}
    new = next(iter(news)) if len(news) == 1 else None
    okn = new is not None and new[0] == 'param' and new[1] >= 2
    ctx.check(okn, 'd', 'installed_window_is_the_argument', srw, wins[0][0].where() if wins else srw.where(), D.render(new) if new else '',
              'set_receive_window does not install exactly its argument as self.receive_window: %s' % ' | '.join(D.render(v)[:80] for v in news))
    if not okn:
        return

    def is_new(d):
        return d == new
    # ---- the direction test: old < new (or old <= new: an unchanged window is a no-op in either arm)
    edges = guard_edges(ctx, srw, lambda o, a, b: o in ('Lt', 'Le') and is_old(a) and is_new(b))
    arms = []
    for br, truth, t_exp in edges:
        t_shr = br.target(0 if truth else 1)
        if t_shr is not None and t_shr != t_exp:
            arms.append((br, t_exp, t_shr))
    if not arms:
        ctx.bad('d', 'window_change_direction/guard_missing', srw, srw.where(),
                'no branch comparing the new window with self.receive_window separates expansion from shrinking' + RL._offset_note(srw))
        return

    def side(bb):
        for br, t_exp, t_shr in arms:
            if edge_dominates(srw, br.bb, t_exp, bb) and bb not in srw.reachable_from(t_shr, avoid=[br.bb]):
                return 'expand'
            if edge_dominates(srw, br.bb, t_shr, bb) and bb not in srw.reachable_from(t_exp, avoid=[br.bb]):
                return 'shrink'
        return None

    def is_growth(d):  # new - old
        return _is_diff(d, is_new, is_old)

    def is_cut(d):  # old - new
        return _is_diff(d, is_old, is_new)
    # ---- the debt: accumulated by a shrink, paid off (not wiped, not kept) by an expansion
    good = {'expand': [], 'shrink': []}
    debts = store_values(ctx, SS, DEBT, in_fn=srw)
    ctx.floor('d', 'shrink_debt_stores', len(debts), 1)
    for w, v in debts:
        sd = side(w.bb) if w.body.id == srw.id else None
        if sd == 'shrink':
            ok = _is_sat_sum(v, is_debt, is_cut)
            ctx.check(ok, 'd', 'shrink_debt_accumulates', srw, w.where(), D.render(v)[:140],
                      'on a shrink receive_window_shrink_debt must become debt.saturating_add(old window - new window) (accumulated, not overwritten): ' + D.render(v)[:200])
        elif sd == 'expand':
            ok = _is_monus(v, is_debt, is_growth)
            ctx.check(ok, 'd', 'expansion_pays_off_shrink_debt', srw, w.where(), D.render(v)[:140],
                      'on an expansion receive_window_shrink_debt must become debt.saturating_sub(new window - old window) (paid off by the growth, neither wiped nor kept): ' + D.render(v)[:200])
        else:
            ok = False
            ctx.bad('d', 'shrink_debt_accumulates', srw, w.where(), 'a store to receive_window_shrink_debt is not confined to the expanding or to the shrinking arm of the direction test: ' + D.render(v)[:160])
        if ok:
            good[sd].append(w.bb)
    # .. on every path of its arm (a path may skip the pay-off only over an edge on which debt == 0 holds)
    zero = {(br.bb, tgt) for br, truth, tgt in guard_edges(ctx, srw, lambda o, a, b: (o == 'Eq' and ((is_debt(a) and _is_zero(b)) or (is_debt(b) and _is_zero(a)))) or (o == 'Le' and is_debt(a) and _is_zero(b)))}
    rets = set(srw.return_blocks())
    for br, t_exp, t_shr in arms:
        leak = rets & srw.reachable_from(t_exp, avoid=good['expand'], avoid_edges=zero)
        ctx.check(not leak, 'd', 'expansion_pays_off_shrink_debt', srw, br.where(), 'every expanding path stores debt (-) growth',
                  'a path expands the receive window without paying the growth off receive_window_shrink_debt: later read credits are withheld for a debt that '
                  'no longer exists, or (with the credit un-netted) local_max_data runs ahead of consumed + window')
        leak = rets & srw.reachable_from(t_shr, avoid=good['shrink'])
        ctx.check(not leak, 'd', 'shrink_debt_accumulates', srw, br.where(), 'every shrinking path stores debt + cut',
                  'a path shrinks the receive window without recording the cut in receive_window_shrink_debt: read credits keep re-opening the old, larger window')
    # ---- the credit: only an expansion raises local_max_data, and only by the growth NET of the outstanding debt
    n = 0
    for w, v in store_values(ctx, SS, LMD, in_fn=srw):
        sd = side(w.bb) if w.body.id == srw.id else None
        ok = sd == 'expand' and _is_sat_sum(v, is_lmd, lambda x: _is_monus(x, is_growth, is_debt))
        n += ok
        ctx.check(ok, 'd', 'expansion_nets_shrink_debt', srw, w.where(), D.render(v)[:160],
                  'set_receive_window may raise local_max_data only in its expanding arm and only by (new window - old window).saturating_sub(receive_window_shrink_debt) '
                  '(an earlier shrink left local_max_data ahead of the window by the debt; re-expanding must not grant that part twice): %s store of %s'
                  % (sd or 'unconfined', D.render(v)[:200]))
    ctx.floor('d', 'expansion_credit_stores', n, 1)
    # ---- "old window", "old debt", "old limit": nothing is read back after it has been updated
    for f in (DEBT, WIN, LMD):
        stores = [w for w, _ in store_values(ctx, SS, f, in_fn=srw) if w.body.id == srw.id]
        for bb, idx, line in _field_loads(srw, SS, f):
            late = [w for w in stores if (w.bb == bb and idx > w.idx) or (bb in srw.reachable_strict(w.bb))]
            ctx.check(not late, 'd', 'window_change_uses_state_before_update', srw, '%s:%d' % (srw.file, line) if line else srw.where(), 'self.%s read before it is updated' % f,
                      'self.%s is read after set_receive_window has already updated it (store at %s): the netting must use the debt / window / limit from before the change'
                      % (f, late[0].where() if late else ''))


def rule_d(ctx):
    F = ctx.facts
    who_may_write(ctx, 'd', 'local_max_data_writers', SS, 'local_max_data', ['StreamsState::add_read_credits', 'StreamsState::set_receive_window', 'StreamsState::new'], floor=2)
    for w, v in store_values(ctx, SS, 'local_max_data'):
        r = F.root_of(w.body)
        if r.short == 'StreamsState::new':
            continue
        ok = v[0] == 'call' and v[1] == 'u64::saturating_add' and D.has_field(v[3][0], 'local_max_data')
        ctx.check(ok, 'd', 'local_max_data_only_raised', r, w.where(), D.render(v)[:140], 'local_max_data store is not old.saturating_add(x): ' + D.render(v)[:200])
        if r.short == 'StreamsState::add_read_credits':
            x = v[3][1]
            ok2 = x[0] == 'bin' and x[1] == 'Sub' and D.has_param(x[2], name='credits') and D.has_field(x[3], 'receive_window_shrink_debt')
            ctx.check(ok2, 'd', 'credits_net_of_shrink_debt', r, w.where(), D.render(x), 'credits are not reduced by receive_window_shrink_debt: ' + D.render(x))
    # a window change moves credit between local_max_data and the shrink debt, never creates any
    _window_change(ctx, ctx.pfn('StreamsState::set_receive_window'))
    # sent_max_data / sent_max_stream_data only raised
    wcf = ctx.pfn('StreamsState::write_control_frames')
    for w, v in store_values(ctx, SS, 'sent_max_data', in_fn=wcf):
        guard_protects(ctx, 'd', 'sent_max_data_only_raised', wcf, lambda o, a, b: o == 'Le' and D.has_field(b, 'sent_max_data') and D.has_field(a, 'local_max_data'), [w.bb], what='max <= sent_max_data', need_dom=True)
    rs = ctx.pfn('Recv::record_sent_max_stream_data')
    for w, v in store_values(ctx, 'recv::Recv', 'sent_max_stream_data', in_fn=rs):
        guard_protects(ctx, 'd', 'sent_max_stream_data_only_raised', rs, lambda o, a, b: o == 'Le' and D.has_param(a, name='sent_value') and D.has_field(b, 'sent_max_stream_data'), [w.bb], what='sent_value <= sent')
    who_may_write(ctx, 'd', 'sent_max_stream_data_writers', 'recv::Recv', 'sent_max_stream_data', ['Recv::record_sent_max_stream_data', 'Recv::new', 'Recv::reinit'], floor=2)
    # data_recvd accounting
    who_may_write(ctx, 'd', 'data_recvd_writers', SS, 'data_recvd', ['StreamsState::received', 'StreamsState::received_reset', 'StreamsState::new'], floor=2)


def rule_e(ctx):
    F = ctx.facts
    # errors propagate: in process_payload every call returning Result<_, TransportError> from the receive path is followed by `?`
    pp = ctx.pfn('Connection::process_payload')
    targets = ['StreamsState::received', 'StreamsState::received_reset', 'DatagramState::received', 'Connection::read_crypto',
               'StreamsState::received_max_stream_data', 'StreamsState::received_max_streams', 'Connection::on_ack_received']
    n = 0
    for c in pp.calls_to(*targets):
        n += 1
        # result flows into Try::branch
        tb = [x for x in pp.calls_to('Try::branch') if _is_result_of(arg_desc(F, x, 0), c)]
        ctx.check(bool(tb) or _err_returned_unchanged(F, pp, c), 'e', 'receive_errors_propagate', pp, c.where(), '%s(..)?' % short(c.f), 'the Result of %s is not propagated unchanged with `?`%s' % (short(c.f), _try_note(F, pp, c)))
    ctx.floor('e', 'propagating_calls', n, 7)
    pe = ctx.pfn('Connection::process_early_payload')
    for c in pe.calls_to('Connection::read_crypto', 'Connection::on_ack_received'):
        tb = [x for x in pe.calls_to('Try::branch') if _is_result_of(arg_desc(F, x, 0), c)]
        ctx.check(bool(tb) or _err_returned_unchanged(F, pe, c), 'e', 'receive_errors_propagate', pe, c.where(), '%s(..)?' % short(c.f), 'the Result of %s is not propagated unchanged with `?`%s' % (short(c.f), _try_note(F, pe, c)))
    ctx.floor('e', 'early_propagating_calls', len(pe.calls_to('Connection::read_crypto', 'Connection::on_ack_received')), 2)


# Result combinators that hand the Err of their receiver through unchanged
_ERR_PRESERVING = ('Result::map', 'Result::inspect', 'Result::inspect_err', 'Result::and_then', 'Result::and')
_ERR_CONVERT = ('From::from', 'Into::into', 'convert::identity')


def _is_result_of(d, call):
    """the operand of `?` IS the Result of `call`, possibly through combinators that cannot replace or drop an Err
    (`or`, `or_else`, `unwrap_or*`, `ok`, `map_err(<other code>)` are NOT transparent)"""
    for x in flat(d):
        while True:
            if is_site(x, call):
                return True
            if x[0] == 'call' and x[3] and (x[1] in _ERR_PRESERVING or _trait(x[1]) in _ERR_PRESERVING):
                x = x[3][0]
                continue
            if x[0] == 'call' and x[1] == 'Result::map_err' and len(x[3]) == 2 and x[3][1][0] == 'const' and x[3][1][1] == 'fn' and \
                    (x[3][1][2] in _ERR_CONVERT or _trait(x[3][1][2]) in _ERR_CONVERT):
                # map_err(Into::into): a type conversion of the same error, not a replacement
                x = x[3][0]
                continue
            break
    return False


_IS_OK, _IS_ERR = ('Result::is_ok',), ('Result::is_err',)


def _result_tests(F, body, call):
    """every branch that tests the Ok/Err discriminant of the Result of `call` itself: (Branch, ok target, err target).
    `r?`, `match r { Ok(..) .. Err(..) }`, `if let Err(e) = r`, `let Ok(x) = r else` are all a switch on discr(r)
    (Try::branch is the identity on the discriminant: Continue = Ok = 0, Break = Err = 1); `r.is_err()` / `r.is_ok()` /
    their negations are the same test as a bool.  r may only be wrapped in combinators that keep an Err an Err
    (_is_result_of): `r.ok()`, `r.or(..)`, `r.unwrap_or(..)`, `r.is_ok_and(..)` are NOT tests of r."""
    out = []
    for br in branches(F, body):
        d = br.desc
        if d[0] == 'discr':
            if _is_result_of(d[1], call):
                out.append((br, br.target(0), br.target(1)))
            continue
        inner, neg = peel_not(d)
        if inner[0] == 'call' and len(inner[3]) == 1 and _is_result_of(inner[3][0], call):
            name = _trait(inner[1])
            if name in _IS_OK or name in _IS_ERR:
                t_true, t_false = br.target(0 if neg else 1), br.target(1 if neg else 0)
                out.append((br, t_true, t_false) if name in _IS_OK else (br, t_false, t_true))
    return out


def _err_returned_unchanged(F, body, call):
    """the hand-written form of `call(..)?`: `match call(..) { Ok(v) => .., Err(e) => return Err(e) }` (or if-let / is_err).
    On the Err edge of a test of the call's Result
      * control never comes back to the test or the call (the error ends the function, it is not skipped over),
      * every definition of the return place on that edge is `Err(<the Err payload of that very Result>)` (`.into()` / `From::from`
        are conversions of the same error, erased by the describer) or the Result itself, and
      * no path reaches the return without such a definition.
    A replaced error (`Err(e) => return Err(OTHER(..))`), a swallowed one (`Err(_) => {}`) or a recovered one
    (`Err(_) => default`) has none of these."""
    d = describer(F, body)
    rets = body.return_blocks()
    for br, t_ok, t_err in _result_tests(F, body, call):
        if t_err is None or t_err == t_ok:
            continue
        reach = body.reachable_from(t_err)
        if br.bb in reach or call.bb in reach or not any(r in reach for r in rets):
            continue
        good, bad = set(), False
        for df in body.defs_of(0):
            if df[0] == 'arg' or df[1] not in reach:
                continue
            v = d.rvalue(df[3], df[1], df[2], 0) if df[0] == 'stmt' else None
            if v is not None and _is_err_of(v, call):
                good.add(df[1])
            else:
                bad = True
        if bad or not good:
            continue
        if path_avoiding(body, [t_err], rets, good) is None:
            return True
    return False


def _is_err_of(v, call):
    """v is `Err(e)` with e the Err payload of the Result of `call` (or that Result itself, moved out whole)"""
    if _is_result_of(v, call):
        return True
    if not (v[0] == 'agg' and v[1] == 'adt' and v[2].endswith('Result::Err') and len(v[3]) == 1):
        return False
    e = v[3][0]
    if e[0] == 'call' and _trait(e[1]) == 'Result::unwrap_err' and len(e[3]) == 1:
        return _is_result_of(e[3][0], call)
    return e[0] == 'field' and e[2] == '0' and e[1][0] == 'variant' and e[1][2] == 'Err' and _is_result_of(e[1][1], call)


def _trait(sh):
    return sh.split(' as ', 1)[1].replace('>::', '::', 1) if sh.startswith('<') and ' as ' in sh and '>::' in sh else sh


def _try_note(F, body, call):
    for x in body.calls_to('Try::branch'):
        a = arg_desc(F, x, 0)
        if contains_site(a, call):
            return ' (it reaches a `?` only through %s, which can replace or drop the error)' % (a[1] if a[0] == 'call' else a[0])
    return ''


def rule_f(ctx):
    """the connection-level counters the guards compare are the real ones, and every accepted frame is accounted"""
    F = ctx.facts
    rcv = ctx.pfn('StreamsState::received')
    rr = ctx.pfn('StreamsState::received_reset')
    for fn_, callee, instance in ((rcv, 'Recv::ingest', 'ingest'), (rr, 'Recv::reset', 'reset')):
        cs = fn_.calls_to(callee)
        ctx.floor('f', '%s_sites' % instance, len(cs), 1)
        for c in cs:
            a_recv, a_max = arg_desc(F, c, len(c.args) - 2), arg_desc(F, c, len(c.args) - 1)
            ok = a_recv[0] == 'field' and a_recv[2] == 'data_recvd' and a_max[0] == 'field' and a_max[2] == 'local_max_data'
            ctx.check(ok, 'f', '%s_given_real_counters' % instance, fn_, c.where(), '(%s, %s)' % (D.render(a_recv), D.render(a_max)),
                      '%s is not checked against (self.data_recvd, self.local_max_data): got (%s, %s)' % (callee, D.render(a_recv)[:80], D.render(a_max)[:80]))
    for fn_, instance in ((ctx.pfn('Recv::ingest'), 'ingest'), (ctx.pfn('Recv::reset'), 'reset')):
        cs = fn_.calls_to('Recv::credit_consumed_by')
        ctx.floor('f', '%s_credit_check_sites' % instance, len(cs), 1)
        for c in cs:
            a_recv, a_max = arg_desc(F, c, 2), arg_desc(F, c, 3)
            ok = a_recv[0] == 'param' and D.has_param(a_recv, name='received') and a_max[0] == 'param' and D.has_param(a_max, name='max_data')
            ctx.check(ok, 'f', '%s_forwards_counters' % instance, fn_, c.where(), '(%s, %s)' % (D.render(a_recv), D.render(a_max)),
                      'credit_consumed_by is not given the caller-supplied (received, max_data)')
    # data_recvd += new bytes on both accepting paths
    for w, v in store_values(ctx, SS, 'data_recvd', in_fn=rcv):
        ok = v[0] == 'call' and v[1] == 'u64::saturating_add' and D.has_field(v[3][0], 'data_recvd') and _is_ok_component(v[3][1], 'Recv::ingest', '0')
        ctx.check(ok, 'f', 'data_recvd_counts_new_bytes', rcv, w.where(), D.render(v)[:140], 'data_recvd is not raised by ingest()s new_bytes: ' + D.render(v)[:200])
    ctx.floor('f', 'data_recvd_stores_in_received', len(store_values(ctx, SS, 'data_recvd', in_fn=rcv)), 1)
    for w, v in store_values(ctx, SS, 'data_recvd', in_fn=rr):
        x = v[3][1] if v[0] == 'call' and len(v[3]) == 2 else ('const', '', '', '')
        ok = v[0] == 'call' and v[1] == 'u64::saturating_add' and D.has_field(v[3][0], 'data_recvd') and x[0] == 'bin' and x[1] == 'Sub' and (D.has_param(x[2], name='final_offset') or D.has_field(x[2], 'final_offset')) and D.has_field(x[3], 'end')
        ctx.check(ok, 'f', 'data_recvd_counts_reset_remainder', rr, w.where(), D.render(v)[:140], 'data_recvd is not raised by final_offset - end on reset: ' + D.render(v)[:200])
    ctx.floor('f', 'data_recvd_stores_in_received_reset', len(store_values(ctx, SS, 'data_recvd', in_fn=rr)), 1)
    # the store in `received` lies on every path from a successful ingest to the function's Ok return
    ing = rcv.calls_to('Recv::ingest')
    sts = [w.bb for w, v in store_values(ctx, SS, 'data_recvd', in_fn=rcv)]
    for c in ing:
        ok = True
        path = None
        # every test of the ingest Result's discriminant (`?`, match, if-let, is_ok/is_err): its Ok edge is where a frame
        # has been accepted.  (An Err edge that goes on to deliver is C06.b/error_edge_skips_delivery.)
        tests = _result_tests(F, rcv, c)
        for br, t_ok, t_err in tests:
            p = path_avoiding(rcv, [t_ok], rcv.return_blocks(), sts)
            if p is not None:
                ok = False
                path = p
        ctx.check(ok and len(tests) >= 1, 'f', 'accepted_frame_always_accounted', rcv, c.where(), 'every path from ingest()? Ok to return stores data_recvd',
                  'a path accepts stream data without adding it to data_recvd: ' + (fmt_path(rcv, path) if path else 'no test of the ingest Result (`?` / match) found'))


# --------------------------------------------------------------------------
# rule g: credit at most once per consumed byte
# --------------------------------------------------------------------------
# Chunks::finalize credits every byte Assembler::read hands out (C06.c).  "Only for consumed data" therefore needs: a byte
# range that was handed out once is never stored (and handed out, and credited) again.  In ordered mode the memory of what
# was delivered is `bytes_read`; in unordered mode it is the `recvd` range set of State::Unordered.  The set has three
# structural obligations: it is BORN containing everything already delivered or buffered (the ordered -> unordered switch),
# every insertion in unordered mode CONSULTS-AND-UPDATES it before anything is buffered, and nobody else touches it.

_SET_SHRINKERS = ('RangeSet::remove', 'RangeSet::subtract', 'RangeSet::pop_min', 'RangeSet::replace', 'RangeSet::clear',
                  'mem::take', 'mem::replace', 'mem::swap')
_SET_INSERT = ('RangeSet::insert', 'BTreeRangeSet::insert', 'ArrayRangeSet::insert')


def _is_self_field(d, name):
    return d[0] == 'field' and d[2] == name and _is_param(d[1], 'self')


def _is_zero(d):
    return d[0] == 'const' and str(d[2]) in ('0', '0_u64')


def _range_parts(d):
    """(start, end) of a `start..end` aggregate, else None"""
    if d[0] == 'agg' and d[2].endswith('Range') and len(d[3]) == 2 and tuple(d[4]) == ('start', 'end'):
        return d[3][0], d[3][1]
    return None


def _is_bytes_read(d):
    return _is_self_field(d, 'bytes_read') or (d[0] == 'call' and d[1] == 'Assembler::bytes_read' and len(d[3]) == 1 and _is_param(d[3][0], 'self'))


def _chunk_of_range(r):
    """r IS X.offset .. X.offset + X.bytes.len() for one chunk X: returns X, else None"""
    lo, hi = r
    if not (lo[0] == 'field' and lo[2] == 'offset' and hi[0] == 'bin' and hi[1] == 'Add'):
        return None
    x = lo[1]
    for a, b in ((hi[2], hi[3]), (hi[3], hi[2])):
        if a == lo and b[0] == 'call' and b[1] == 'Bytes::len' and len(b[3]) == 1 and b[3][0] == ('field', x, 'bytes'):
            return x
    return None


def _frame_range(r):
    """r IS offset .. offset + bytes.len() over the parameters of Assembler::insert"""
    lo, hi = r
    if not (_is_param(lo, 'offset') and hi[0] == 'bin' and hi[1] == 'Add'):
        return False
    for a, b in ((hi[2], hi[3]), (hi[3], hi[2])):
        if _is_param(a, 'offset') and b[0] == 'call' and b[1] == 'Bytes::len' and len(b[3]) == 1 and _is_param(b[3][0], 'bytes'):
            return True
    return False


def _whole_iter(d):
    """peel iterator constructors that visit every element (`.iter()`, `.iter_mut()`, `.into_iter()`); adaptors that can
    drop elements (skip / take / filter / step_by ..) are not peeled"""
    while d[0] == 'call' and len(d[3]) == 1 and _trait(d[1]).rsplit('::', 1)[-1] in ('iter', 'iter_mut', 'into_iter'):
        d = d[3][0]
    return d


def rule_g(ctx):
    F = ctx.facts
    eo = ctx.pfn('Assembler::ensure_ordering')
    ai = ctx.pfn('Assembler::insert')
    who_may_write(ctx, 'g', 'delivered_set_writers', 'Assembler', 'state', ['Assembler::ensure_ordering', 'Assembler::insert'], floor=2,
                  why='the set of already delivered offsets may only be created by the mode switch and extended by insert')
    # ---- birth of the set: every construction of State::Unordered
    cons = constructions(F, 'assembler::State', 'Unordered', crate='quinn_proto')
    ctx.floor('g', 'unordered_switch_sites', len(cons), 1)
    for c in cons:
        body = c.body
        root = F.root_of(body)
        d = describer(F, body)
        op = c.field_op('recvd')
        the_set = d.operand(op, c.bb, c.idx) if op is not None else ('const', 'other', '<no recvd field>', '')
        on_set = [x for x in body.calls() if x.args and not is_noise(x) and arg_desc(F, x, 0) == the_set]
        shrink = [x for x in on_set if x.is_(*_SET_SHRINKERS)]
        ctx.check(not shrink, 'g', 'delivered_set_born_complete/nothing_removed', root, c.where(), 'the new set only grows before it becomes the state',
                  'ranges are taken out of the new delivered-set again before it is installed: %s' % [short(x.f) for x in shrink])
        ins = [(x, _range_parts(arg_desc(F, x, 1))) for x in on_set if x.is_(*_SET_INSERT)]
        ins = [(x, r) for x, r in ins if r is not None]
        # (1) the consumed prefix: an insert of exactly 0..self.bytes_read into THIS set on every path to the construction
        # (a path may skip it only over an edge on which bytes_read == 0 holds: the range is empty there)
        zero = {(br.bb, tgt) for br, truth, tgt in guard_edges(ctx, body, lambda o, a, b: (o == 'Eq' and ((_is_bytes_read(a) and _is_zero(b)) or (_is_bytes_read(b) and _is_zero(a)))) or (o == 'Le' and _is_bytes_read(a) and _is_zero(b)))}
        # (a call ends its block: an insert in the construction's own block would come after the aggregate is built)
        pre = [x for x, r in ins if _is_zero(r[0]) and _is_bytes_read(r[1]) and x.bb != c.bb]
        okp = bool(pre) and c.bb not in body.reachable_from(0, avoid=[x.bb for x in pre], avoid_edges=zero)
        ctx.check(okp, 'g', 'delivered_set_born_complete/consumed_prefix', root, c.where(), 'insert(0..self.bytes_read) into the set on every path to State::Unordered{recvd}',
                  'the delivered-set installed by the ordered->unordered switch does not always contain exactly the consumed prefix 0..self.bytes_read '
                  '(inserts into it: %s): a retransmission of consumed data would be stored, delivered and credited a second time'
                  % ([D.render(arg_desc(F, x, 1))[:60] for x, _ in ins] or 'none'))
        # (2) every buffered chunk: offset..offset+len of EACH element of self.data
        okc, whyc = False, 'no insert of chunk.offset..chunk.offset+chunk.bytes.len() into the set'
        for x, r in ins:
            ch = _chunk_of_range(r)
            if ch is None:
                continue
            nxt = ch[1][1] if ch[0] == 'field' and ch[2] == '0' and ch[1][0] == 'variant' and ch[1][2] == 'Some' else None
            if not (nxt and nxt[0] == 'call' and _trait(nxt[1]).endswith('Iterator::next') and len(nxt[3]) == 1 and _is_self_field(_whole_iter(nxt[3][0]), 'data')):
                whyc = 'the inserted chunk is not the element of an iteration over the whole of self.data: %s' % D.render(ch)[:120]
                continue
            loops = [br for br in branches(F, body) if br.desc[0] == 'discr' and br.desc[1] == nxt]
            for br in loops:
                t_some, t_none = br.target(1), br.target(0)
                if t_some == t_none:
                    continue
                if not edge_dominates(body, br.bb, t_none, c.bb):
                    whyc = 'State::Unordered can be constructed before the iteration over self.data is exhausted'
                elif not edge_dominates(body, br.bb, t_some, x.bb) or path_avoiding(body, [t_some], [br.bb, c.bb] + list(body.return_blocks()), [x.bb]) is not None:
                    whyc = 'some elements of self.data are skipped without being inserted'
                else:
                    okc = True
        # the same as an internal iteration: self.data.iter().for_each(|chunk| set.insert(chunk.offset..chunk.offset+len))
        for fe in body.calls():
            if okc or not (_trait(short(fe.f)).endswith('Iterator::for_each') and len(fe.args) == 2 and _is_self_field(_whole_iter(arg_desc(F, fe, 0)), 'data')):
                continue
            cl_d = arg_desc(F, fe, 1)
            if not (cl_d[0] == 'agg' and cl_d[1] == 'closure' and the_set in cl_d[3] and fe.bb != c.bb and body.dominates(fe.bb, c.bb)):
                continue
            for cl in closure_args(F, fe):
                for x in cl.calls():
                    r = _range_parts(arg_desc(F, x, 1)) if x.is_(*_SET_INSERT) and len(x.args) == 2 and arg_desc(F, x, 0)[0] == 'upvar' else None
                    ch = _chunk_of_range(r) if r else None
                    if ch is not None and ch[0] == 'param' and path_avoiding(cl, [0], list(cl.return_blocks()), [x.bb]) is None:
                        okc = True
        ctx.check(okc, 'g', 'delivered_set_born_complete/buffered_chunks', root, c.where(), 'for chunk in self.data { insert(chunk.offset..chunk.offset+len) } exhausted before State::Unordered{recvd}',
                  'the delivered-set installed by the ordered->unordered switch does not cover every buffered chunk: %s' % whyc)
    # ---- unordered insertion consults and updates the set before buffering
    rep = [x for x in ai.calls() if x.is_('RangeSet::replace')]
    ctx.floor('g', 'delivered_set_consulted_sites', len(rep), 1)
    pushes = [x.bb for x in ai.calls() if x.is_('BinaryHeap::push') and D.has_field(arg_desc(F, x, 0), 'data')]
    ctx.floor('g', 'assembler_buffering_sites', len(pushes), 2)
    for x in rep:
        a0, r = arg_desc(F, x, 0), _range_parts(arg_desc(F, x, 1))
        ok = a0[0] == 'field' and a0[2] == 'recvd' and a0[1][0] == 'variant' and a0[1][2] == 'Unordered' and _is_self_field(a0[1][1], 'state') and r is not None and _frame_range(r)
        ctx.check(ok, 'g', 'unordered_insert_consults_delivered_set/whole_frame', ai, x.where(), 'recvd.replace(offset..offset+bytes.len())',
                  'the delivered-set is not consulted for exactly the range of the arriving frame: %s(%s, %s)' % (short(x.f), D.render(a0)[:60], D.render(arg_desc(F, x, 1))[:100]))
    sw = [br for br in branches(F, ai) if br.desc[0] == 'discr' and _is_self_field(br.desc[1], 'state')]
    okb, whyb = False, 'no branch on the discriminant of self.state leads to the consultation'
    for br in sw:
        tg = {t for _, t in br.edges}
        un = {t for t in tg if any(edge_dominates(ai, br.bb, t, x.bb) for x in rep)}
        if len(un) != 1:
            continue
        other = {(br.bb, t) for t in tg - un}
        # `self.state.is_ordered()` == true is the Ordered state as well
        other |= {(b2.bb, t) for b2, truth, t in bool_edges(ctx, ai, lambda d: d[0] == 'call' and d[1] == 'State::is_ordered' and len(d[3]) == 1 and _is_self_field(d[3][0], 'state')) if truth}
        leak = [p for p in pushes if p in ai.reachable_from(0, avoid=[x.bb for x in rep], avoid_edges=other)]
        if leak:
            whyb = 'in unordered mode data can be buffered (blocks %s) without the delivered-set having been consulted' % leak
        else:
            okb = True
    ctx.check(okb, 'g', 'unordered_insert_consults_delivered_set/before_buffering', ai, ai.where(), 'on the Unordered edge every self.data.push is behind recvd.replace(..)', whyb)


# --------------------------------------------------------------------------
# a Result built in one block and tested in another: the test is correlated with the construction
# --------------------------------------------------------------------------
# `helper(id)?` with the helper's body spliced into the caller (engine/inline.py does that for every new private
# function) reads in MIR:   bbA: r = Err(X); goto J     bbB: r = Ok(()); goto J     J: switch discr(Try::branch(r)) ..
# A block-level reachability question ("can the protected call be reached without passing the guard") walks
# bbA -> J -> Ok edge, a path no execution takes.  _err_built_blocks names the blocks like bbA so that the question can
# leave them out: a block that BUILDS the tested Result as `Err(..)`, with no other construction of that Result between
# it and the test, always leaves the test over its Err edge.

def _tested_result_defs(body, bb):
    """the switch ending block bb tests discr(R).  Returns [(block, variant | None)] for every statement that can have
    produced R (followed back through plain moves / copies of whole locals and `Try::branch`, which keeps Ok -> Continue
    and Err -> Break); variant is 'Ok' / 'Err' when the statement builds a std Result aggregate, None for anything
    else (call results, arguments, projections ..).  None when the switch is not on the discriminant of a local."""
    t = body.blocks[bb]['t']
    if t[0] != 'switch' or not (isinstance(t[1], list) and t[1][0] in ('c', 'm') and not t[1][1][1]):
        return None
    dd = body.defs_of(t[1][1][0])
    if len(dd) != 1 or dd[0][0] != 'stmt' or dd[0][3][0] != 'discr' or dd[0][3][1][1]:
        return None
    out, seen, todo = [], set(), [dd[0][3][1][0]]
    while todo:
        l = todo.pop()
        if l in seen:
            continue
        seen.add(l)
        for df in body.defs_of(l):
            if df[0] == 'stmt':
                rv = df[3]
                if rv[0] == 'use' and isinstance(rv[1], list) and rv[1][0] in ('c', 'm') and not rv[1][1][1]:
                    todo.append(rv[1][1][0])
                elif rv[0] == 'agg' and rv[1][0] == 'adt' and path_matches(rv[1][1], 'result::Result') and rv[1][2] in ('Ok', 'Err'):
                    out.append((df[1], rv[1][2]))
                else:
                    out.append((df[1], None))
            elif df[0] == 'call' and df[2].is_('Try::branch') and len(df[2].args) == 1 and df[2].args[0][0] in ('c', 'm') and not df[2].args[0][1][1]:
                todo.append(df[2].args[0][1][0])
            elif df[0] == 'arg':
                out.append((0, None))
            else:
                out.append((df[1], None))
    return out


def _err_built_blocks(F, body, site):
    """blocks no execution passes on its way to block `site`: they build `Err(..)` into a Result R that is then tested
    by a switch on discr(R) (`?`, match, if-let) whose Err edge neither reaches `site` nor comes back to the test.
    Conditions per block d (all structural):
      * d reaches `site` only through the test;
      * no other producer of R lies between d and the test, or before d on a path that skips the test (R at the test
        IS what d built, also when the moves that carry it to the test are shared with the other producers)."""
    out = set()
    live = body.live_blocks()
    for br in branches(F, body):
        if br.desc[0] != 'discr':
            continue
        t_ok, t_err = br.target(0), br.target(1)
        if t_err is None or t_err == t_ok:
            continue
        after = body.reachable_from(t_err)
        if br.bb in after or site in after:
            continue
        defs = _tested_result_defs(body, br.bb)
        if not defs:
            continue
        blocks = [d for d, _ in defs]
        for d, var in defs:
            if var != 'Err' or d not in live or d == br.bb or blocks.count(d) != 1:
                continue
            fwd = body.reachable_from(d, avoid=[br.bb])
            if site in fwd or any(o in fwd for o in blocks if o != d):
                continue
            if any(d in body.reachable_from(o, avoid=[br.bb]) for o in blocks if o != d):
                continue
            out.add(d)
    return out


def remote_stream_opened_only_within_limit(ctx, rule, instance):
    """StreamsState::on_stream_frame raises next_remote (the application then sees `Opened` and accept() hands out the
    ids) for a peer-initiated stream.  Every call of it must therefore be made for an id that is known to lie below the
    advertised stream limit: the call is dominated by the Ok edge of validate_receive_id(id), or by a guard
    `id.index() >= max_remote[dir]` whose violating edge returns STREAM_LIMIT_ERROR, or by the Some edge of a lookup of
    that stream's state (entries exist only for streams within the limit).  Otherwise one frame naming a huge stream id
    (MAX_STREAM_DATA did, on the pinned tree) opens every stream up to it.

    (C06-local version of rules/shared_rules.remote_stream_opened_only_within_limit, same obligation.  Differences:
    (a) accepts every test of validate_receive_id's Result (`?`, match, if-let, is_ok / is_err), not only a discr switch;
    (b) the guard may sit in a new private helper whose verdict comes back as a Result and is propagated with `?`:
    the blocks that build that Result as Err cannot continue over the Ok edge of its test (_err_built_blocks).)"""
    F = ctx.facts
    ctx.pfn('StreamsState::on_stream_frame')
    n = 0
    for c in F.callers_of('StreamsState::on_stream_frame', crate='quinn_proto'):
        b = c.body
        n += 1
        ok = False
        why = ''
        # (a) validated id
        for v in b.calls_to('StreamsState::validate_receive_id'):
            for br in branches(F, b):
                if br.desc[0] == 'discr' and contains_site(br.desc[1], v) and b.dominates(br.bb, c.bb) and c.bb not in b.reachable_from(br.target(1), avoid=[br.bb]):
                    ok = True
                    why = 'validate_receive_id(id)?'
            for br, t_ok, t_err in _result_tests(F, b, v):
                if t_err is not None and t_err != t_ok and b.dominates(br.bb, c.bb) and c.bb not in b.reachable_from(t_err, avoid=[br.bb]):
                    ok = True
                    why = 'validate_receive_id(id) tested, Ok edge only'
        # (b) explicit limit guard: for a peer-initiated id (the `initiator != side` edges) every path to the call passes the
        #     pass edge of `index >= max_remote -> STREAM_LIMIT_ERROR`
        if not ok:
            ges = guard_edges(ctx, b, lambda o, x, y: o == 'Le' and D.has_field(x, 'max_remote') and D.has_call(y, 'StreamId::index'))
            if ges:
                cut = set()
                for br in branches(F, b):
                    for truth in (True, False):
                        rel = relation_on(br.desc, truth)
                        # edge on which the stream is LOCALLY initiated: on_stream_frame cannot raise next_remote there
                        if rel and rel[0] == 'Eq' and (D.has_call(rel[1], 'StreamId::initiator') or D.has_call(rel[2], 'StreamId::initiator')) and (D.has_field(rel[1], 'side') or D.has_field(rel[2], 'side')):
                            cut.add((br.bb, br.target(1 if truth else 0)))
                dead = _err_built_blocks(F, b, c.bb)
                avoid = [br.bb for br, truth, tgt in ges] + sorted(dead)
                reach = b.reachable_from(0, avoid=avoid, avoid_edges=cut)
                viol_ok = all(c.bb not in b.reachable_from(tgt, avoid=[br.bb] + sorted(dead)) for br, truth, tgt in ges)
                if c.bb not in reach and viol_ok:
                    ok = True
                    why = 'index >= max_remote guard on every path of a peer-initiated id'
        # (c) the stream's state entry was found
        if not ok:
            for lk in b.calls():
                if short(lk.f or '').split('::')[-1] in ('get_mut', 'get', 'entry') and (D.has_field(arg_desc(F, lk, 0), 'send') or D.has_field(arg_desc(F, lk, 0), 'recv')):
                    for br in branches(F, b):
                        if br.desc[0] == 'discr' and contains_site(br.desc[1], lk) and b.dominates(br.bb, c.bb) and br.target(0) is not None and c.bb not in b.reachable_from(br.target(0), avoid=[br.bb]):
                            ok = True
                            why = 'state entry found'
        # local streams never raise next_remote
        ctx.check(ok, rule, instance, F.root_of(b), c.where(), why,
                  'on_stream_frame is reached for a stream id that was neither validated against the stream limit nor found in the stream table: a frame naming a peer-initiated stream beyond max_remote opens phantom streams')
    ctx.floor(rule, instance + '_sites', n, 4)


def run(ctx):
    remote_stream_opened_only_within_limit(ctx, 'a', 'remote_stream_opened_only_within_limit')
    rule_f(ctx)
    rule_a(ctx)
    rule_b(ctx)
    rule_c(ctx)
    rule_d(ctx)
    rule_e(ctx)
    rule_g(ctx)
