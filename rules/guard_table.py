"""Frozen table for P16 GUARDED-READ (shared by C03.a and C10.a).

Every consuming read of the decode side that is not discharged by a built-in sufficiency idiom (engine/guarded.py::auto_verdict)
is listed here with the guard relation(s) that must control it -- confirmed by reading the pinned tree -- and one line of reason.
Keys are (function, callee, substring of the normalised `need`); `requires` are exact normalised relations that must appear among
the branches dominating and controlling the site.
"""

CID_LE_MAX_PA = '(<T as BufExt>::get(r) as Continue).0 Le MAX_CID_SIZE=20'
CID_LE_MAX_IT = '(<T as BufExt>::get(self.bytes) as Continue).0 Le MAX_CID_SIZE=20'
HP_GUARD = '((Cursor::position(buf) Add 4) Add HeaderKey::sample_size(header_crypto)) Le BytesMut::len(Cursor::get_ref(buf))'

TABLE = [
    # fn, callee, need-substring, requires, reason
    ('PreferredAddress::read', '<[T; N] as IndexMut>::index_mut', 'Range{0, (<T as BufExt>::get(r) as Continue).0}', [CID_LE_MAX_PA],
     'stage is [0; MAX_CID_SIZE]; cid_len > MAX_CID_SIZE is rejected first'),
    ('PreferredAddress::read', '<[T; N] as Index>::index', 'Range{0, (<T as BufExt>::get(r) as Continue).0}', [CID_LE_MAX_PA],
     'same stage array, same bound'),
    ('TransportParameters::read', 'Buf::copy_to_slice', 'whole repeat[16]', ['(<T as BufExt>::get_var(r) as Continue).0 Le <T as Buf>::remaining(r)', '16 Eq (<T as BufExt>::get_var(r) as Continue).0'],
     'remaining >= len and len == 16 together cover the 16-byte reset token'),
    ('<VarInt as Codec>::decode', '[bounds]', 'index (0 Lt 8)', [], 'constant index 0 into the local [0; 8]'),
    ('<Box as HeaderKey>::decrypt', '[T]::split_at_mut', '(4 Add pn_offset)', [], 'obligation exported to the caller PartialDecode::decrypt_header (its guard is pinned below)'),
    ('<Box as HeaderKey>::decrypt', '[T]::split_at_mut', '1', [], 'header part is non-empty: pn_offset + 4 >= 1'),
    ('<Box as HeaderKey>::decrypt', '<[T] as Index>::index', 'RangeTo{<Box as HeaderKey>::sample_size(self)}', [], 'caller guarantees pn_offset + 4 + sample_size <= len (pinned below)'),
    ('<Box as HeaderKey>::decrypt', '<[T] as IndexMut>::index_mut', 'Range{(pn_offset Sub 1), Ord::min(', [], 'upper end is min(.., len); lower end pn_offset - 1 with pn_offset >= 1 after a decoded first byte'),
    ('<Box as HeaderKey>::decrypt', '[bounds]', 'index (0 Lt PtrMetadata([T]::split_at_mut(', [], 'first byte of the non-empty header part'),
    ('Iter::try_next', 'Bytes::split_to', 'frame::scan_ack_blocks(self.bytes', ['discr(frame::scan_ack_blocks(self.bytes, (<T as BufExt>::get_var(self.bytes) as Continue).0, (<T as BufExt>::get_var(self.bytes) as Continue).0))==0'],
     'consumed-count idiom: scan_ack_blocks returns total_len - rest.remaining() of the same bytes (checked by C03.a/scan_returns_consumed_count)'),
    ('Iter::try_next', '<[T; N] as IndexMut>::index_mut', 'Range{0, (<T as BufExt>::get(self.bytes) as Continue).0}', [CID_LE_MAX_IT], 'stage is [0; MAX_CID_SIZE]; length > MAX_CID_SIZE is Malformed'),
    ('Iter::try_next', '<[T; N] as Index>::index', 'RangeTo{(<T as BufExt>::get(self.bytes) as Continue).0}', [CID_LE_MAX_IT], 'same stage array, same bound'),
    ('PartialDecode::decrypt_header', 'HeaderKey::decrypt', 'Cursor::position(buf)', [HP_GUARD], 'the sample must lie inside the packet: pn_offset + 4 + sample_size <= len'),
    ('PartialDecode::decrypt_header', 'PacketNumber::decode', 'PacketNumber::decode_len(', [HP_GUARD], 'at least 4 bytes follow the packet-number offset'),
    ('PartialDecode::decrypt_header', '[bounds]', 'index (0 Lt PtrMetadata(Cursor::get_ref(buf)))', [HP_GUARD], 'first byte of a non-empty packet'),
    ('Packet::reserved_bits_valid', '[bounds]', 'index (0 Lt PtrMetadata(self.header_data))', [], 'header_data is the split-off header (>= 1 byte) of a packet produced by PartialDecode::finish'),
    ('PacketNumber::decode', 'Buf::get_uint', '3', [], 'obligation exported to the only caller decrypt_header (pinned above); callers checked by C03.a/exported_obligation_callers'),
    ('<FixedLengthConnectionIdParser as ConnectionIdParser>::parse::{closure#0}', 'ConnectionId::from_buf', 'expected_len', ['^*self.expected_len Le <T as Buf>::remaining(^*buffer)'], 'closure of (remaining >= expected_len).then(..)'),
    ('ConnectionId::from_buf', '<[T] as IndexMut>::index_mut', 'RangeTo{len}', [], 'obligation exported to the three callers (all profiled: len <= MAX_CID_SIZE and remaining >= len)'),
    ('ConnectionId::from_buf', 'Buf::copy_to_slice', 'slice ops::RangeTo::RangeTo{len}', [], 'obligation exported to the three callers'),
    ('<HashedConnectionIdGenerator as ConnectionIdGenerator>::validate', '[T]::split_at', 'NONCE_LEN=3', [],
     'only reached from Endpoint::handle for short-header DCIDs parsed with FixedLengthConnectionIdParser(cid_len()) = NONCE_LEN + SIGNATURE_LEN bytes'),
    ('Connection::process_decrypted_packet', 'Bytes::split_to', '(BytesMut::len(packet.payload) Sub 16)', ['16 Lt BytesMut::len(packet.payload)'], 'Retry token length = payload.len() - 16 under payload.len() > 16'),
]

# who may call the functions whose read obligation is exported to callers
EXPORTED = {
    'ConnectionId::from_buf': ['ConnectionId::decode_long', 'transport_parameters::decode_cid', '<FixedLengthConnectionIdParser as ConnectionIdParser>::parse'],
    'PacketNumber::decode': ['PartialDecode::decrypt_header'],
    'HeaderKey::decrypt': ['PartialDecode::decrypt_header'],
}
# Floors on what must exist, not on the exact number of sites of the pinned tree.  Counted: sites whose index / length is not a
# compile-time-true literal (a literal index below the literal length of a local array, e.g. `buf[0]` of `[0; 8]` in VarInt::decode,
# consumes no peer byte; how often it is spelled is free -- those sites are classified by the table but not counted).
#   FLOOR_AUTO    reads discharged by a built-in idiom: 33 on the pinned tree; 3 may be merged away (two adjacent reads under one guard)
#   FLOOR_PINNED  sites pinned one by one in TABLE above, each with its own reason line (all entries except the constant-index one
#                 of VarInt::decode, and the fixed-length CID parser closure and the Retry-token split, which an idiom discharges)
FLOOR_AUTO = 30
FLOOR_PINNED = 19
FLOOR_SITES = FLOOR_AUTO + FLOOR_PINNED
