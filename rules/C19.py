"""C19 — the UDP layer preserves boundaries, payload and metadata (structural part; Linux cfg only)."""
from engine.rulelib import *
from engine import desc as D

EXPLANATION = ("Static rules over quinn-udp / quinn MIR (Linux x86-64 build): (a) PATH-SUM-BOUND: the maximum over all CFG paths of prepare_msg of the CMSG_SPACE of the "
               "control messages pushed (with the UDP_SEGMENT push of gso::set_segment_size, called or inlined, included) is <= cmsg::LEN, no push sits in a loop; and the receive control buffer holds the sum of "
               "CMSG_SPACE of every kernel->user message enabled by UdpSocketState::new (per address family, worst case IPv4-mapped on dual-stack); (b) the control length "
               "announced to the kernel is cmsg::LEN and the control pointer is the LEN-sized aligned buffer; iovlen = 1; namelen = sizeof(sockaddr_storage) on receive; "
               "(c) every Encoder is finished before sendmsg; cmsg::decode::<T> is used with the kernel type of each (level, type); (d) segmentation request only when "
               "segment_size < len, independent of the einval fallback flag; ECN / source address control messages carry the transmit's values in the right fields; walked path by path, prepare_msg pushes IP_TOS or "
               "IPV6_TCLASS for every destination unless the EINVAL fallback flag is set, and whether IPV6_TCLASS is pushed depends on the tests of transmit.destination alone "
               "(the fallback may only drop IP_TOS); the "
               "receive stride defaults to len and is overridden only by UDP_GRO; (e) offload degradation: EIO/EINVAL stores max_gso_segments = 1 (reachable from the failed sendmsg when every test of raw_os_error() - pattern, ==, != or kept in a bool - takes the edge of that errno) and, the first time, "
               "re-prepares the message and retries; Interrupted loops, WouldBlock is returned; (f) batch splitting in the async endpoint by meta.len / meta.stride and "
               "field-for-field Transmit conversion; (g) the socket-wide UDP_SEGMENT option set by the GSO support probe is set back to 0 on every successful path, so that transmits "
               "without an UDP_SEGMENT control message stay single datagrams; (h) addresses on receive: msg_name / msg_namelen of a receive header are the sockaddr_storage "
               "buffer and its size; decode_socket_addr builds SocketAddrV6::new from sin6_addr, host-order sin6_port, sin6_flowinfo, sin6_scope_id (in this order) only under "
               "AF_INET6 and SocketAddrV4::new from sin_addr / host-order sin_port only under AF_INET, and returns nothing else as Ok; RecvMeta.addr is its result on the name "
               "buffer, RecvMeta.dst_ip the value stored from in_pktinfo.ipi_addr / in6_pktinfo.ipi6_addr in the arm of that message. "
               "Kernel behaviour and non-Linux back ends are NOT decided.")
RULE = "rule instances = (rule, site) pairs over MIR call sites / stores / paths; non-trivial = bound to a real site"
NOTE = ("Trusted: rustc MIR, the fact extractor incl. layout sizes of generic arguments, the Linux CMSG_ALIGN formula (16-byte cmsghdr, 8-byte alignment) and the table of "
        "payload sizes / payload types the kernel attaches for each enabled receive option, the Linux numeric values of the (cmsg_level, cmsg_type) pairs, of AF_INET / AF_INET6 and of EIO / EINVAL, "
        "the parameter order of std::net::SocketAddrV4::new / SocketAddrV6::new and that sockaddr / pktinfo integers are in network byte order "
        "(match patterns are integers in MIR) and the io::ErrorKind discriminants of the pinned nightly std. Only the cfg(linux) x86-64 build is analysed.")


def cmsg_space(n):
    return ((16 + n + 7) // 8) * 8


# payload size of the control message the Linux kernel attaches for each *receive* option enabled with setsockopt (level, name) -> (cmsg payload bytes, families)
RECV_OPTS = {
    ('IPPROTO_IP', 'IP_RECVTOS'): (1, ('v4', 'mapped')),
    ('IPPROTO_IP', 'IP_PKTINFO'): (12, ('v4', 'mapped')),
    ('SOL_UDP', 'UDP_GRO'): (4, ('v4', 'v6', 'mapped')),
    ('SOL_SOCKET', 'SO_TIMESTAMPNS'): (16, ('v4', 'v6', 'mapped')),
    ('IPPROTO_IPV6', 'IPV6_RECVPKTINFO'): (20, ('v6', 'mapped')),
    ('IPPROTO_IPV6', 'IPV6_RECVTCLASS'): (4, ('v6',)),
}
# options that do not add a control message to ordinary received datagrams
NO_CMSG = {('IPPROTO_IP', 'IP_MTU_DISCOVER'), ('IPPROTO_IPV6', 'IPV6_MTU_DISCOVER'), ('IPPROTO_IP', 'IP_RECVERR'), ('IPPROTO_IPV6', 'IPV6_RECVERR'), ('IPPROTO_IPV6', 'IPV6_DONTFRAG'),
           ('SOL_UDP', 'UDP_SEGMENT'), ('SOL_SOCKET', 'SO_RCVBUF'), ('SOL_SOCKET', 'SO_SNDBUF')}


def _name(d):
    for x in walk(d):
        if x[0] == 'const' and x[3]:
            return x[3].split('::')[-1]
    return D.render(d)


def _is_call(x, *names):
    """the descriptor IS the result of a call of one of `names` (not merely mentions it)"""
    return isinstance(x, tuple) and x and x[0] == 'call' and any(x[1] == n or path_matches(x[2], n) or D._trait_form(x[1]) == n for n in names)


def _self_field(x, name):
    """`self.<name>` (field of the first parameter; refs / derefs / casts are erased by the describer)"""
    return isinstance(x, tuple) and x[0] == 'field' and x[2] == name and x[1][0] == 'param' and x[1][1] == 1


def _bin(x, op):
    """operands of a `bin op` node, else None"""
    return (x[2], x[3]) if isinstance(x, tuple) and x and x[0] == 'bin' and x[1] == op else None


def _stores_of(body, field):
    """(bb, idx, rvalue) of live assignments to a place going through `.field`"""
    live = body.live_blocks()
    return [(i, j, rv) for i, j, pl, rv, line in body.assigns() if i in live and any(isinstance(e, list) and e[0] == 'f' and e[1] == field for e in pl[1])]


def _feasible(F, body):
    """blocks reachable from the entry when a SwitchInt on a literal constant (`cfg!(..)`) only takes its matching edge"""
    brs = {br.bb: br for br in branches(F, body)}
    seen, stack = set(), [0]
    while stack:
        b = stack.pop()
        if b in seen:
            continue
        seen.add(b)
        br = brs.get(b)
        if br is not None and br.desc[0] == 'const' and br.desc[1] == 'int' and not br.desc[3] and str(br.desc[2]).lstrip('-').isdigit():
            stack.append(br.target(int(br.desc[2])))
        else:
            stack.extend(body.succ[b])
    return seen


def _switch_values(F, body, pred, site_bb):
    """explicit SwitchInt values v (None = otherwise) of branches whose discriminant satisfies pred and from whose v-edge
    site_bb is reachable without re-evaluating the branch"""
    out = set()
    for br in branches(F, body):
        if pred(br.desc):
            for v, t in br.edges:
                if site_bb in body.reachable_from(t, avoid=[br.bb]):
                    out.add(v)
    return out


def rule_a(ctx):
    F = ctx.facts
    LEN = F.const_int('quinn_udp::cmsg::LEN')
    pm = ctx.ufn('prepare_msg')
    # the helper may have been inlined into prepare_msg: its push is then a direct Encoder::push site there (weighed like the
    # others; rule d requires that an (SOL_UDP, UDP_SEGMENT) push site exists either way)
    ss = F.try_fn('gso::set_segment_size', 'quinn_udp')
    w = {}
    for c in pm.calls():
        if c.is_('Encoder::push') and c.sz:
            w[c.bb] = cmsg_space(c.sz[-1])
        elif c.is_('gso::set_segment_size'):
            if ss is None:
                raise CheckBroken('anchor=gso::set_segment_size is called by prepare_msg but matches no single function')
            inner = [x for x in ss.calls() if x.is_('Encoder::push') and x.sz]
            w[c.bb] = sum(cmsg_space(x.sz[-1]) for x in inner)
    ctx.floor('a', 'control_message_push_sites', len(w), 4)
    # no weighted site in a loop
    loops = [bb for bb in w if bb in pm.reachable_strict(bb)]
    ctx.check(not loops, 'a', 'no_push_in_loop', pm, pm.where(), 'pushes are straight-line', 'a control message is pushed inside a loop: the control buffer bound no longer holds')
    # longest path (DAG over live blocks; cycles only through unweighted blocks are cut)
    import functools
    import sys as _s
    _s.setrecursionlimit(10000)
    onstack = set()

    @functools.lru_cache(maxsize=None)
    def best(bb):
        if bb in onstack:
            return 0
        onstack.add(bb)
        m = 0
        for s in pm.succ[bb]:
            m = max(m, best(s))
        onstack.discard(bb)
        return w.get(bb, 0) + m
    worst = best(0)
    ctx.check(worst <= LEN, 'a', 'send_control_buffer_bound', pm, pm.where(), 'max over paths of sum CMSG_SPACE = %d <= cmsg::LEN = %d' % (worst, LEN),
              'the control messages pushed on some path need %d bytes but cmsg::LEN is %d (Encoder::push would panic / overflow)' % (worst, LEN))
    # receive side
    ns = ctx.ufn('UdpSocketState::new')
    fam = {'v4': 0, 'v6': 0, 'mapped': 0}
    n = 0
    for c in ns.calls_to('set_socket_option', 'imp::set_socket_option', 'set_socket_option_supported'):
        lv, nm = _name(arg_desc(F, c, 1)), _name(arg_desc(F, c, 2))
        if (lv, nm) in RECV_OPTS:
            size, fams = RECV_OPTS[(lv, nm)]
            n += 1
            for f in fams:
                fam[f] += cmsg_space(size)
        elif (lv, nm) in NO_CMSG:
            continue
        else:
            ctx.bad('a', 'unclassified_receive_option', ns, c.where(), 'socket option (%s, %s) is enabled but not classified: does the kernel attach a control message for it on receive?' % (lv, nm))
    ctx.floor('a', 'receive_options', n, 5)
    worst_r = max(fam.values())
    ctx.check(worst_r <= LEN, 'a', 'recv_control_buffer_too_small', 'quinn_udp::cmsg::LEN', ns.where(), 'receive control messages need at most %d (v4 %d, v6 %d, v4-mapped %d) <= cmsg::LEN = %d' % (worst_r, fam['v4'], fam['v6'], fam['mapped'], LEN),
              'the control messages the kernel attaches to one received datagram need up to %d bytes (v4 %d, v6 %d, v4-mapped %d) but the buffer is cmsg::LEN = %d: trailing messages (ECN / GRO size) are truncated' % (worst_r, fam['v4'], fam['v6'], fam['mapped'], LEN))
    # Encoder::push itself checks the remaining space (assert) — keep it
    _encoder_guard(ctx)


def _encoder_guard(ctx):
    """`assert!(control_len() >= self.len + space)`: on the edge where control_len < self.len + space (space = the very
    amount later added to self.len, = cmsg_space(size_of_val(value))) neither the header / payload write nor the
    `self.len += space` store is reachable."""
    F = ctx.facts
    ep = [b for b in F.fns('Encoder::push') if b.crate == 'quinn_udp' and b.kind == 'fn']
    if len(ep) != 1:
        ctx.bad('a', 'encoder_checks_remaining_space', 'Encoder::push', '', 'Encoder::push not found (%d)' % len(ep))
        return
    b = ep[0]
    d = describer(F, b)
    incs, len_blocks = [], set()
    for i, j, rv in _stores_of(b, 'len'):
        len_blocks.add(i)
        ops = _bin(d.rvalue(rv, i, j, 0), 'Add')
        if ops:
            for x, y in (ops, ops[::-1]):
                if _self_field(x, 'len') and _is_call(y, 'CMsgHdr::cmsg_space') and D.has_param(y, name='value') and not D.const_offsets(y):
                    incs.append(y)
    writes = {c.bb for c in b.calls_to('ptr::write', 'ptr::write_unaligned', 'CMsgHdr::set')}

    def need(x):        # self.len + space
        ops = _bin(x, 'Add')
        return bool(ops) and any(_self_field(p, 'len') and q in incs for p, q in (ops, ops[::-1]))

    def avail(x):
        return _is_call(x, 'MsgHdr::control_len') and _self_field(x[3][0], 'hdr')

    def violating(op, a, c):
        if op != 'Lt':
            return False
        if avail(a) and need(c):                                 # control_len < len + space
            return True
        ops = _bin(a, 'Sub')                                     # control_len - len < space
        return bool(ops) and avail(ops[0]) and _self_field(ops[1], 'len') and c in incs
    if not incs or not writes:
        ctx.bad('a', 'encoder_checks_remaining_space', b, b.where(), 'Encoder::push no longer advances self.len by cmsg_space(size_of_val(value)) / writes the message: the remaining-space check cannot be bound')
        return
    guard_protects(ctx, 'a', 'encoder_checks_remaining_space', b, violating, sorted(writes | len_blocks), what='assert!(control_len >= self.len + space)')


def _is_ctrl_buf(x):
    """the control buffer itself: the `ctrl` parameter or its only field `ctrl.0` (references are erased)"""
    if isinstance(x, tuple) and x[0] == 'field' and x[2] == '0':
        x = x[1]
    return isinstance(x, tuple) and x[0] == 'param' and x[2] == 'ctrl'


def rule_b(ctx):
    F = ctx.facts
    LEN = F.const_int('quinn_udp::cmsg::LEN')

    def is_len(v):
        # the value IS cmsg::LEN (casts erased) — or the size of the buffer itself; `LEN + 64`, `2 * LEN` are not
        if v[0] == 'const':
            return v[1] == 'int' and str(v[2]) == str(LEN) and (v[3] == 'LEN' or v[3].endswith('::LEN'))
        return _is_call(v, '[T]::len', 'mem::size_of_val') and len(v[3]) == 1 and _is_ctrl_buf(v[3][0])

    def is_buf_ptr(v):
        # the value IS the address of the buffer: ctrl.0.as_mut_ptr() / &mut ctrl.0 as *mut _ ; no pointer arithmetic around it
        if _is_ctrl_buf(v):
            return True
        return v[0] == 'call' and v[1].rsplit('::', 1)[-1] in ('as_mut_ptr', 'as_ptr') and len(v[3]) == 1 and _is_ctrl_buf(v[3][0])
    for fn in ('prepare_msg', 'prepare_recv'):
        b = ctx.ufn(fn)
        d = describer(F, b)
        st = _stores_of(b, 'msg_controllen')
        ok = bool(st) and all(is_len(d.rvalue(rv, i, j, 0)) for i, j, rv in st)
        ctx.check(ok, 'b', 'controllen_is_buffer_length_' + fn, b, b.where(), 'msg_controllen = cmsg::LEN', '%s announces a control length other than cmsg::LEN: %s' % (fn, [D.render(d.rvalue(rv, i, j, 0))[:60] for i, j, rv in st]))
        ctrl = [l for l, (ty, nm) in enumerate(b.locals) if nm == 'ctrl' and 1 <= l <= b.argc]
        okc = bool(ctrl) and 'Aligned' in b.locals[ctrl[0]][0] and ('LEN' in b.locals[ctrl[0]][0] or str(LEN) in b.locals[ctrl[0]][0])
        ctx.check(okc, 'b', 'control_buffer_type_' + fn, b, b.where(), b.locals[ctrl[0]][0] if ctrl else '', 'the control buffer of %s is not Aligned<[u8; LEN]>' % fn)
        mc = _stores_of(b, 'msg_control')
        okp = bool(mc) and all(is_buf_ptr(d.rvalue(rv, i, j, 0)) for i, j, rv in mc)
        ctx.check(okp, 'b', 'control_pointer_is_the_buffer_' + fn, b, b.where(), 'msg_control = ctrl.0.as_mut_ptr()', 'msg_control does not point at the start of the control buffer: %s' % [D.render(d.rvalue(rv, i, j, 0))[:80] for i, j, rv in mc])
        il = _stores_of(b, 'msg_iovlen')
        ctx.check(bool(il) and all(d.rvalue(rv, i, j, 0)[:3] == ('const', 'int', '1') for i, j, rv in il), 'b', 'single_iovec_' + fn, b, b.where(), 'msg_iovlen = 1', 'msg_iovlen is not 1')
    # the kernel writes the peer address into the caller's name buffer, all of it: msg_name = name.as_mut_ptr(), msg_namelen = its size
    b = ctx.ufn('prepare_recv')
    d = describer(F, b)
    nm = [l for l in range(1, b.argc + 1) if 'sockaddr_storage' in b.locals[l][0]]
    is_name = lambda x: len(nm) == 1 and x[0] == 'param' and x[1] == nm[0]
    mn = [d.rvalue(rv, i, j, 0) for i, j, rv in _stores_of(b, 'msg_name')]
    okn = bool(mn) and all(is_name(v) or (v[0] == 'call' and v[1].rsplit('::', 1)[-1] in ('as_mut_ptr', 'as_ptr') and len(v[3]) == 1 and is_name(v[3][0])) for v in mn)
    ctx.check(okn, 'b', 'name_pointer_is_the_name_buffer', b, b.where(), 'msg_name = name.as_mut_ptr()', 'msg_name of a receive header does not point at the start of its sockaddr_storage buffer: %s' % [D.render(v)[:80] for v in mn])
    szof = {c.bb for c in b.calls_to('mem::size_of') if c.ga == ['libc::sockaddr_storage']}
    ml = [d.rvalue(rv, i, j, 0) for i, j, rv in _stores_of(b, 'msg_namelen')]
    okl = bool(ml) and all((v[0] == 'call' and v[1] == 'mem::size_of' and not v[3] and v[4] in szof) or (_is_call(v, 'mem::size_of_val') and len(v[3]) == 1 and is_name(v[3][0])) for v in ml)
    ctx.check(okl, 'b', 'namelen_is_sockaddr_storage', b, b.where(), 'msg_namelen = size_of::<sockaddr_storage>()', 'msg_namelen of a receive header is not the size of the name buffer (a sockaddr_in6 no longer fits / the kernel may write past it): %s' % [D.render(v)[:80] for v in ml])
    al = F.adt('cmsg::imp::Aligned') if [1 for p in F.adts if p.endswith('imp::Aligned')] else F.adt('Aligned')
    ctx.check(al['align'] >= 8, 'b', 'control_buffer_alignment', 'Aligned', '', 'repr(align(%d))' % al['align'], 'Aligned<T> alignment %d is below that of cmsghdr' % al['align'])


def rule_c(ctx):
    F = ctx.facts
    pm = ctx.ufn('prepare_msg')
    new = pm.calls_to('Encoder::new')
    fin = pm.calls_to('Encoder::finish')
    ok = bool(new) and bool(fin) and all(path_avoiding(pm, pm.succ[n.bb], pm.return_blocks(), {f.bb for f in fin}) is None for n in new)
    ctx.check(ok, 'c', 'encoder_always_finished', pm, pm.where(), 'Encoder::new is followed by finish() on every path', 'prepare_msg can return without finishing the control message encoder (msg_controllen stays LEN)')
    dr = [b for b in F.fns('<Encoder as Drop>::drop') if b.crate == 'quinn_udp']
    sc = [c for b in dr for c in b.calls_to('MsgHdr::set_control_len')]
    ok = bool(sc) and all(_self_field(arg_desc(F, c, 0), 'hdr') and _self_field(arg_desc(F, c, 1), 'len') for c in sc)
    ok = ok and all(path_avoiding(b, [0], b.return_blocks(), {c.bb for c in sc if c.body.id == b.id}) is None for b in dr)
    ctx.check(ok, 'c', 'finish_sets_control_len', dr[0] if dr else 'Encoder', dr[0].where() if dr else '', 'Drop: hdr.set_control_len(self.len)',
              'finishing the encoder no longer records the used control length (self.len): %s' % [D.render(arg_desc(F, c, 1))[:60] for c in sc])
    _decode_arms(ctx)


# Linux ABI values of the (cmsg_level, cmsg_type) pairs quinn-udp decodes (patterns are lowered to integers in MIR), with the
# payload type the kernel attaches (ip(7), ipv6(7), udp(7), socket(7))
DECODE_ARMS = {
    (0, 1): ('IPPROTO_IP/IP_TOS', 'u8'),
    (0, 13): ('IPPROTO_IP/IP_RECVTOS', 'u8'),
    (41, 67): ('IPPROTO_IPV6/IPV6_TCLASS', 'i32'),
    (0, 8): ('IPPROTO_IP/IP_PKTINFO', 'libc::in_pktinfo'),
    (41, 50): ('IPPROTO_IPV6/IPV6_PKTINFO', 'libc::in6_pktinfo'),
    (17, 104): ('SOL_UDP/UDP_GRO', 'i32'),
    (1, 35): ('SOL_SOCKET/SCM_TIMESTAMPNS', 'libc::timespec'),
}
ECN_ARMS = ((0, 1), (0, 13), (41, 67))
GRO_ARM = (17, 104)
PKTINFO_ARMS = ((0, 8), (41, 50))


def _decode_arms(ctx):
    """every cmsg::decode::<T> site of ControlMetadata::decode is bound to the (level, type) arm it sits in (the SwitchInt
    values on cmsg.cmsg_level / cmsg.cmsg_type leading to it; arms behind a literal-false `cfg!()` are infeasible) and T is
    the kernel's payload type of that message; ecn_bits / stride are stored from the sites of their own arms only."""
    F = ctx.facts
    dec = ctx.ufn('ControlMetadata::decode')
    d = describer(F, dec)
    feas = _feasible(F, dec)
    calls = [c for c in dec.calls_to('cmsg::decode') if c.bb in feas]
    ctx.floor('c', 'decode_sites', len(calls), 7)

    def on(field):
        return lambda x: x[0] == 'field' and x[2] == field and x[1][0] == 'param'
    arm = {}
    bad = []
    for c in calls:
        lv, ty = _switch_values(F, dec, on('cmsg_level'), c.bb), _switch_values(F, dec, on('cmsg_type'), c.bb)
        key = (next(iter(lv)), next(iter(ty))) if len(lv) == 1 and len(ty) == 1 else None
        a0 = arg_desc(F, c, 0)
        if key not in DECODE_ARMS:
            bad.append('%s: decode::<%s> under (level, type) = (%s, %s): not a classified control message' % (c.where(), c.ga[0], sorted(lv, key=str), sorted(ty, key=str)))
        elif c.ga[0] != DECODE_ARMS[key][1]:
            bad.append('%s: %s decoded as %s, the kernel payload is %s' % (c.where(), DECODE_ARMS[key][0], c.ga[0], DECODE_ARMS[key][1]))
        elif not (a0[0] == 'param' and a0[2] == 'cmsg'):
            bad.append('%s: decode is not applied to the control message being dispatched on' % c.where())
        else:
            arm.setdefault(key, []).append(c)
    for key in DECODE_ARMS:
        if key not in arm and not any(DECODE_ARMS[key][0] in x for x in bad):
            bad.append('%s is no longer decoded' % DECODE_ARMS[key][0])
    tys = sorted({c.ga[0] for c in calls})
    ctx.check(not bad, 'c', 'decode_types', dec, dec.where(), '%d sites, each decode::<T> matches its (level, type) arm: %s' % (len(calls), tys), '; '.join(bad))

    def stored(field, keys, what, inst):
        sites = [c for k in keys for c in arm.get(k, [])]
        st = [(i, j, d.rvalue(rv, i, j, 0)) for i, j, rv in _stores_of(dec, field) if i in feas]
        msgs = []
        for k in keys:
            if not arm.get(k):
                msgs.append('no well-typed decode site in the %s arm' % DECODE_ARMS[k][0])
        for c in sites:
            if not any(is_site(v, c) and dec.dominates(c.bb, i) for i, j, v in st):
                msgs.append('%s: the decoded value is not stored into %s' % (c.where(), field))
        for i, j, v in st:
            if not any(is_site(v, c) for c in sites):
                msgs.append('%s is stored from %s' % (field, D.render(v)[:60]))
        ctx.check(not msgs and bool(st), 'c', inst, dec, dec.where(), what % len(st), '; '.join(msgs) or 'no store of %s' % field)
    stored('stride', (GRO_ARM,), '%d stride store(s), from decode::<c_int>(UDP_GRO cmsg)', 'stride_from_gro_message')
    stored('ecn_bits', ECN_ARMS, '%d ecn_bits stores, one per IP_TOS / IP_RECVTOS / IPV6_TCLASS site', 'ecn_bits_from_tos_messages')

    # destination address: dst_ip is stored, in the arm of each packet-info message, from the header-destination field of the
    # structure decoded there (in_pktinfo.ipi_addr — not ipi_spec_dst, the local routing address — / in6_pktinfo.ipi6_addr)
    def dst_of(v, c, key):
        p = v[3][0] if v[0] == 'agg' and v[2].endswith('Option::Some') and len(v[3]) == 1 else None
        if p is None:
            return False
        want = 'IpAddr::V4' if key == PKTINFO_ARMS[0] else 'IpAddr::V6'
        if p[0] == 'agg':
            if not (p[1] == 'adt' and p[2].endswith(want) and len(p[3]) == 1):
                return False
            p = p[3][0]
        site = lambda x: is_site(x, c)
        if key == PKTINFO_ARMS[0]:
            return _from_network_order(p, 'u32', site, ('ipi_addr', 's_addr'), octets_ok=True)
        return _copied(p, site, ('ipi6_addr', 's6_addr')) or _copied(_call1(_addr_value(p), 'u128::from_be_bytes') or (), site, ('ipi6_addr', 's6_addr'))
    st = [(i, j, d.rvalue(rv, i, j, 0)) for i, j, rv in _stores_of(dec, 'dst_ip') if i in feas]
    msgs, used = [], set()
    for i, j, v in st:
        ks = [k for k in PKTINFO_ARMS for c in arm.get(k, []) if dec.dominates(c.bb, i) and dst_of(v, c, k)]
        used |= set(ks)
        if not ks:
            msgs.append('dst_ip is stored from %s' % D.render(v)[:80])
    for k in PKTINFO_ARMS:
        if k not in used:
            msgs.append('the destination address of %s is not stored into dst_ip' % DECODE_ARMS[k][0])
    ctx.check(not msgs, 'c', 'dst_ip_from_pktinfo_messages', dec, dec.where(), '%d dst_ip stores: Some(V4(in_pktinfo.ipi_addr)) / Some(V6(in6_pktinfo.ipi6_addr)), each in its own arm' % len(st), '; '.join(msgs))


def _conveys_ecn(F, v):
    """the pushed value is transmit.ecn's codepoint: it derives from the `ecn` field of the transmit parameter, without
    arithmetic, and every closure it goes through returns (a cast of) its own argument"""
    if not any(x[0] == 'field' and x[2] == 'ecn' and x[1][0] == 'param' and x[1][2] == 'transmit' for x in walk(v)):
        return False
    if D.const_offsets(v) or any(x[0] == 'bin' for x in walk(v)):
        return False
    for x in walk(v):
        if x[0] == 'agg' and x[1] == 'closure':
            cb = [b for b in F.bodies.values() if b.canon == x[2] and b.kind == 'closure']
            if len(cb) != 1:
                return False
            rets = ret_descs(F, cb[0])
            if not rets:
                return False
            for _, rd in rets:
                for alt in flat(rd):
                    if not D.has_param(alt, idx=2) or any(y[0] == 'bin' for y in walk(alt)):
                        return False
    return True


def _kids(x):
    t = x[0] if x else None
    if t in ('field', 'variant', 'index', 'discr', 'overflow'):
        return (x[1],)
    if t == 'un':
        return (x[2],)
    if t == 'bin':
        return (x[2], x[3])
    if t in ('call', 'agg'):
        return tuple(x[3])
    if t == 'phi':
        return tuple(x[1])
    return ()


def _function_of(d, root_ok):
    """the value is computed from nothing but sub-values accepted by root_ok (at least one) and literals: no other parameter,
    capture, unexpanded local or argument-less call takes part"""
    n = [0]

    def rec(x):
        if not isinstance(x, tuple) or not x:
            return True
        if root_ok(x):
            n[0] += 1
            return True
        if x[0] in ('param', 'upvar', 'local') or (x[0] == 'call' and not x[3]):
            return False
        return all(rec(k) for k in _kids(x))
    return rec(d) and n[0] > 0


def _int_operand(o):
    return int(o[2]) if o[0] not in ('c', 'm') and o[1] == 'int' and str(o[2]).lstrip('-').isdigit() else None


def _tuple_elems(ty):
    """element types of a tuple type string `(A, B)`, else []"""
    if not (ty.startswith('(') and ty.endswith(')')):
        return []
    out, depth, cur = [], 0, ''
    for ch in ty[1:-1]:
        if ch in '(<[':
            depth += 1
        elif ch in ')>]':
            depth -= 1
        if ch == ',' and depth == 0:
            out.append(cur.strip())
            cur = ''
        else:
            cur += ch
    if cur.strip():
        out.append(cur.strip())
    return out


def _feasible_paths(F, body, events, cap=50000):
    """Path-sensitive walk of `body` (entry -> normal return).  Integer / bool cells (a local, or one field of a local tuple as
    in `match (a, b)`) assigned literals, copies and `!` of each other are tracked; a SwitchInt on a known value only takes its
    matching edge (so materialised booleans such as `let v4 = a || matches!(..)`, `let t = v4 && !flag` are resolved per
    path); a SwitchInt on an unknown value forks, records the decision (block -> value) and remembers the value for later tests
    of the same cell.  events: block -> label.
    Returns [(decisions {bb: value | 'else'}, labels passed, known values {cell: int})] or None (more than `cap` states)."""
    noaddr = describer(F, body).mut_borrowed

    def cell(pl):
        if pl[0] in noaddr:
            return None
        if not pl[1]:
            return pl[0]
        if len(pl[1]) == 1 and isinstance(pl[1][0], list) and pl[1][0][0] == 'f':
            return (pl[0], str(pl[1][0][1]))
        return None

    def isbool(c):
        if isinstance(c, int):
            return body.locals[c][0] == 'bool'
        el = _tuple_elems(body.locals[c[0]][0])
        return c[1].isdigit() and int(c[1]) < len(el) and el[int(c[1])] == 'bool'
    out, seen = [], set()
    stack = [(0, {}, {}, {}, frozenset())]
    while stack:
        bb, val, sym, dec, ev = stack.pop()
        key = (bb, frozenset(val.items()), frozenset(sym.items()), frozenset(dec.items()), ev)
        if key in seen:
            continue
        seen.add(key)
        if len(seen) > cap:
            return None
        val, sym = dict(val), dict(sym)
        if bb in events:
            ev = ev | {events[bb]}

        def kill(pl):
            c = cell(pl)
            whole = c is None or isinstance(c, int)
            dead = lambda k: k == c or (whole and (k == pl[0] or (isinstance(k, tuple) and k[0] == pl[0])))
            for k in [k for k in val if dead(k)]:
                del val[k]
            for k in [k for k, (r, _) in sym.items() if dead(k) or dead(r)]:
                del sym[k]

        def copy(x, o, neg):
            c = _int_operand(o)
            y = cell(o[1]) if o[0] in ('c', 'm') else None
            if c is not None:
                val[x] = (1 - c) if neg else c
            elif y is not None and y != x:
                if y in val:
                    val[x] = (1 - val[y]) if neg else val[y]
                else:
                    r, n = sym.get(y, (y, False))
                    sym[x] = (r, n != neg)
        blk = body.blocks[bb]
        for st in blk['s']:
            if st[0] not in ('=', 'sd'):
                continue
            kill(st[1])
            x = cell(st[1])
            if st[0] == '=' and x is not None:
                rv = st[2]
                if rv[0] == 'use':
                    copy(x, rv[1], False)
                elif rv[0] == 'un' and rv[1] == 'Not' and isbool(x):
                    copy(x, rv[2], True)
                elif rv[0] == 'agg' and rv[1][0] == 'tuple' and isinstance(x, int):
                    for i, o in enumerate(rv[2]):
                        copy((x, str(i)), o, False)
        t = blk['t']
        if t[0] == 'call':
            kill(t[1]['dst'])
        elif t[0] == 'yield':
            kill(t[3])
        if t[0] != 'switch':
            if t[0] == 'ret':
                out.append((dec, ev, val))
            for s in body.succ[bb]:
                stack.append((s, val, sym, dec, ev))
            continue
        o = t[1]
        listed = [int(v) for v, _ in t[2]]
        edges = [(int(v), tgt) for v, tgt in t[2]] + [('else', t[3])]
        known = _int_operand(o)
        y = cell(o[1]) if o[0] in ('c', 'm') else None
        if known is None and y is not None:
            known = val.get(y)
        if known is not None:
            tgt = dict(edges).get(known, t[3])
            if not body.blocks[tgt]['c']:
                stack.append((tgt, val, sym, dec, ev))
            continue
        for v, tgt in edges:
            if body.blocks[tgt]['c']:
                continue
            v2, s2 = dict(val), dict(sym)
            num = v if v != 'else' else None
            label = v
            if num is None and len(listed) == 1 and listed[0] in (0, 1):
                label = 1 - listed[0]           # two-valued discriminant (bool, Option, IpAddr): the other value
                if y is not None and isbool(y):
                    num = label
            if num is not None and y is not None:
                v2[y] = num
                r, n = sym.get(y, (y, False))
                if not n:
                    v2[r] = num
                elif num in (0, 1) and isbool(r):
                    v2[r] = 1 - num
                if r in v2:
                    for k, (r2, n2) in sym.items():
                        if r2 == r and (not n2 or v2[r] in (0, 1)):
                            v2[k] = (1 - v2[r]) if n2 else v2[r]
                            s2.pop(k, None)
            d2 = dict(dec)
            d2[bb] = label
            stack.append((tgt, v2, s2, d2, ev))
    return out


def _ecn_absent_on(desc, v, is_ecn):
    """the decision `desc == v` says that the transmit carries no ECN codepoint (transmit.ecn is None)"""
    if desc[0] == 'discr' and is_ecn(desc[1]):
        return v == 0
    inner, neg = peel_not(desc)
    if inner[0] == 'call' and len(inner[3]) == 1 and is_ecn(inner[3][0]) and v in (0, 1):
        if _is_call(inner, 'Option::is_some'):
            return (v == 1) == neg
        if _is_call(inner, 'Option::is_none'):
            return (v == 1) != neg
    return False


def _ecn_per_destination(ctx, pm, tos, tclass):
    """Which ECN control message a datagram gets is decided by its destination, also after the EINVAL / EIO fallback:
      (1) on every feasible path entry -> return of prepare_msg on which the fallback flag (the parameter fed from
          UdpSocketState::sendmsg_einval by the callers) is not known to be set, an IP_TOS or IPV6_TCLASS message is pushed;
      (2) whether IPV6_TCLASS is pushed is a function of the decisions taken on transmit.destination alone: two feasible
          paths that agree on every destination test they share either both push it or both do not.  (The fallback mode may
          drop IP_TOS — old kernels reject it — but a native IPv6 destination keeps its traffic class; with (1) it has one.)
    Paths on which transmit.ecn is known to be None are exempt (no codepoint to convey)."""
    F = ctx.facts
    i1, i2 = 'ecn_pushed_for_every_destination', 'ipv6_traffic_class_decided_by_destination_only'
    if not tos or not tclass:
        return          # reported by ecn_conveyed_v4_and_v6
    tr = [l for l in range(1, pm.argc + 1) if 'Transmit' in pm.locals[l][0]]
    is_tr = lambda x: x[0] == 'param' and x[1] in tr
    is_dest = lambda x: x[0] == 'field' and x[2] == 'destination' and is_tr(x[1])
    is_ecn = lambda x: x[0] == 'field' and x[2] == 'ecn' and is_tr(x[1])
    callers = [c for c in F.callers_of(pm.id, crate='quinn_udp') if c.f == pm.id]
    fb = [l for l in range(1, pm.argc + 1) if pm.locals[l][0] == 'bool' and callers and
          all(D.has_call(arg_desc(F, c, l - 1), 'UdpSocketState::sendmsg_einval') or D.has_field(arg_desc(F, c, l - 1), 'sendmsg_einval') for c in callers)]
    if not fb:
        fb = [l for l in range(1, pm.argc + 1) if pm.locals[l][1] == 'sendmsg_einval']
    events = {c.bb: 'tos' for c in tos}
    events.update({c.bb: 'tclass' for c in tclass})
    paths = _feasible_paths(F, pm, events)
    if not paths or len(tr) != 1 or len(fb) != 1:
        for inst in (i1, i2):
            ctx.bad('d', inst, pm, pm.where(), 'prepare_msg can no longer be walked path by path (transmit parameter %s, fallback flag parameter %s, %s paths): which ECN message a destination gets is undecided' % (tr, fb, 'too many' if paths is None else len(paths)))
        return
    brs = {br.bb: br for br in branches(F, pm)}
    desc_of = lambda bb: brs[bb].desc if bb in brs else ('local', -1, '?')
    on_dest = {bb for bb in {b for dec, _, _ in paths for b in dec} if _function_of(desc_of(bb), is_dest)}
    live = [p for p in paths if not any(_ecn_absent_on(desc_of(bb), v, is_ecn) for bb, v in p[0].items())]
    lost = [p for p in live if p[2].get(fb[0]) != 1 and not p[1]]

    def tests(dec, only=None):
        return sorted({'%s = %s' % (D.render(desc_of(bb))[:70], v) for bb, v in dec.items() if only is None or bb in only})
    ctx.check(not lost, 'd', i1, pm, (tos + tclass)[0].where(), '%d feasible paths; outside the EINVAL fallback every one pushes IP_TOS or IPV6_TCLASS' % len(live),
              'prepare_msg returns without an IP_TOS / IPV6_TCLASS message although the EINVAL fallback is not active: the ECN codepoint is not conveyed when %s' % (tests(lost[0][0]) if lost else ''))
    clash = None
    for a in range(len(live)):
        for b in range(a + 1, len(live)):
            p, q = live[a], live[b]
            if ('tclass' in p[1]) != ('tclass' in q[1]) and all(p[0][k] == q[0][k] for k in on_dest if k in p[0] and k in q[0]):
                if clash is None or len(p[0]) + len(q[0]) < len(clash[0][0]) + len(clash[1][0]):
                    clash = (p, q) if 'tclass' in p[1] else (q, p)
    if clash:
        p, q = clash
        why = sorted({D.render(desc_of(k))[:70] for k in set(p[0]) | set(q[0]) if k not in on_dest and p[0].get(k) != q[0].get(k)})
    ctx.check(clash is None, 'd', i2, pm, tclass[0].where(), 'IPV6_TCLASS pushed or not is determined by %d test(s) on transmit.destination on all %d feasible paths' % (len(on_dest), len(live)),
              'for one and the same destination (%s) IPV6_TCLASS is pushed on one path and omitted on another; the difference is made by %s: a native IPv6 datagram loses its ECN codepoint (e.g. after the EINVAL / EIO fallback)' % (
                  '; '.join(tests(clash[0][0], on_dest)) if clash else '', why if clash else ''))


def _effective_segment_size(ctx):
    """Transmit::effective_segment_size: a branch with the relation contents.len() <= segment_size on one edge, from which
    every value returned is None, while its other edge returns Some(that segment_size); no Some(..) is produced elsewhere."""
    F = ctx.facts
    inst = 'no_segmentation_for_single_segment'
    ef = [b for b in F.fns('Transmit::effective_segment_size') if b.crate == 'quinn_udp' and b.kind == 'fn']
    if len(ef) != 1:
        ctx.bad('d', inst, 'Transmit::effective_segment_size', '', 'effective_segment_size not found (%d)' % len(ef))
        return
    b = ef[0]
    d = describer(F, b)
    live = b.live_blocks()

    def is_len(x):
        return _is_call(x, '[T]::len', 'Vec::len', 'Bytes::len') and len(x[3]) == 1 and _self_field(x[3][0], 'contents')

    def is_size(x):     # the payload of self.segment_size (through `?` / if let / unwrap), not an expression over it
        while x[0] in ('field', 'variant') and not _self_field(x, 'segment_size'):
            x = x[1]
        return _self_field(x, 'segment_size')
    # values assigned to the return place: (block, descriptor)
    rets = []
    for df in b.defs_of(0):
        if df[0] == 'stmt' and df[1] in live:
            rets.append((df[1], d.rvalue(df[3], df[1], df[2], 0)))
        elif df[0] == 'call' and df[2].bb in live:
            rets.append((df[2].bb, d.call_desc(df[2], 0)))

    def is_none(v):
        return v[0] == 'agg' and v[2].endswith('Option::None')

    def is_some_of(v, size):
        return v[0] == 'agg' and v[2].endswith('Option::Some') and len(v[3]) == 1 and v[3][0] == size
    edges = guard_edges(ctx, b, lambda op, a, c: op == 'Le' and is_len(a) and is_size(c))
    if not edges:
        ctx.bad('d', inst + '/guard_missing', b, b.where(), 'no branch with the relation contents.len() <= segment_size: segmentation is not suppressed exactly for single-segment transmits')
        return
    for br, truth, tgt in edges:
        size = relation_on(br.desc, truth)[2]
        other = br.target(0 if truth else 1)
        r_none = b.reachable_from(tgt, avoid=[br.bb])
        r_some = b.reachable_from(other, avoid=[br.bb])
        on_none = [v for bb, v in rets if bb in r_none]
        on_some = [v for bb, v in rets if bb in r_some]
        elsewhere = [v for bb, v in rets if bb not in r_some and not is_none(v) and not (v[0] == 'call' and v[1].endswith('from_residual'))]
        ok = bool(on_none) and all(is_none(v) for v in on_none) and bool(on_some) and all(is_some_of(v, size) for v in on_some) and not elsewhere
        ctx.check(ok, 'd', inst, b, br.where(), 'contents.len() <= segment_size => None, otherwise Some(segment_size)',
                  'effective_segment_size: on contents.len() <= segment_size it returns %s, otherwise %s%s' % ([D.render(v)[:40] for v in on_none], [D.render(v)[:40] for v in on_some], ', and elsewhere %s' % [D.render(v)[:40] for v in elsewhere] if elsewhere else ''))


# Linux ABI values of the address families (socket(2)); `match c_int::from(name.ss_family)` is a SwitchInt on integers in MIR
AF_INET, AF_INET6 = 2, 10
# single-argument constructors that hand an address value on unchanged (From / Into / `as` are erased by the describer)
ADDR_WRAPPERS = ('Ipv4Addr::from_octets', 'Ipv6Addr::from_octets', 'Ipv4Addr::from_bits', 'Ipv6Addr::from_bits')


def _call1(x, *names):
    """the only argument of x when x is a call of one of `names` (short method names) with one argument, else None"""
    if isinstance(x, tuple) and x and x[0] == 'call' and len(x[3]) == 1 and x[1] in names:
        return x[3][0]
    return None


def _fields_of(x, root_ok):
    """names of the field projections leading from a value accepted by root_ok to x (outermost last); None when x is anything
    else than a pure projection chain on such a value"""
    names = []
    while isinstance(x, tuple) and x and x[0] == 'field':
        names.append(x[2])
        x = x[1]
    return tuple(reversed(names)) if isinstance(x, tuple) and x and root_ok(x) else None


def _addr_value(x):
    while _call1(x, *ADDR_WRAPPERS) is not None:
        x = _call1(x, *ADDR_WRAPPERS)
    return x


def _copied(x, root_ok, path):
    """x IS the field `path` of the structure (no arithmetic, no other field, no literal)"""
    return _fields_of(_addr_value(x), root_ok) == tuple(path)


def _from_network_order(x, ty, root_ok, path, octets_ok=False):
    """x is the host value of the network-byte-order integer field `path` of type `ty`: ty::from_be(F) (= ty::to_be(F)),
    ty::from_be_bytes(F.to_ne_bytes()), ty::from_ne_bytes(F.to_be_bytes()); with octets_ok also its bytes in memory order
    F.to_ne_bytes() (the octets as they were on the wire).  The bare field, to_le / swap_bytes forms are not."""
    x = _addr_value(x)
    is_f = lambda v: v is not None and _fields_of(v, root_ok) == tuple(path)
    if is_f(_call1(x, ty + '::from_be', ty + '::to_be')):
        return True
    if octets_ok and is_f(_call1(x, ty + '::to_ne_bytes')):
        return True
    a = _call1(x, ty + '::from_be_bytes')
    if a is not None and is_f(_call1(a, ty + '::to_ne_bytes')):
        return True
    a = _call1(x, ty + '::from_ne_bytes')
    return a is not None and is_f(_call1(a, ty + '::to_be_bytes'))


def _pinned_values(F, body, is_subject, site_bb):
    """integers k such that a branch dominating site_bb tests the subject (SwitchInt on it, or `subject ==/!= k`) and site_bb
    is reachable over its `subject == k` edge but over no other edge of that branch"""
    out = set()
    for br in branches(F, body):
        if not body.dominates(br.bb, site_bb):
            continue
        if is_subject(br.desc):
            edges = list(br.edges)
        else:
            edges = None
            rel = relation_on(br.desc, True)
            if rel and rel[0] in ('Eq', 'Ne'):
                for p, q in ((rel[1], rel[2]), (rel[2], rel[1])):
                    if is_subject(p) and _int_const(q) is not None:
                        eq, ne = (1, 0) if rel[0] == 'Eq' else (0, 1)
                        edges = [(_int_const(q), br.target(eq)), (None, br.target(ne))]
            if edges is None:
                continue
        via = {v for v, t in edges if site_bb in body.reachable_from(t, avoid=[br.bb])}
        if len(via) == 1 and None not in via:
            out |= via
    return out


def _peer_address(ctx, dr, rm, dd):
    """'the source ... addresses are conveyed', receive side.  decode_socket_addr turns the sockaddr the kernel wrote into the
    reported SocketAddr component by component: under ss_family == AF_INET6 (and only there) SocketAddrV6::new(ip, port,
    flowinfo, scope_id) is given sin6_addr.s6_addr, the host-order value of sin6_port, sin6_flowinfo and sin6_scope_id of
    that very sockaddr, in this order (the parameter order of std is trusted); under AF_INET SocketAddrV4::new(ip, port) is
    given sin_addr.s_addr (network order: its in-memory bytes, or its host-order value) and the host-order value of
    sin_port; every value returned as Ok is one of these two constructions; RecvMeta.addr is the Ok payload of
    decode_socket_addr applied to the name buffer of the message, RecvMeta.dst_ip the decoded destination."""
    F = ctx.facts
    b = ctx.ufn('decode_socket_addr')
    inst = 'source_address_decoded_field_for_field'
    sa = [l for l in range(1, b.argc + 1) if 'sockaddr_storage' in b.locals[l][0]]
    if len(sa) != 1:
        ctx.bad('d', inst, b, b.where(), 'decode_socket_addr has no single sockaddr_storage parameter (%s): the decoded components cannot be bound to the kernel structure' % sa)
        return
    root = lambda x: x[0] == 'param' and x[1] == sa[0]
    live = b.live_blocks()
    v6 = [c for c in b.calls_to('SocketAddrV6::new') if c.bb in live]
    v4 = [c for c in b.calls_to('SocketAddrV4::new') if c.bb in live]
    ctx.floor('d', 'sockaddr_in6_decode_sites', len(v6), 1)
    ctx.floor('d', 'sockaddr_in_decode_sites', len(v4), 1)
    fam = lambda x: _fields_of(x, root) == ('ss_family',)
    for c in v6 + v4:
        a = [arg_desc(F, c, i) for i in range(len(c.args))]
        if c in v6:
            af, what = AF_INET6, 'SocketAddrV6::new(sin6_addr.s6_addr, from_be(sin6_port), sin6_flowinfo, sin6_scope_id) under AF_INET6'
            comp = [('address', len(a) == 4 and (_copied(a[0], root, ('sin6_addr', 's6_addr')) or _copied(_call1(_addr_value(a[0]), 'u128::from_be_bytes') or (), root, ('sin6_addr', 's6_addr')))),
                    ('port', len(a) == 4 and _from_network_order(a[1], 'u16', root, ('sin6_port',))),
                    ('flow information', len(a) == 4 and _copied(a[2], root, ('sin6_flowinfo',))),
                    ('scope id', len(a) == 4 and _copied(a[3], root, ('sin6_scope_id',)))]
        else:
            af, what = AF_INET, 'SocketAddrV4::new(sin_addr.s_addr.to_ne_bytes(), from_be(sin_port)) under AF_INET'
            comp = [('address', len(a) == 2 and _from_network_order(a[0], 'u32', root, ('sin_addr', 's_addr'), octets_ok=True)),
                    ('port', len(a) == 2 and _from_network_order(a[1], 'u16', root, ('sin_port',)))]
        msgs = ['the %s is %s' % (nm, D.render(a[i])[:60] if i < len(a) else 'missing') for i, (nm, ok) in enumerate(comp) if not ok]
        pin = _pinned_values(F, b, fam, c.bb)
        if pin != {af}:
            msgs.append('the construction is not confined to ss_family == %d (it is reached for %s)' % (af, sorted(pin) or 'families not decided by a test of ss_family'))
        ctx.check(not msgs, 'd', inst, b, c.where(), what,
                  'the peer address reported for a received datagram is not the one in the sockaddr written by the kernel: %s' % '; '.join(msgs))
    # nothing else is returned as Ok
    other = []
    rets = ret_descs(F, b)
    for _, rd in rets:
        for alt in flat(rd):
            if alt[0] == 'agg' and alt[2].endswith('Result::Err'):
                continue
            p = alt[3][0] if alt[0] == 'agg' and alt[2].endswith('Result::Ok') and len(alt[3]) == 1 else None
            if p is not None and p[0] == 'agg' and len(p[3]) == 1 and (p[2].endswith('SocketAddr::V6') and any(is_site(p[3][0], c) for c in v6) or p[2].endswith('SocketAddr::V4') and any(is_site(p[3][0], c) for c in v4)):
                continue
            if p is not None and any(is_site(p, c) for c in v6 + v4):       # SocketAddr::from(SocketAddrV6::new(..)): From is erased
                continue
            other.append(D.render(alt)[:80])
    ctx.check(bool(rets) and not other, 'd', 'decoded_address_is_returned', b, b.where(), 'Ok(SocketAddr::V4(..)) / Ok(SocketAddr::V6(..)) of the two constructions, or Err',
              'decode_socket_addr returns an address that is not one of the checked SocketAddrV4 / SocketAddrV6 constructions: %s' % other)
    # RecvMeta.addr / dst_ip
    nm = [l for l in range(1, dr.argc + 1) if 'sockaddr_storage' in dr.locals[l][0]]
    msgs = []
    for c in rm:
        v = _strip_ok_payload(dd.operand(c.field_op('addr'), c.bb, c.idx))
        if not (len(nm) == 1 and _is_call(v, 'decode_socket_addr') and len(v[3]) == 1 and _roots(v[3][0]) == {nm[0]} and not any(x[0] in ('field', 'index', 'bin') for x in walk(v[3][0]))):
            msgs.append('addr is %s, not decode_socket_addr(<the name buffer of this message>)' % D.render(v)[:70])
        if not D.has_field(dd.operand(c.field_op('dst_ip'), c.bb, c.idx), 'dst_ip'):
            msgs.append('dst_ip is not the destination decoded from the control messages')
    ctx.check(bool(rm) and not msgs, 'd', 'recv_meta_addresses', dr, dr.where(), 'addr: decode_socket_addr(name)?, dst_ip: ctrl.dst_ip', 'RecvMeta no longer reports the addresses of the received datagram: %s' % '; '.join(msgs))


def _is_udp_segment_push(F, c):
    """Encoder::push(encoder, SOL_UDP, UDP_SEGMENT, value): the per-message segmentation request (Linux ABI numbers, udp(7))"""
    return c.is_('Encoder::push') and len(c.args) == 4 and (_int_const(arg_desc(F, c, 1)), _int_const(arg_desc(F, c, 2))) == UDP_SEGMENT_OPT


def _segment_size_sites(F, pm):
    """(call, index of the segment-size argument) of the sites of prepare_msg that put the UDP_SEGMENT control message into the
    encoder: a call of the helper gso::set_segment_size(encoder, size) whose body pushes (SOL_UDP, UDP_SEGMENT, <its size
    parameter>) and nothing else, or — the helper inlined — that very Encoder::push(SOL_UDP, UDP_SEGMENT, size) in prepare_msg
    itself.  A helper that no longer pushes exactly this message is not a site (the floor reports it)."""
    live = pm.live_blocks()
    out = [(c, 3) for c in pm.calls_to('Encoder::push') if c.bb in live and _is_udp_segment_push(F, c)]
    ss = F.try_fn('gso::set_segment_size', 'quinn_udp')
    if ss is not None:
        inner = [x for x in ss.calls_to('Encoder::push') if x.bb in ss.live_blocks()]
        ok = len(inner) == 1 and _is_udp_segment_push(F, inner[0]) and ss.argc == 2
        if ok:
            v = arg_desc(F, inner[0], 3)
            ok = _roots(v) == {2} and not any(x[0] == 'bin' for x in walk(v)) and not D.const_offsets(v)
        if ok:
            out += [(c, 1) for c in pm.calls_to('gso::set_segment_size') if c.bb in live]
    return out


def rule_d(ctx):
    F = ctx.facts
    _effective_segment_size(ctx)
    pm = ctx.ufn('prepare_msg')
    seg = _segment_size_sites(F, pm)
    ctx.floor('d', 'segment_size_sites', len(seg), 1)
    for c, vi in seg:
        es = [br for br in branches(F, pm) if br.desc[0] == 'discr' and D.has_call(br.desc, 'Transmit::effective_segment_size') and pm.dominates(br.bb, c.bb)]
        ev = [br for br in branches(F, pm) if D.has_param(br.desc, name='sendmsg_einval') and pm.dominates(br.bb, c.bb) and any(c.bb not in pm.reachable_from(t, avoid=[br.bb]) for _, t in br.edges)]
        ctx.check(bool(es), 'd', 'segment_size_pushed_iff_effective', pm, c.where(), 'if let Some(segment_size) = effective_segment_size()', 'UDP_SEGMENT is not tied to effective_segment_size()')
        ctx.check(not ev, 'd', 'segmentation_independent_of_einval_fallback', pm, c.where(), 'not conditioned on sendmsg_einval',
                  'UDP_SEGMENT is omitted in the EINVAL fallback mode: a multi-segment transmit sent (or retried) after a sendmsg failure goes out as one merged datagram')
        a = arg_desc(F, c, vi)
        ctx.check(D.has_call(a, 'Transmit::effective_segment_size'), 'd', 'segment_size_value', pm, c.where(), D.render(a)[:80], 'the segment size pushed is not the transmits effective segment size')
    # ECN pushed from transmit.ecn; in_pktinfo literal
    d = describer(F, pm)
    for lv, ty in (('IPPROTO_IP', 'IP_TOS'), ('IPPROTO_IPV6', 'IPV6_TCLASS')):
        ps = [c for c in pm.calls_to('Encoder::push') if _name(arg_desc(F, c, 1)) == lv and _name(arg_desc(F, c, 2)) == ty]
        bad = [c for c in ps if not _conveys_ecn(F, arg_desc(F, c, 3))]
        ctx.check(bool(ps) and not bad, 'd', 'ecn_conveyed_v4_and_v6', pm, (bad or ps or [pm])[0].where(), '%d %s push(es) of transmit.ecn' % (len(ps), ty),
                  'the ECN codepoint of the transmit is not conveyed in %s: %s' % (ty, [D.render(arg_desc(F, c, 3))[:80] for c in bad] or 'no push'))
    ecn_push = {ty: [c for c in pm.calls_to('Encoder::push') if _name(arg_desc(F, c, 1)) == lv and _name(arg_desc(F, c, 2)) == ty] for lv, ty in (('IPPROTO_IP', 'IP_TOS'), ('IPPROTO_IPV6', 'IPV6_TCLASS'))}
    _ecn_per_destination(ctx, pm, ecn_push['IP_TOS'], ecn_push['IPV6_TCLASS'])
    pk = [c for c in constructions(F, 'libc::in_pktinfo', 'in_pktinfo', crate='quinn_udp') if c.body.id == pm.id]
    ctx.floor('d', 'in_pktinfo_literals', len(pk), 1)
    for c in pk:
        sd = d.operand(c.field_op('ipi_spec_dst'), c.bb, c.idx)
        ad = d.operand(c.field_op('ipi_addr'), c.bb, c.idx)
        ok = ('octets' in D.render(sd) or D.has_call(sd, 'Ipv4Addr::octets')) and not ('octets' in D.render(ad))
        ctx.check(ok, 'd', 'ipv4_source_in_spec_dst', pm, c.where(), 'ipi_spec_dst = src_ip, ipi_addr = 0', 'the explicit IPv4 source address is not placed in ipi_spec_dst (the kernel ignores ipi_addr on send): %s / %s' % (D.render(sd)[:60], D.render(ad)[:60]))
    pk6 = [c for c in constructions(F, 'libc::in6_pktinfo', 'in6_pktinfo', crate='quinn_udp') if c.body.id == pm.id]
    for c in pk6:
        ad = d.operand(c.field_op('ipi6_addr'), c.bb, c.idx)
        ctx.check('octets' in D.render(ad), 'd', 'ipv6_source_in_pktinfo', pm, c.where(), 'ipi6_addr = src_ip', 'the explicit IPv6 source address is not conveyed')
    dr = ctx.ufn('decode_recv')
    cm = [c for c in constructions(F, 'ControlMetadata', 'ControlMetadata', crate='quinn_udp') if c.body.id == dr.id]
    dd = describer(F, dr)
    ok = bool(cm) and all(D.has_param(dd.operand(c.field_op('stride'), c.bb, c.idx), name='len') for c in cm)
    ctx.check(ok, 'd', 'stride_defaults_to_len', dr, dr.where(), 'stride: len', 'the receive stride no longer defaults to the datagram length')
    rm = [c for c in constructions(F, 'RecvMeta', 'RecvMeta', crate='quinn_udp') if c.body.id == dr.id]
    ok = bool(rm) and all(D.has_param(dd.operand(c.field_op('len'), c.bb, c.idx), name='len') and D.has_field(dd.operand(c.field_op('stride'), c.bb, c.idx), 'stride') and D.has_field(dd.operand(c.field_op('ecn'), c.bb, c.idx), 'ecn_bits') for c in rm)
    ctx.check(ok, 'd', 'recv_meta_fields', dr, dr.where(), 'len, stride, ecn from the decoded control data', 'RecvMeta fields no longer come from the syscall length / decoded control messages')
    _peer_address(ctx, dr, rm, dd)


def rule_e(ctx):
    F = ctx.facts
    sn = [b for b in F.fns('imp::send') if b.crate == 'quinn_udp' and b.kind == 'fn']
    if not ctx.check(len(sn) == 1, 'e', 'send_fn', 'quinn_udp::imp::send', '', 'found', 'send() not found (%d)' % len(sn)):
        return
    sn = sn[0]
    sm = sn.calls_to('libc::sendmsg', 'sendmsg')
    pm = sn.calls_to('prepare_msg')
    se = sn.calls_to('UdpSocketState::set_sendmsg_einval')
    ctx.check(len(pm) == 2 and bool(sm) and bool(se), 'e', 'fallback_shape', sn, sn.where(), 'prepare_msg x2, sendmsg, set_sendmsg_einval', 'the EINVAL/EIO fallback structure of send() changed')
    for c in pm:
        a0 = arg_desc(F, c, 0)
        ctx.check(a0[0] == 'param' and D.has_param(a0, name='transmit'), 'e', 'message_built_from_the_callers_transmit', sn, c.where(), 'prepare_msg(transmit, ..)',
                  'prepare_msg is given a rewritten Transmit (%s): the retry may drop segment_size / ECN / src_ip of the datagram being sent' % D.render(a0)[:100])
    for s in se:
        # after setting the flag: prepare_msg again and reach sendmsg again without passing an Err return
        errs = {c.bb for c in constructions(F, 'Result', 'Err', crate='quinn_udp') if c.body.id == sn.id}
        p1 = [x for x in pm if sn.dominates(s.bb, x.bb)]
        ok = bool(p1) and all(path_avoiding(sn, p.succ if False else sn.succ[p.bb], {m.bb for m in sm}, errs) is not None for p in p1)
        ok = ok and all(path_avoiding(sn, sn.succ[s.bb], sn.return_blocks(), {x.bb for x in p1}) is None for _ in [0])
        ctx.check(ok, 'e', 'first_einval_retries_without_offload_metadata', sn, s.where(), 'set flag -> prepare_msg -> continue -> sendmsg', 'after the first EINVAL/EIO the message is not re-prepared and retried (the datagram would be lost)')
    smb = {m.bb for m in sm}
    gs = [c for c in sn.calls() if c.bb in sn.live_blocks() and short(c.f).endswith('::store') and D.has_field(arg_desc(F, c, 0), 'max_gso_segments')]
    ok = bool(gs) and all(arg_desc(F, c, 1)[:3] == ('const', 'int', '1') for c in gs)
    # ... and the store is reached for EIO as well as for EINVAL (before the next sendmsg)
    #     errno tests may be pattern matches, `==` / `!=` against Some(E..), or materialised bools (`let x = a == .. || ..`)
    miss = [nm for nm, v in ERRNO.items() if not any(c.bb in _reach_under_errno(F, sn, v, smb) for c in gs)]
    ctx.check(ok and not miss, 'e', 'offload_halted_on_error', sn, (gs[0].where() if gs else sn.where()), 'max_gso_segments.store(1) on Some(EIO) | Some(EINVAL)',
              'GSO is not switched off after %s' % ('/'.join(miss) if ok else 'EIO/EINVAL (no store of 1)'))
    # match e.kind(): Interrupted retries sendmsg (nothing returned, nothing re-prepared), WouldBlock returns Err(e)
    kd = _kind_edges(F, sn)
    errs = {c.bb for c in constructions(F, 'Result', 'Err', crate='quinn_udp') if c.body.id == sn.id}
    msgs = []
    ti, tw = kd.get('Interrupted', []), kd.get('WouldBlock', [])
    if not ti:
        msgs.append('no ErrorKind::Interrupted arm')
    for t in ti:
        if path_avoiding(sn, [t], sn.return_blocks(), smb) is not None or any(x.bb in sn.reachable_from(t, avoid=smb) for x in pm + se + gs):
            msgs.append('ErrorKind::Interrupted does not simply retry sendmsg')
    if not tw:
        msgs.append('no ErrorKind::WouldBlock arm')
    for t in tw:
        if (smb & sn.reachable_from(t)) or path_avoiding(sn, [t], sn.return_blocks(), errs) is not None:
            msgs.append('ErrorKind::WouldBlock is not returned to the caller as Err')
    ctx.check(not msgs, 'e', 'error_kind_dispatch', sn, sn.where(), 'match e.kind() {Interrupted => retry, WouldBlock => Err(e), _}', 'send(): ' + '; '.join(msgs))


# Linux errno values (patterns are lowered to integers in MIR) and the discriminants of std::io::ErrorKind in the std of the
# pinned nightly the driver is built against (MIR switches on the raw discriminant)
ERRNO = {'EIO': 5, 'EINVAL': 22}
ERRKIND = {'WouldBlock': 13, 'Interrupted': 35}


def _errno_value(x, k):
    """value of a SwitchInt discriminant descriptor when `e.raw_os_error()` is Some(k); None = not decided by that.
    `if let Some(E) = ..` / `match` (discriminant = 1, payload = k), `raw == Some(c)` / `!=` (also with the operands swapped and
    through `!`), literals, and a phi all of whose alternatives have one value (`a == Some(EIO) || a == Some(EINVAL)` kept in a
    named bool is phi[(a == Some(EINVAL)) | true] in MIR) are tests of the same errno."""
    if not isinstance(x, tuple) or not x:
        return None
    is_raw = lambda v: _is_call(v, 'Error::raw_os_error', 'io::Error::raw_os_error')
    if x[0] == 'const':
        return _int_const(x)
    if x[0] == 'discr' and is_raw(x[1]):
        return 1
    if x[0] == 'field' and x[2] == '0' and x[1][0] == 'variant' and x[1][2] == 'Some' and is_raw(x[1][1]):
        return k
    if x[0] == 'phi':
        vs = {_errno_value(a, k) for a in x[1]}
        return vs.pop() if len(vs) == 1 else None
    inner, neg = peel_not(x)
    if neg:
        v = _errno_value(inner, k)
        return 1 - v if v in (0, 1) else None
    if x[0] == 'bin' and x[1] in ('Eq', 'Ne'):
        for p, q in ((x[2], x[3]), (x[3], x[2])):
            if D.has_call(p, 'Error::raw_os_error') and not D.has_call(q, 'Error::raw_os_error'):
                ks = [int(c[2]) for c in walk(q) if c[0] == 'const' and c[1] == 'int' and str(c[2]).lstrip('-').isdigit()]
                if len(ks) == 1:
                    return int((ks[0] == k) == (x[1] == 'Eq'))
    return None


def _reach_under_errno(F, body, k, sends):
    """blocks a failed sendmsg (blocks `sends`) with errno k can reach before the next sendmsg: every SwitchInt decided by
    `raw_os_error() == Some(k)` (_errno_value) only takes its matching edge.  A switch on a bool / integer local that is not
    decided by its descriptor (a materialised test) is decided when all of its definitions lie between two sendmsg calls, every
    path from the failed sendmsg to the switch passes one that is still reachable, and the still reachable ones agree (copies of
    other locals are followed); iterated to the fixpoint.  Undecided switches keep all their edges."""
    d = describer(F, body)
    sends = set(sends)

    def region(avoid, cut):
        r = set()
        for s in sends:
            r |= body.reachable_strict(s, avoid=avoid, avoid_edges=cut)
        return r
    full = region(sends, set())
    cut, known = set(), {}

    def bare(o):
        return o[1][0] if o[0] in ('c', 'm') and not o[1][1] and o[1][0] not in d.mut_borrowed else None

    def local_value(l, use_bb, reach, depth):
        defs = body.defs_of(l)
        if not defs or any(df[0] not in ('stmt', 'call') for df in defs) or not {df[1] for df in defs} <= full:
            return None
        inb = {df[1] for df in defs} & reach
        if use_bb not in inb and use_bb in region(sends | inb, cut):
            return None
        vals = set()
        for df in defs:
            if df[1] not in reach:
                continue
            if df[0] == 'call':
                v = _errno_value(d.call_desc(df[2], 0), k)
            else:
                rv, v = df[3], None
                if rv[0] == 'use':
                    v = _int_operand(rv[1])
                    m = bare(rv[1]) if v is None else None
                    if m is not None and depth < 4:
                        v = local_value(m, df[1], reach, depth + 1)
                if v is None:
                    v = _errno_value(d.rvalue(rv, df[1], df[2], 0), k)
            vals.add(v)
        return vals.pop() if len(vals) == 1 else None
    while True:
        reach = region(sends, cut)
        new = False
        for br in branches(F, body):
            if br.bb in known or br.bb not in reach:
                continue
            v = _errno_value(br.desc, k)
            if v is None:
                l = bare(body.blocks[br.bb]['t'][1])
                if l is not None:
                    v = local_value(l, br.bb, reach, 0)
            if v is not None:
                known[br.bb] = v
                keep = br.target(v)
                cut |= {(br.bb, t) for _, t in br.edges if t != keep}
                new = True
        if not new:
            return reach


def _kind_edges(F, body):
    """ErrorKind variant name -> target blocks taken when `e.kind()` is that variant: SwitchInt on the discriminant of
    Error::kind(last_os_error()), or `e.kind() == io::ErrorKind::X`"""
    out = {}
    num = {v: k for k, v in ERRKIND.items()}
    for br in branches(F, body):
        x = br.desc
        if x[0] == 'discr' and _is_call(x[1], 'Error::kind', 'io::Error::kind'):
            for v, t in br.edges:
                if v in num:
                    out.setdefault(num[v], []).append(t)
            continue
        rel = relation_on(x, True)
        if rel and rel[0] in ('Eq', 'Ne'):
            for p, q in ((rel[1], rel[2]), (rel[2], rel[1])):
                if _is_call(p, 'Error::kind', 'io::Error::kind') and q[0] == 'agg' and 'ErrorKind::' in q[2]:
                    out.setdefault(q[2].rsplit('::', 1)[-1], []).append(br.target(1 if rel[0] == 'Eq' else 0))
    return out


def rule_f(ctx):
    F = ctx.facts
    ps = ctx.qfn('RecvState::poll_socket')
    st = [c for c in ps.calls_to('BytesMut::split_to')]
    ctx.floor('f', 'split_sites', len(st), 2)
    ok_len = any(D.has_field(arg_desc(F, c, 1), 'len') and not D.has_field(arg_desc(F, c, 1), 'stride') for c in st)
    ok_str = any(D.has_field(arg_desc(F, c, 1), 'stride') and (D.has_call(arg_desc(F, c, 1), 'Ord::min') or D.has_call(arg_desc(F, c, 1), 'usize::min')) for c in st)
    ctx.check(ok_len and ok_str, 'f', 'batch_split_by_len_then_stride', ps, ps.where(), 'datagrams.split_to(meta.len); data.split_to(min(meta.stride, data.len()))', 'received batches are no longer split by meta.len and then meta.stride')
    h = ps.calls_to('quinn_proto::Endpoint::handle')
    ctx.floor('f', 'handle_sites', len(h), 1)

    def bases(v, fld):
        """the values X such that `X.<fld>` occurs in v"""
        return {x[1] for x in walk(v) if x[0] == 'field' and x[2] == fld}
    for c in h:
        # the piece is data.split_to(min(M.stride, ..)) of datagrams.split_to(M.len) and addr / dst_ip / ecn are fields of the
        # SAME metadata value M (the same loop item: same reaching definition, not another element of the array)
        piece = arg_desc(F, c, 5)
        inner = [x for x in st if is_site(piece, x)]
        outer = [x for x in st if inner and is_site(arg_desc(F, inner[0], 0), x)]
        ms = []
        if inner and outer:
            ms = [bases(arg_desc(F, outer[0], 1), 'len'), bases(arg_desc(F, inner[0], 1), 'stride'), bases(arg_desc(F, c, 2), 'addr'), bases(arg_desc(F, c, 3), 'dst_ip'), bases(arg_desc(F, c, 4), 'ecn')]
        ok = bool(ms) and all(len(m) == 1 for m in ms) and len(set.union(*ms)) == 1
        ok = ok and arg_desc(F, outer[0], 1) == ('field', next(iter(ms[0])), 'len') and arg_desc(F, c, 2) == ('field', next(iter(ms[2])), 'addr') and arg_desc(F, c, 3) == ('field', next(iter(ms[3])), 'dst_ip')
        ctx.check(ok, 'f', 'piece_handed_with_its_metadata', ps, c.where(), 'handle(now, meta.addr, meta.dst_ip, meta.ecn, piece of meta.len / meta.stride, ..)', 'a received piece is handed to the protocol with metadata that is not its own (addr / dst_ip / ecn / len / stride do not come from one RecvMeta value)')
    ut = ctx.qfn('quinn::udp_transmit') if F.try_fn('quinn::udp_transmit', 'quinn') else ctx.qfn('udp_transmit')
    cons = [c for c in constructions(F, 'quinn_udp::Transmit', 'Transmit', crate='quinn') if c.body.id == ut.id]
    d = describer(F, ut)
    ok = bool(cons)
    for c in cons:
        for fld in ('destination', 'segment_size', 'src_ip'):
            v = d.operand(c.field_op(fld), c.bb, c.idx)
            if not D.has_field(v, fld):
                ok = False
        if not D.has_field(d.operand(c.field_op('ecn'), c.bb, c.idx), 'ecn'):
            ok = False
        if not D.has_param(d.operand(c.field_op('contents'), c.bb, c.idx), name='buffer'):
            ok = False
    ctx.check(ok, 'f', 'transmit_converted_field_for_field', ut, ut.where(), 'destination, ecn, contents, segment_size, src_ip copied', 'udp_transmit no longer copies every Transmit field')


# Linux ABI value of the socket-level option (SOL_UDP, UDP_SEGMENT) (udp(7)); setsockopt wrappers of quinn-udp with the
# argument layout (socket, level, name, value)
UDP_SEGMENT_OPT = (17, 103)
SOCKOPT_SETTERS = ('imp::set_socket_option', 'set_socket_option', 'imp::set_socket_option_supported', 'set_socket_option_supported')


def _int_const(x):
    return int(x[2]) if isinstance(x, tuple) and x and x[0] == 'const' and x[1] == 'int' and str(x[2]).lstrip('-').isdigit() else None


def _roots(x):
    return {y[1] for y in walk(x) if y[0] == 'param'}


def _same_socket(a, b):
    return a == b or (bool(_roots(a)) and _roots(a) == _roots(b))


def _strip_try(x):
    while isinstance(x, tuple) and x and x[0] == 'call' and x[1].endswith('Try>::branch') and len(x[3]) == 1:
        x = x[3][0]
    return x


def _strip_ok_payload(x):
    """x, or the value X when x is the Ok / Continue / Some payload of (a `?` of) X"""
    while True:
        y = _strip_try(x)
        if isinstance(y, tuple) and y and y[0] == 'field' and y[2] == '0' and y[1][0] == 'variant' and y[1][2] in ('Ok', 'Continue', 'Some'):
            y = y[1][1]
        if y == x:
            return x
        x = y


def _not_set_edges(F, body, site, sets_when_true):
    """CFG edges (from, to) of `body` on which the setsockopt wrapper call `site` is known to have FAILED (the option was not
    changed): the non-Ok edges of a switch on the discriminant of its result (directly, through `?`, `.ok()` / `.err()`) and the
    false edges of `.is_ok()` / `.is_some()` tests (true edges of `.is_err()` / `.is_none()`); for the io::Result<bool> wrapper
    also the false edge of the unwrapped bool."""
    def res(x):
        return is_site(_strip_try(x), site)

    def opt(x, method):     # Result::ok(S) / Result::err(S)
        return _is_call(x, 'Result::' + method) and len(x[3]) == 1 and res(x[3][0])
    out = set()
    for br in branches(F, body):
        x = br.desc
        good = None         # target taken when the option was set
        if x[0] == 'discr':
            if res(x[1]):
                good = br.target(0)                              # Ok / Continue = 0
            elif opt(x[1], 'ok'):
                good = br.target(1)                              # Some = 1
            elif opt(x[1], 'err'):
                good = br.target(0)                              # None = 0
        else:
            inner, neg = peel_not(x)
            while _is_call(inner, '<bool as Not>::not') and len(inner[3]) == 1:
                inner, n2 = peel_not(inner[3][0])
                neg = (not neg) ^ n2
            pos = None
            if inner[0] == 'call' and len(inner[3]) == 1:
                a = inner[3][0]
                if _is_call(inner, 'Result::is_ok') and res(a) or _is_call(inner, 'Option::is_some') and opt(a, 'ok') or _is_call(inner, 'Option::is_none') and opt(a, 'err'):
                    pos = True
                elif _is_call(inner, 'Result::is_err') and res(a) or _is_call(inner, 'Option::is_none') and opt(a, 'ok') or _is_call(inner, 'Option::is_some') and opt(a, 'err'):
                    pos = False
            if pos is None and sets_when_true and is_site(_strip_ok_payload(inner), site) and _strip_ok_payload(inner) != inner:
                pos = True
            if pos is not None:
                good = br.target(1 if pos != neg else 0)
        if good is not None:
            out |= {(br.bb, t) for _, t in br.edges if t != good}
    return out


def rule_g(ctx):
    """Socket-wide segmentation stays off: a datagram sent WITHOUT an UDP_SEGMENT control message (d/ no_segmentation_for_
    single_segment) is one datagram only while the socket option (SOL_UDP, UDP_SEGMENT) is 0.  Every setsockopt of that option
    to a value that is not the literal 0 (the GSO support probe) is therefore followed — on every path from its success edge
    to a normal return of the function, or of its callers when the function hands the socket back un-reset — by a setsockopt of
    the same option to 0 on the same socket."""
    F = ctx.facts
    inst = 'socket_wide_segmentation_reset_after_probe'
    sites = []          # (call, socket, value)
    for b in F.bodies.values():
        if b.crate != 'quinn_udp':
            continue
        live = b.live_blocks()
        for c in b.calls():
            if c.bb not in live or len(c.args) < 2:
                continue
            ds = [arg_desc(F, c, i) for i in range(len(c.args))]
            at = [i for i in range(len(ds) - 1) if (_int_const(ds[i]), _int_const(ds[i + 1])) == UDP_SEGMENT_OPT and ds[i + 1][3].split('::')[-1] in ('UDP_SEGMENT', '')]
            if not at or c.is_('Encoder::push'):
                continue
            if c.is_(*SOCKOPT_SETTERS) and at == [1] and len(ds) == 4:
                sites.append((c, ds[0], ds[3]))
            else:
                ctx.bad('g', inst + '/unclassified_setter', b, c.where(), '(SOL_UDP, UDP_SEGMENT) is handed to %s, which is not a known setsockopt wrapper: is the socket-wide segment size left at 0?' % short(c.f))
    is_zero = lambda v: _int_const(v) == 0
    probes = [x for x in sites if not is_zero(x[2])]
    ctx.floor('g', 'gso_probe_sites', len(probes), 1)

    def always_resets(g, k, depth=0):
        """every path entry -> return of g passes a reset of UDP_SEGMENT on the socket given as parameter local k"""
        rb = {c.bb for c, s, v in sites if c.body.id == g.id and is_zero(v) and s[0] == 'param' and s[1] == k}
        if depth < 2:
            rb |= helper_resets(g, ('param', k, g.locals[k][1]), depth + 1)
        rets = [r for r in g.return_blocks() if r in g.live_blocks()]
        return bool(rb) and bool(rets) and path_avoiding(g, [0], rets, rb) is None

    def helper_resets(b, sock, depth=0):
        out = set()
        for c in b.calls():
            g = F.bodies.get(c.f)
            if g is None or g.crate != 'quinn_udp' or g.kind != 'fn' or c.is_(*SOCKOPT_SETTERS) or c.bb not in b.live_blocks():
                continue
            for i in range(min(len(c.args), g.argc)):
                if _same_socket(arg_desc(F, c, i), sock) and always_resets(g, i + 1, depth):
                    out.add(c.bb)
        return out

    def escapes(c, sock, fail_edges):
        """return blocks of c.body reachable after the call c with the option still set"""
        b = c.body
        resets = {r.bb for r, s, v in sites if r.body.id == b.id and is_zero(v) and _same_socket(s, sock)} | helper_resets(b, sock)
        reach = b.reachable_strict(c.bb, avoid=resets - {c.bb}, avoid_edges=fail_edges)
        return [r for r in b.return_blocks() if r in reach]

    for c, sock, val in probes:
        b = c.body
        chain = [b.short]
        bflag = c.is_('set_socket_option_supported', 'imp::set_socket_option_supported')     # io::Result<bool>: Ok(true) = set
        work = [(c, sock, _not_set_edges(F, b, c, bflag), 0)]
        leak = None
        while work and leak is None:
            cc, s, fe, depth = work.pop()
            esc = escapes(cc, s, fe)
            if not esc:
                continue
            g = cc.body
            callers = [x for x in F.callers_of(g.id, crate='quinn_udp') if x.f == g.id] if g.kind == 'fn' else []
            if s[0] == 'param' and 1 <= s[1] <= g.argc and callers and depth < 2:
                # the function returns with the option still set on its caller's socket: the obligation moves to every caller
                # (a function returning the wrapper's result unchanged also hands on its success / failure edges)
                rets = ret_descs(F, g)
                fwd = bool(rets) and all(is_site(rd, cc) for _, rd in rets)
                for x in callers:
                    chain.append(x.body.short)
                    work.append((x, arg_desc(F, x, s[1] - 1), _not_set_edges(F, x.body, x, bflag) if fwd else set(), depth + 1))
            else:
                leak = (g, esc)
        ctx.check(leak is None, 'g', inst, b, c.where(), 'setsockopt(UDP_SEGMENT, %s) is followed by setsockopt(UDP_SEGMENT, 0) on the same socket on every successful path to a return' % D.render(val)[:40],
                  'the socket-wide option UDP_SEGMENT is set to %s and %s can return without setting it back to 0 (%s): every later send without an UDP_SEGMENT control message — a single-datagram transmit — longer than that value is cut into several datagrams by the kernel' % (
                      D.render(val)[:40], leak[0].short if leak else '', ' <- '.join(chain)))


def run(ctx):
    rule_a(ctx)
    rule_b(ctx)
    rule_c(ctx)
    rule_d(ctx)
    rule_e(ctx)
    rule_f(ctx)
    rule_g(ctx)
    ctx.assume('Linux x86-64 only: cfg(windows) / apple / bsd code paths are not compiled and therefore not analysed')
