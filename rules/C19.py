"""C19 — the UDP layer preserves boundaries, payload and metadata (structural part; Linux cfg only)."""
from engine.rulelib import *
from engine import desc as D

EXPLANATION = ("Static rules over quinn-udp / quinn MIR (Linux x86-64 build): (a) PATH-SUM-BOUND: the maximum over all CFG paths of prepare_msg of the CMSG_SPACE of the "
               "control messages pushed (with gso::set_segment_size included) is <= cmsg::LEN, no push sits in a loop; and the receive control buffer holds the sum of "
               "CMSG_SPACE of every kernel->user message enabled by UdpSocketState::new (per address family, worst case IPv4-mapped on dual-stack); (b) the control length "
               "announced to the kernel is cmsg::LEN and the control pointer is the LEN-sized aligned buffer; iovlen = 1; namelen = sizeof(sockaddr_storage) on receive; "
               "(c) every Encoder is finished before sendmsg; cmsg::decode::<T> is used with the kernel type of each (level, type); (d) segmentation request only when "
               "segment_size < len, independent of the einval fallback flag; ECN / source address control messages carry the transmit's values in the right fields; the "
               "receive stride defaults to len and is overridden only by UDP_GRO; (e) offload degradation: EIO/EINVAL stores max_gso_segments = 1 and, the first time, "
               "re-prepares the message and retries; Interrupted loops, WouldBlock is returned; (f) batch splitting in the async endpoint by meta.len / meta.stride and "
               "field-for-field Transmit conversion. Kernel behaviour and non-Linux back ends are NOT decided.")
RULE = "rule instances = (rule, site) pairs over MIR call sites / stores / paths; non-trivial = bound to a real site"
NOTE = ("Trusted: rustc MIR, the fact extractor incl. layout sizes of generic arguments, the Linux CMSG_ALIGN formula (16-byte cmsghdr, 8-byte alignment) and the table of "
        "payload sizes the kernel attaches for each enabled receive option. Only the cfg(linux) x86-64 build is analysed.")


def cmsg_space(n):
    return ((16 + n + 7) // 8) * 8


# payload size of the control message the Linux kernel attaches for each *receive* option enabled with setsockopt (level, name) -> (cmsg payload bytes, families)
RECV_OPTS = {
    ('IPPROTO_IP', 'IP_RECVTOS'): (1, ('v4', 'mapped')),
    ('IPPROTO_IP', 'IP_PKTINFO'): (12, ('v4', 'mapped')),
    ('SOL_UDP', 'UDP_GRO'): (4, ('v4', 'v6', 'mapped')),
    ('SOL_SOCKET', 'SO_TIMESTAMPNS'): (16, ('v4', 'v6', 'mapped')),
    ('IPPROTO_IPV6', 'IPV6_RECVPKTINFO'): (20, ('v6', 'mapped')),
    ('IPPROTO_IPV6', 'IPV6_RECVTCLASS'): (4, ('v6',)),
}
# options that do not add a control message to ordinary received datagrams
NO_CMSG = {('IPPROTO_IP', 'IP_MTU_DISCOVER'), ('IPPROTO_IPV6', 'IPV6_MTU_DISCOVER'), ('IPPROTO_IP', 'IP_RECVERR'), ('IPPROTO_IPV6', 'IPV6_RECVERR'), ('IPPROTO_IPV6', 'IPV6_DONTFRAG'),
           ('SOL_UDP', 'UDP_SEGMENT'), ('SOL_SOCKET', 'SO_RCVBUF'), ('SOL_SOCKET', 'SO_SNDBUF')}


def _name(d):
    for x in walk(d):
        if x[0] == 'const' and x[3]:
            return x[3].split('::')[-1]
    return D.render(d)


def rule_a(ctx):
    F = ctx.facts
    LEN = F.const_int('quinn_udp::cmsg::LEN')
    pm = ctx.ufn('prepare_msg')
    ss = ctx.ufn('gso::set_segment_size')
    w = {}
    for c in pm.calls():
        if c.is_('Encoder::push') and c.sz:
            w[c.bb] = cmsg_space(c.sz[-1])
        elif c.is_('gso::set_segment_size'):
            inner = [x for x in ss.calls() if x.is_('Encoder::push') and x.sz]
            w[c.bb] = sum(cmsg_space(x.sz[-1]) for x in inner)
    ctx.floor('a', 'control_message_push_sites', len(w), 4)
    # no weighted site in a loop
    loops = [bb for bb in w if bb in pm.reachable_strict(bb)]
    ctx.check(not loops, 'a', 'no_push_in_loop', pm, pm.where(), 'pushes are straight-line', 'a control message is pushed inside a loop: the control buffer bound no longer holds')
    # longest path (DAG over live blocks; cycles only through unweighted blocks are cut)
    import functools
    import sys as _s
    _s.setrecursionlimit(10000)
    onstack = set()

    @functools.lru_cache(maxsize=None)
    def best(bb):
        if bb in onstack:
            return 0
        onstack.add(bb)
        m = 0
        for s in pm.succ[bb]:
            m = max(m, best(s))
        onstack.discard(bb)
        return w.get(bb, 0) + m
    worst = best(0)
    ctx.check(worst <= LEN, 'a', 'send_control_buffer_bound', pm, pm.where(), 'max over paths of sum CMSG_SPACE = %d <= cmsg::LEN = %d' % (worst, LEN),
              'the control messages pushed on some path need %d bytes but cmsg::LEN is %d (Encoder::push would panic / overflow)' % (worst, LEN))
    # receive side
    ns = ctx.ufn('UdpSocketState::new')
    fam = {'v4': 0, 'v6': 0, 'mapped': 0}
    n = 0
    for c in ns.calls_to('set_socket_option', 'imp::set_socket_option', 'set_socket_option_supported'):
        lv, nm = _name(arg_desc(F, c, 1)), _name(arg_desc(F, c, 2))
        if (lv, nm) in RECV_OPTS:
            size, fams = RECV_OPTS[(lv, nm)]
            n += 1
            for f in fams:
                fam[f] += cmsg_space(size)
        elif (lv, nm) in NO_CMSG:
            continue
        else:
            ctx.bad('a', 'unclassified_receive_option', ns, c.where(), 'socket option (%s, %s) is enabled but not classified: does the kernel attach a control message for it on receive?' % (lv, nm))
    ctx.floor('a', 'receive_options', n, 5)
    worst_r = max(fam.values())
    ctx.check(worst_r <= LEN, 'a', 'recv_control_buffer_too_small', 'quinn_udp::cmsg::LEN', ns.where(), 'receive control messages need at most %d (v4 %d, v6 %d, v4-mapped %d) <= cmsg::LEN = %d' % (worst_r, fam['v4'], fam['v6'], fam['mapped'], LEN),
              'the control messages the kernel attaches to one received datagram need up to %d bytes (v4 %d, v6 %d, v4-mapped %d) but the buffer is cmsg::LEN = %d: trailing messages (ECN / GRO size) are truncated' % (worst_r, fam['v4'], fam['v6'], fam['mapped'], LEN))
    # Encoder::push itself checks the remaining space (assert) — keep it
    ep = [b for b in F.fns('Encoder::push') if b.crate == 'quinn_udp']
    ok = bool(ep) and any(any(D.has_call(br.desc, 'MsgHdr::control_len') for br in branches(F, b)) for b in ep)
    ctx.check(ok, 'a', 'encoder_checks_remaining_space', ep[0] if ep else 'Encoder::push', ep[0].where() if ep else '', 'assert!(control_len >= len + space)', 'Encoder::push no longer checks the remaining control space')


def rule_b(ctx):
    F = ctx.facts
    for fn in ('prepare_msg', 'prepare_recv'):
        b = ctx.ufn(fn)
        st = [(i, j, rv) for i, j, pl, rv, line in b.assigns() if any(isinstance(e, list) and e[0] == 'f' and e[1] == 'msg_controllen' for e in pl[1])]
        d = describer(F, b)
        ok = bool(st) and all(D.has_const(d.rvalue(rv, i, j, 0), named='LEN') for i, j, rv in st)
        ctx.check(ok, 'b', 'controllen_is_buffer_length_' + fn, b, b.where(), 'msg_controllen = cmsg::LEN', '%s announces a control length other than cmsg::LEN' % fn)
        ctrl = [l for l, (ty, nm) in enumerate(b.locals) if nm == 'ctrl']
        okc = bool(ctrl) and 'Aligned' in b.locals[ctrl[0]][0] and ('LEN' in b.locals[ctrl[0]][0] or str(F.const_int('quinn_udp::cmsg::LEN')) in b.locals[ctrl[0]][0])
        ctx.check(okc, 'b', 'control_buffer_type_' + fn, b, b.where(), b.locals[ctrl[0]][0] if ctrl else '', 'the control buffer of %s is not Aligned<[u8; LEN]>' % fn)
        mc = [(i, j, rv) for i, j, pl, rv, line in b.assigns() if any(isinstance(e, list) and e[0] == 'f' and e[1] == 'msg_control' for e in pl[1])]
        okp = bool(mc) and all(D.has_param(d.rvalue(rv, i, j, 0), name='ctrl') for i, j, rv in mc)
        ctx.check(okp, 'b', 'control_pointer_is_the_buffer_' + fn, b, b.where(), 'msg_control = ctrl.0.as_mut_ptr()', 'msg_control does not point at the control buffer')
        il = [(i, j, rv) for i, j, pl, rv, line in b.assigns() if any(isinstance(e, list) and e[0] == 'f' and e[1] == 'msg_iovlen' for e in pl[1])]
        ctx.check(bool(il) and all(D.has_const(d.rvalue(rv, i, j, 0), 1) for i, j, rv in il), 'b', 'single_iovec_' + fn, b, b.where(), 'msg_iovlen = 1', 'msg_iovlen is not 1')
    al = F.adt('cmsg::imp::Aligned') if [1 for p in F.adts if p.endswith('imp::Aligned')] else F.adt('Aligned')
    ctx.check(al['align'] >= 8, 'b', 'control_buffer_alignment', 'Aligned', '', 'repr(align(%d))' % al['align'], 'Aligned<T> alignment %d is below that of cmsghdr' % al['align'])


def rule_c(ctx):
    F = ctx.facts
    pm = ctx.ufn('prepare_msg')
    new = pm.calls_to('Encoder::new')
    fin = pm.calls_to('Encoder::finish')
    ok = bool(new) and bool(fin) and all(path_avoiding(pm, pm.succ[n.bb], pm.return_blocks(), {f.bb for f in fin}) is None for n in new)
    ctx.check(ok, 'c', 'encoder_always_finished', pm, pm.where(), 'Encoder::new is followed by finish() on every path', 'prepare_msg can return without finishing the control message encoder (msg_controllen stays LEN)')
    dr = [b for b in F.fns('<Encoder as Drop>::drop') if b.crate == 'quinn_udp']
    ctx.check(bool(dr) and any(c.is_('MsgHdr::set_control_len') for b in dr for c in b.calls()), 'c', 'finish_sets_control_len', dr[0] if dr else 'Encoder', dr[0].where() if dr else '', 'Drop sets msg_controllen = len', 'finishing the encoder no longer records the used control length')
    dec = ctx.ufn('ControlMetadata::decode')
    table = {'IP_TOS': 'u8', 'IP_RECVTOS': 'u8', 'IPV6_TCLASS': 'i32', 'IP_PKTINFO': 'libc::in_pktinfo', 'IPV6_PKTINFO': 'libc::in6_pktinfo', 'UDP_GRO': 'i32', 'SCM_TIMESTAMPNS': 'libc::timespec'}
    calls = dec.calls_to('cmsg::decode')
    tys = sorted({c.ga[0] for c in calls})
    ctx.check(set(tys) >= {'u8', 'i32', 'libc::in_pktinfo', 'libc::in6_pktinfo', 'libc::timespec'}, 'c', 'decode_types', dec, dec.where(), str(tys), 'cmsg::decode is used with an unexpected set of payload types: %s' % tys)
    ctx.floor('c', 'decode_sites', len(calls), 6)
    # each decode::<T> arm is selected by (level, type): the GRO arm decodes c_int into stride
    st = [(i, j, rv) for i, j, pl, rv, line in dec.assigns() if any(isinstance(e, list) and e[0] == 'f' and e[1] == 'stride' for e in pl[1])]
    d = describer(F, dec)
    ok = bool(st) and all(any(x[0] == 'call' and x[1].endswith('decode') for x in walk(d.rvalue(rv, i, j, 0))) for i, j, rv in st)
    ctx.check(ok, 'c', 'stride_from_gro_message', dec, dec.where(), 'stride = decode::<c_int>(UDP_GRO cmsg)', 'stride is not taken from the UDP_GRO control message')
    eb = [(i, j, rv) for i, j, pl, rv, line in dec.assigns() if any(isinstance(e, list) and e[0] == 'f' and e[1] == 'ecn_bits' for e in pl[1])]
    ctx.check(len(eb) >= 3, 'c', 'ecn_bits_from_tos_messages', dec, dec.where(), '%d ecn_bits stores (IP_TOS, IP_RECVTOS, IPV6_TCLASS)' % len(eb), 'an ECN-carrying control message is no longer decoded')


def rule_d(ctx):
    F = ctx.facts
    ef = [b for b in F.fns('Transmit::effective_segment_size') if b.crate == 'quinn_udp']
    ok = False
    for b in ef:
        for br in branches(F, b):
            rel = relation_on(br.desc, True)
            if rel and rel[0] in ('Lt', 'Le') and (D.has_field(rel[1], 'contents') or D.has_field(rel[2], 'contents') or 'len' in D.render(br.desc)):
                ok = True
    ctx.check(ok, 'd', 'no_segmentation_for_single_segment', ef[0] if ef else 'Transmit', ef[0].where() if ef else '', 'None when segment_size >= contents.len()', 'effective_segment_size no longer suppresses segmentation for single-segment transmits')
    pm = ctx.ufn('prepare_msg')
    seg = pm.calls_to('gso::set_segment_size')
    ctx.floor('d', 'segment_size_sites', len(seg), 1)
    for c in seg:
        es = [br for br in branches(F, pm) if br.desc[0] == 'discr' and D.has_call(br.desc, 'Transmit::effective_segment_size') and pm.dominates(br.bb, c.bb)]
        ev = [br for br in branches(F, pm) if D.has_param(br.desc, name='sendmsg_einval') and pm.dominates(br.bb, c.bb) and any(c.bb not in pm.reachable_from(t, avoid=[br.bb]) for _, t in br.edges)]
        ctx.check(bool(es), 'd', 'segment_size_pushed_iff_effective', pm, c.where(), 'if let Some(segment_size) = effective_segment_size()', 'UDP_SEGMENT is not tied to effective_segment_size()')
        ctx.check(not ev, 'd', 'segmentation_independent_of_einval_fallback', pm, c.where(), 'not conditioned on sendmsg_einval',
                  'UDP_SEGMENT is omitted in the EINVAL fallback mode: a multi-segment transmit sent (or retried) after a sendmsg failure goes out as one merged datagram')
        a = arg_desc(F, c, 1)
        ctx.check(D.has_call(a, 'Transmit::effective_segment_size'), 'd', 'segment_size_value', pm, c.where(), D.render(a)[:80], 'the segment size pushed is not the transmits effective segment size')
    # ECN pushed from transmit.ecn; in_pktinfo literal
    d = describer(F, pm)
    ecn = [c for c in pm.calls_to('Encoder::push') if any(x[0] == 'call' and x[1] == 'Option::map_or' for x in walk(arg_desc(F, c, 3))) or D.has_field(arg_desc(F, c, 3), 'ecn')]
    ctx.check(len(ecn) >= 2, 'd', 'ecn_conveyed_v4_and_v6', pm, pm.where(), '%d ECN pushes (IP_TOS, IPV6_TCLASS)' % len(ecn), 'the ECN codepoint is no longer conveyed for both address families')
    pk = [c for c in constructions(F, 'libc::in_pktinfo', 'in_pktinfo', crate='quinn_udp') if c.body.id == pm.id]
    ctx.floor('d', 'in_pktinfo_literals', len(pk), 1)
    for c in pk:
        sd = d.operand(c.field_op('ipi_spec_dst'), c.bb, c.idx)
        ad = d.operand(c.field_op('ipi_addr'), c.bb, c.idx)
        ok = ('octets' in D.render(sd) or D.has_call(sd, 'Ipv4Addr::octets')) and not ('octets' in D.render(ad))
        ctx.check(ok, 'd', 'ipv4_source_in_spec_dst', pm, c.where(), 'ipi_spec_dst = src_ip, ipi_addr = 0', 'the explicit IPv4 source address is not placed in ipi_spec_dst (the kernel ignores ipi_addr on send): %s / %s' % (D.render(sd)[:60], D.render(ad)[:60]))
    pk6 = [c for c in constructions(F, 'libc::in6_pktinfo', 'in6_pktinfo', crate='quinn_udp') if c.body.id == pm.id]
    for c in pk6:
        ad = d.operand(c.field_op('ipi6_addr'), c.bb, c.idx)
        ctx.check('octets' in D.render(ad), 'd', 'ipv6_source_in_pktinfo', pm, c.where(), 'ipi6_addr = src_ip', 'the explicit IPv6 source address is not conveyed')
    dr = ctx.ufn('decode_recv')
    cm = [c for c in constructions(F, 'ControlMetadata', 'ControlMetadata', crate='quinn_udp') if c.body.id == dr.id]
    dd = describer(F, dr)
    ok = bool(cm) and all(D.has_param(dd.operand(c.field_op('stride'), c.bb, c.idx), name='len') for c in cm)
    ctx.check(ok, 'd', 'stride_defaults_to_len', dr, dr.where(), 'stride: len', 'the receive stride no longer defaults to the datagram length')
    rm = [c for c in constructions(F, 'RecvMeta', 'RecvMeta', crate='quinn_udp') if c.body.id == dr.id]
    ok = bool(rm) and all(D.has_param(dd.operand(c.field_op('len'), c.bb, c.idx), name='len') and D.has_field(dd.operand(c.field_op('stride'), c.bb, c.idx), 'stride') and D.has_field(dd.operand(c.field_op('ecn'), c.bb, c.idx), 'ecn_bits') for c in rm)
    ctx.check(ok, 'd', 'recv_meta_fields', dr, dr.where(), 'len, stride, ecn from the decoded control data', 'RecvMeta fields no longer come from the syscall length / decoded control messages')


def rule_e(ctx):
    F = ctx.facts
    sn = [b for b in F.fns('imp::send') if b.crate == 'quinn_udp' and b.kind == 'fn']
    if not ctx.check(len(sn) == 1, 'e', 'send_fn', 'quinn_udp::imp::send', '', 'found', 'send() not found (%d)' % len(sn)):
        return
    sn = sn[0]
    sm = sn.calls_to('libc::sendmsg', 'sendmsg')
    pm = sn.calls_to('prepare_msg')
    se = sn.calls_to('UdpSocketState::set_sendmsg_einval')
    ctx.check(len(pm) == 2 and bool(sm) and bool(se), 'e', 'fallback_shape', sn, sn.where(), 'prepare_msg x2, sendmsg, set_sendmsg_einval', 'the EINVAL/EIO fallback structure of send() changed')
    for c in pm:
        a0 = arg_desc(F, c, 0)
        ctx.check(a0[0] == 'param' and D.has_param(a0, name='transmit'), 'e', 'message_built_from_the_callers_transmit', sn, c.where(), 'prepare_msg(transmit, ..)',
                  'prepare_msg is given a rewritten Transmit (%s): the retry may drop segment_size / ECN / src_ip of the datagram being sent' % D.render(a0)[:100])
    for s in se:
        # after setting the flag: prepare_msg again and reach sendmsg again without passing an Err return
        errs = {c.bb for c in constructions(F, 'Result', 'Err', crate='quinn_udp') if c.body.id == sn.id}
        p1 = [x for x in pm if sn.dominates(s.bb, x.bb)]
        ok = bool(p1) and all(path_avoiding(sn, p.succ if False else sn.succ[p.bb], {m.bb for m in sm}, errs) is not None for p in p1)
        ok = ok and all(path_avoiding(sn, sn.succ[s.bb], sn.return_blocks(), {x.bb for x in p1}) is None for _ in [0])
        ctx.check(ok, 'e', 'first_einval_retries_without_offload_metadata', sn, s.where(), 'set flag -> prepare_msg -> continue -> sendmsg', 'after the first EINVAL/EIO the message is not re-prepared and retried (the datagram would be lost)')
    gs = [c for c in sn.calls() if short(c.f).endswith('::store') and D.has_field(arg_desc(F, c, 0), 'max_gso_segments')]
    ctx.check(bool(gs) and all(D.has_const(arg_desc(F, c, 1), 1) for c in gs), 'e', 'offload_halted_on_error', sn, sn.where(), 'max_gso_segments.store(1)', 'GSO is not switched off after EIO/EINVAL')
    kinds = {n_[2].split('::')[-1] for br in branches(F, sn) for n_ in walk(br.desc) if False}
    wb = [c for c in sn.calls() if c.is_('io::Error::kind', 'Error::kind')]
    ctx.check(bool(wb), 'e', 'error_kind_dispatch', sn, sn.where(), 'match e.kind() {Interrupted, WouldBlock, _}', 'send() no longer dispatches on the error kind')


def rule_f(ctx):
    F = ctx.facts
    ps = ctx.qfn('RecvState::poll_socket')
    st = [c for c in ps.calls_to('BytesMut::split_to')]
    ctx.floor('f', 'split_sites', len(st), 2)
    ok_len = any(D.has_field(arg_desc(F, c, 1), 'len') and not D.has_field(arg_desc(F, c, 1), 'stride') for c in st)
    ok_str = any(D.has_field(arg_desc(F, c, 1), 'stride') and (D.has_call(arg_desc(F, c, 1), 'Ord::min') or D.has_call(arg_desc(F, c, 1), 'usize::min')) for c in st)
    ctx.check(ok_len and ok_str, 'f', 'batch_split_by_len_then_stride', ps, ps.where(), 'datagrams.split_to(meta.len); data.split_to(min(meta.stride, data.len()))', 'received batches are no longer split by meta.len and then meta.stride')
    h = ps.calls_to('quinn_proto::Endpoint::handle')
    for c in h:
        ok = D.has_field(arg_desc(F, c, 2), 'addr') and D.has_field(arg_desc(F, c, 3), 'dst_ip') and D.has_field(arg_desc(F, c, 4), 'ecn') and any(contains_site(arg_desc(F, c, 5), s) for s in st)
        ctx.check(ok, 'f', 'piece_handed_with_its_metadata', ps, c.where(), 'handle(now, meta.addr, meta.dst_ip, meta.ecn, piece, ..)', 'a received piece is handed to the protocol with metadata that is not its own')
    ut = ctx.qfn('quinn::udp_transmit') if F.try_fn('quinn::udp_transmit', 'quinn') else ctx.qfn('udp_transmit')
    cons = [c for c in constructions(F, 'quinn_udp::Transmit', 'Transmit', crate='quinn') if c.body.id == ut.id]
    d = describer(F, ut)
    ok = bool(cons)
    for c in cons:
        for fld in ('destination', 'segment_size', 'src_ip'):
            v = d.operand(c.field_op(fld), c.bb, c.idx)
            if not D.has_field(v, fld):
                ok = False
        if not D.has_field(d.operand(c.field_op('ecn'), c.bb, c.idx), 'ecn'):
            ok = False
        if not D.has_param(d.operand(c.field_op('contents'), c.bb, c.idx), name='buffer'):
            ok = False
    ctx.check(ok, 'f', 'transmit_converted_field_for_field', ut, ut.where(), 'destination, ecn, contents, segment_size, src_ip copied', 'udp_transmit no longer copies every Transmit field')


def run(ctx):
    rule_a(ctx)
    rule_b(ctx)
    rule_c(ctx)
    rule_d(ctx)
    rule_e(ctx)
    rule_f(ctx)
    ctx.assume('Linux x86-64 only: cfg(windows) / apple / bsd code paths are not compiled and therefore not analysed')
