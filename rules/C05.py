"""C05 — a sender never exceeds the limits its peer advertised (structural part)."""
from engine.rulelib import *
from engine import desc as D

EXPLANATION = ("Static rules over quinn-proto MIR: (a) StreamsState::write_limit is min(max_data - data_sent, send_window (-) unacked_data); "
               "(b) Send::write caps what it takes from the source at min(limit, max_data - offset) and only appends chunks popped under that cap; "
               "write_source passes write_limit() and adds exactly the written byte count to data_sent and unacked_data; (c) Streams::open returns None "
               "(and flags streams_blocked) on next >= max and increments next only on the other edge; (d) limit fields only grow except at "
               "(re)initialisation: max_data via max(old,n), Send.max_data only under offset > max_data, max[dir] only under count > current or by plain "
               "assignment of the transport parameter in set_params; (e) who-may-write tables for data_sent / unacked_data / send_window / max_data / max; "
               "(f) STREAM frames are produced only by write_stream_frames from SendBuffer contents. The numeric inequality over histories is NOT decided.")
RULE = "rule instances = (rule, site) pairs over MIR stores / branches / call sites; non-trivial = bound to at least one real site"

SS = 'StreamsState'


def rule_a(ctx):
    F = ctx.facts
    wl = ctx.pfn('StreamsState::write_limit')
    rd = ret_descs(F, wl)
    ok = False
    why = ''
    for _, x in rd:
        why = D.render(x)
        if x[0] == 'call' and x[1] in ('Ord::min', 'u64::min', 'cmp::min') and len(x[3]) == 2:
            a, b = x[3]
            if not (D.has_field(a, 'max_data') and D.has_field(a, 'data_sent')):
                a, b = b, a
            ok1 = a[0] == 'bin' and a[1] == 'Sub' and D.has_field(a[2], 'max_data') and D.has_field(a[3], 'data_sent')
            ok2 = b[0] == 'call' and b[1] == 'u64::saturating_sub' and D.has_field(b[3][0], 'send_window') and D.has_field(b[3][1], 'unacked_data')
            ok = ok1 and ok2
    ctx.check(ok and len(rd) == 1, 'a', 'write_limit_expression', wl, wl.where(), why, 'write_limit() is no longer min(max_data - data_sent, send_window.saturating_sub(unacked_data)): ' + why)


def rule_b(ctx):
    F = ctx.facts
    w = ctx.pfn('Send::write')
    d = describer(F, w)
    pops = w.calls_to('BytesSource::pop_chunk')
    ctx.floor('b', 'pop_chunk_sites', len(pops), 1)
    for c in pops:
        lim = arg_desc(F, c, 1)
        # every reaching value of `limit` is min(limit_param, max_data - offset), minus the lengths of chunks already popped
        ok, why = _capped(lim)
        ctx.check(ok, 'b', 'pop_limit_is_min_of_budget', w, c.where(), D.render(lim)[:200],
                  'the limit handed to pop_chunk is not min(limit, max_data - offset) [minus popped lengths] on every path: %s in %s' % (why, D.render(lim)[:300]))
        # the loop must lower the cap by the popped chunk's length before the next pop
        decs = []
        for l, (ty, nm) in enumerate(w.locals):
            if nm != 'limit' or l <= w.argc:
                continue
            for df in w.defs_of(l):
                if df[0] == 'stmt':
                    v = d.rvalue(df[3], df[1], df[2], 0)
                    if v[0] == 'bin' and v[1] == 'Sub' and D.has_call(v[3], 'BytesSource::pop_chunk') and D.has_call(v[3], 'Bytes::len'):
                        decs.append(df[1])
        p = path_avoiding(w, w.succ[c.bb], [c.bb], decs)
        ctx.check(bool(decs) and p is None, 'b', 'pop_limit_decremented_in_loop', w, c.where(), 'every path back to pop_chunk passes `limit -= chunk.len()`',
                  'a loop path returns to pop_chunk without lowering the cap by the popped length: %s' % (fmt_path(w, p) if p else 'no decrement found'))
    # only append: SendBuffer::write(chunk) with chunk from pop_chunk
    sw = w.calls_to('SendBuffer::write')
    ctx.floor('b', 'sendbuffer_write_sites', len(sw), 1)
    for c in sw:
        a = arg_desc(F, c, 1)
        ctx.check(D.has_call(a, 'BytesSource::pop_chunk'), 'b', 'appended_chunk_from_capped_pop', w, c.where(), D.render(a)[:120],
                  'SendBuffer::write argument does not derive from the capped pop_chunk: ' + D.render(a)[:200])
    who_may_call(ctx, 'b', 'sendbuffer_write_callers', ['SendBuffer::write'], ['Send::write'], floor=1)
    # budget==0 -> Blocked before any pop
    guard_error(ctx, 'b', 'zero_budget_blocks', w, lambda op, a, b: op == 'Eq' and ((D.has_field(a, 'max_data') and D.has_const(b, 0)) or (D.has_field(b, 'max_data') and D.has_const(a, 0))),
                variant=('WriteError', 'Blocked'), protect=[c.bb for c in pops], what='budget == 0')
    # write_source
    ws = ctx.pfn('SendStream::write_source')
    cs = ws.calls_to('Send::write')
    ctx.floor('b', 'send_write_sites', len(cs), 1)
    for c in cs:
        a = arg_desc(F, c, 2)
        ctx.check(D.has_call(a, 'StreamsState::write_limit') and a[0] == 'call', 'b', 'write_source_passes_write_limit', ws, c.where(), D.render(a),
                  'Send::write is not given write_limit() as its limit: ' + D.render(a))
    who_may_call(ctx, 'b', 'send_write_callers', ['Send::write'], ['SendStream::write_source'], floor=1)
    for fld in ('data_sent', 'unacked_data'):
        st = [(x, v) for x, v in store_values(ctx, SS, fld, in_fn=ws)]
        ok = len(st) == 1 and st[0][1][0] == 'bin' and st[0][1][1] == 'Add' and D.has_field(st[0][1], fld) and D.has_field(st[0][1], 'bytes') and D.has_call(st[0][1], 'Send::write')
        ctx.check(ok, 'b', 'write_source_accounts_' + fld, ws, st[0][0].where() if st else ws.where(), D.render(st[0][1])[:160] if st else 'no store',
                  '%s is not incremented by exactly the written byte count in write_source' % fld)
    # limit == 0 -> Blocked before Send::write
    guard_error(ctx, 'b', 'zero_write_limit_blocks', ws, lambda op, a, b: op == 'Eq' and ((D.has_call(a, 'StreamsState::write_limit') and D.has_const(b, 0)) or (D.has_call(b, 'StreamsState::write_limit') and D.has_const(a, 0))),
                variant=('WriteError', 'Blocked'), protect=[c.bb for c in cs], what='write_limit() == 0')


def _capped(d):
    """structural: min(limit, max_data - offset) | capped - len(popped chunk) | loop-carried reference | phi of those"""
    if d[0] == 'phi':
        for x in d[1]:
            ok, why = _capped(x)
            if not ok:
                return False, why
        return True, ''
    if d[0] == 'call' and d[1] in ('Ord::min', 'u64::min', 'cmp::min') and len(d[3]) == 2:
        a, b = d[3]
        if a[0] != 'param':
            a, b = b, a
        ok = a[0] == 'param' and D.has_param(a, name='limit') and b[0] == 'bin' and b[1] == 'Sub' and D.has_field(b[2], 'max_data') and D.has_call(b[3], 'SendBuffer::offset')
        return ok, '' if ok else D.render(d)[:120]
    if d[0] == 'bin' and d[1] == 'Sub':
        if not (D.has_call(d[3], 'BytesSource::pop_chunk') and D.has_call(d[3], 'Bytes::len')):
            return False, D.render(d)[:120]
        return _capped(d[2])
    if d[0] in ('local', 'field', 'index') and not D.has_param(d) and not D.calls_in(d):
        return True, ''   # loop-carried reference to the cap itself (checked-sub result)
    return False, D.render(d)[:120]


def _has_raw_alternative(d):
    """a phi alternative that is just the parameter (uncapped)"""
    if d[0] == 'phi':
        return any(_has_raw_alternative(x) for x in d[1])
    if d[0] == 'param':
        return True
    if d[0] == 'bin' and d[1] == 'Sub':
        return _has_raw_alternative(d[2])
    return False


def rule_c(ctx):
    F = ctx.facts
    op = ctx.pfn('Streams::open')
    nexts = [(w, v) for w, v in store_values(ctx, SS, 'next', in_fn=op)]
    inserts = [c.bb for c in op.calls_to('StreamsState::insert')]
    protect = [w.bb for w, v in nexts] + inserts

    def rel(o, a, b):
        # violating: max <= next
        return o == 'Le' and D.has_field(a, 'max') and D.has_field(b, 'next')
    edges = guard_error(ctx, 'c', 'open_refused_at_limit', op, rel, variant=('Option', 'None'), protect=protect, what='next >= max')
    guard_protects(ctx, 'c', 'open_increments_only_below_limit', op, rel, protect, what='next >= max')
    for w, v in nexts:
        ok = v[0] == 'bin' and v[1] == 'Add' and D.has_field(v, 'next') and D.has_const(v, 1)
        ctx.check(ok, 'c', 'next_incremented_by_one', op, w.where(), D.render(v), 'next[dir] store in open() is not next+1: ' + D.render(v))
    ctx.floor('c', 'next_stores_in_open', len(nexts), 1)
    # streams_blocked flagged on the refusing edge
    sb = [w for w in field_writes(F, SS, 'streams_blocked', crate='quinn_proto') if F.root_of(w.body).id == op.id and w.kind == 'assign']
    ctx.check(bool(sb) and bool(edges) and all(w.bb in op.reachable_from(t) for w in sb for _, _, t in edges), 'c', 'streams_blocked_set_on_refusal', op, op.where(),
              'streams_blocked[dir] = true on the refusing edge', 'open() no longer records streams_blocked when refusing')


def rule_d(ctx):
    F = ctx.facts
    # StreamsState.max_data: only max(old, n) or constructor literal
    for w, v in store_values(ctx, SS, 'max_data'):
        r = F.root_of(w.body)
        ok = v[0] == 'call' and v[1] in ('Ord::max', 'u64::max', 'cmp::max') and D.has_field(v, 'max_data')
        if r.short == 'StreamsState::zero_rtt_rejected':
            # (re)initialisation: the limit remembered from the previous session is void once 0-RTT is rejected
            ok = v[0] == 'const' and str(v[2]) == '0'
        ctx.check(ok, 'd', 'conn_max_data_monotone', r, w.where(), D.render(v)[:120],
                  'StreamsState.max_data stored with a non-monotone value (expected max(old, n)): ' + D.render(v)[:200])
    who_may_write(ctx, 'd', 'conn_max_data_writers', SS, 'max_data', ['StreamsState::received_max_data', 'StreamsState::new', 'StreamsState::zero_rtt_rejected'], floor=1, kinds=('assign', 'callresult', 'mutborrow'))
    who_may_call(ctx, 'd', 'received_max_data_callers', ['StreamsState::received_max_data'], ['StreamsState::set_params', 'Connection::process_payload'], floor=2)
    # Send.max_data
    imd = ctx.pfn('Send::increase_max_data')
    stores = store_values(ctx, 'send::Send', 'max_data')
    for w, v in stores:
        r = F.root_of(w.body)
        if r.id == imd.id:
            def rel(o, a, b):
                # violating: offset <= max_data
                return o == 'Le' and D.has_param(a, name='offset') and D.has_field(b, 'max_data')
            guard_protects(ctx, 'd', 'stream_max_data_only_grows', imd, rel, [w.bb], what='offset <= max_data')
            ctx.check(D.has_param(v, name='offset'), 'd', 'stream_max_data_value', imd, w.where(), D.render(v), 'stored value is not the offset parameter')
        elif r.short == 'StreamsState::set_params':
            ok = D.has_field(v, 'initial_max_stream_data_bidi_local') and v[0] != 'phi'
            ctx.check(ok, 'd', 'stream_max_data_from_params', r, w.where(), D.render(v)[:120], 'set_params stores a value other than the transport parameter: ' + D.render(v)[:200])
        else:
            ctx.bad('d', 'stream_max_data_writers/unexpected_writer', r, w.where(), 'unexpected store to Send.max_data in %s' % r.short)
    ctx.floor('d', 'send_max_data_stores', len(stores), 2)
    # Send::new literal max_data from the parameter
    cons = constructions(F, 'send::Send', 'Send')
    for c in cons:
        r = F.root_of(c.body)
        ctx.check(r.short == 'Send::new', 'd', 'send_constructed_in_new', r, c.where(), 'Send{..} built in Send::new', 'Send{..} literal outside Send::new')
    # max[dir]
    rms = ctx.pfn('StreamsState::received_max_streams')
    sp = ctx.pfn('StreamsState::set_params')
    stores = store_values(ctx, SS, 'max')
    seen_sp = 0
    seen_rms = 0
    for w, v in stores:
        r = F.root_of(w.body)
        if r.id == rms.id:
            seen_rms += 1

            def rel(o, a, b):
                # violating: count <= current
                return o == 'Le' and D.has_param(a, name='count') and D.has_field(b, 'max')
            guard_protects(ctx, 'd', 'stream_count_limit_only_grows', rms, rel, [w.bb], what='count <= current')
            ctx.check(v[0] == 'param' and D.has_param(v, name='count'), 'd', 'stream_count_limit_value', rms, w.where(), D.render(v),
                      'received_max_streams stores something other than the received count: ' + D.render(v)[:160])
        elif r.id == sp.id:
            seen_sp += 1
            ok = v[0] != 'phi' and not D.has_field(v, 'max') and (D.has_field(v, 'initial_max_streams_bidi') or D.has_field(v, 'initial_max_streams_uni')) and not D.calls_in(v) - {'VarInt::into_inner', '<VarInt as Into>::into', '<u64 as From>::from'}
            ctx.check(ok, 'd', 'stream_count_limit_reset_from_params', sp, w.where(), D.render(v)[:120],
                      'set_params must (re)initialise max[dir] with the transport parameter itself (limits restart after 0-RTT rejection), found: ' + D.render(v)[:200])
        elif r.short == 'StreamsState::new':
            ctx.ok('d', 'stream_count_limit_ctor', r, w.where(), '')
        else:
            ctx.bad('d', 'stream_count_limit_writers/unexpected_writer', r, w.where(), 'unexpected store to StreamsState.max in %s' % r.short)
    # mutable borrows of max (e.g. `let current = &mut self.max[..]`) only in received_max_streams
    who_may_write(ctx, 'd', 'stream_count_limit_writers', SS, 'max', ['StreamsState::received_max_streams', 'StreamsState::set_params', 'StreamsState::new'], kinds=('mutborrow', 'assign'))
    ctx.floor('d', 'set_params_max_stores', seen_sp, 2)
    ctx.floor('d', 'received_max_streams_stores', seen_rms, 1)


def rule_e(ctx):
    who_may_write(ctx, 'e', 'data_sent_writers', SS, 'data_sent', ['SendStream::write_source', 'StreamsState::zero_rtt_rejected', 'StreamsState::new'], floor=2,
                  why='data_sent is the connection-level flow-control consumption; it is only raised by accepted writes and zeroed on 0-RTT rejection')
    who_may_write(ctx, 'e', 'unacked_data_writers', SS, 'unacked_data', ['SendStream::write_source', 'StreamsState::received_ack_of', 'SendStream::reset', 'StreamsState::zero_rtt_rejected', 'StreamsState::new'], floor=4)
    who_may_write(ctx, 'e', 'send_window_writers', SS, 'send_window', ['StreamsState::set_send_window', 'StreamsState::new'], floor=1)
    F = ctx.facts
    # stores that lower data_sent other than the zeroing in zero_rtt_rejected are forbidden
    for w, v in store_values(ctx, SS, 'data_sent'):
        r = F.root_of(w.body)
        if r.short == 'StreamsState::zero_rtt_rejected':
            ctx.check(D.has_const(v, 0) and v[0] == 'const', 'e', 'data_sent_zeroed_on_rejection', r, w.where(), '= 0', 'unexpected value')
        elif r.short == 'SendStream::write_source':
            ctx.check(v[0] == 'bin' and v[1] == 'Add', 'e', 'data_sent_only_increases', r, w.where(), D.render(v)[:100], 'data_sent store is not an addition: ' + D.render(v)[:200])
    # unacked_data -= only the acked range length / the unacked remainder of a reset stream
    for w, v in store_values(ctx, SS, 'unacked_data'):
        r = F.root_of(w.body)
        if r.short == 'StreamsState::received_ack_of':
            ok = v[0] == 'bin' and v[1] == 'Sub' and D.has_field(v[3], 'offsets')
            ctx.check(ok, 'e', 'ack_releases_acked_range', r, w.where(), D.render(v)[:140], 'unexpected release expression: ' + D.render(v)[:200])
        elif r.short == 'SendStream::reset':
            ok = v[0] == 'bin' and v[1] == 'Sub' and D.has_call(v[3], 'SendBuffer::unacked')
            ctx.check(ok, 'e', 'reset_releases_unacked_remainder', r, w.where(), D.render(v)[:140], 'unexpected release expression: ' + D.render(v)[:200])


def rule_g(ctx):
    """SendBuffer::unacked() = buffered-but-unacknowledged length minus ranges acknowledged out of order; reset() refunds
    exactly this (the out-of-order acked ranges were already refunded by received_ack_of)."""
    F = ctx.facts
    un = ctx.pfn('SendBuffer::unacked')
    rd = [x for _, x in ret_descs(F, un)]
    ok = len(rd) == 1 and rd[0][0] == 'bin' and rd[0][1] == 'Sub' and D.has_field(rd[0][2], 'unacked_len') and not D.calls_in(rd[0][2]) - {'<u64 as From>::from'} \
        and D.has_field(rd[0][3], 'acks') and D.has_call(rd[0][3], 'Iterator::sum')
    ctx.check(ok, 'g', 'unacked_excludes_acked_ranges', un, un.where(), D.render(rd[0])[:160] if rd else '-',
              'SendBuffer::unacked() is no longer unacked_len - sum(len of out-of-order acked ranges): ' + (D.render(rd[0])[:200] if rd else 'no return'))
    cl = [b for b in F.code_bodies('quinn_proto') if b.kind == 'closure' and F.root_of(b).id == un.id]
    okc = any(x[0] == 'bin' and x[1] == 'Sub' and D.has_field(x[2], 'end') and D.has_field(x[3], 'start') for b in cl for _, x in ret_descs(F, b))
    ctx.check(okc, 'g', 'acked_range_length', un, un.where(), '|x| x.end - x.start', 'the summed quantity is not the range length end - start')
    who_may_call(ctx, 'g', 'unacked_callers', ['SendBuffer::unacked'], ['SendStream::reset'], floor=1)


def rule_f(ctx):
    F = ctx.facts
    # StreamMeta::encode (STREAM frame header) only from write_stream_frames; data appended from SendBuffer::get over the polled range
    who_may_call(ctx, 'f', 'stream_frame_encoder_callers', ['StreamMeta::encode'], ['StreamsState::write_stream_frames'], floor=1)
    wsf = ctx.pfn('StreamsState::write_stream_frames')
    gets = wsf.calls_to('SendBuffer::get')
    polls = wsf.calls_to('SendBuffer::poll_transmit')
    ctx.floor('f', 'poll_transmit_sites', len(polls), 1)
    for c in gets:
        a = arg_desc(F, c, 1)
        ctx.check(D.has_call(a, 'SendBuffer::poll_transmit'), 'f', 'frame_bytes_from_polled_range', wsf, c.where(), D.render(a)[:160],
                  'SendBuffer::get range does not derive from SendBuffer::poll_transmit: ' + D.render(a)[:200])
    ctx.floor('f', 'get_sites', len(gets), 1)
    puts = [c for c in wsf.calls_to('BufMut::put_slice')]
    for c in puts:
        a = arg_desc(F, c, 1)
        ctx.check(D.has_call(a, 'SendBuffer::get'), 'f', 'payload_from_send_buffer', wsf, c.where(), D.render(a)[:100], 'STREAM payload not taken from SendBuffer::get')
    ctx.floor('f', 'put_slice_sites', len(puts), 1)
    # the meta pushed to the result carries the polled offsets
    pushes = [c for c in wsf.calls() if c.is_('TinyVec::push', 'StreamMetaVec::push', 'Vec::push') or short(c.f).endswith('::push')]
    okp = any(D.has_call(arg_desc(F, c, 1), 'SendBuffer::poll_transmit') for c in pushes)
    ctx.check(okp, 'f', 'recorded_meta_matches_sent_range', wsf, wsf.where(), 'stream_frames.push(meta) with meta.offsets from poll_transmit', 'the StreamMeta recorded for ack/loss does not carry the polled range')
    who_may_call(ctx, 'f', 'write_stream_frames_callers', ['StreamsState::write_stream_frames'], ['Connection::populate_packet'], floor=1)


def run(ctx):
    rule_g(ctx)
    rule_a(ctx)
    rule_b(ctx)
    rule_c(ctx)
    rule_d(ctx)
    rule_e(ctx)
    rule_f(ctx)
