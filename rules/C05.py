"""C05 — a sender never exceeds the limits its peer advertised (structural part)."""
from engine.rulelib import *
from engine import desc as D

EXPLANATION = ("Static rules over quinn-proto MIR: (a) StreamsState::write_limit is min(max_data - data_sent, send_window (-) unacked_data); "
               "(b) Send::write caps what it takes from the source at min(limit, max_data - offset) and only appends chunks popped under that cap; "
               "write_source passes write_limit() and adds exactly the written byte count to data_sent and unacked_data; (c) Streams::open returns None "
               "(and flags streams_blocked) on next >= max and increments next only on the other edge; (d) limit fields only grow except at "
               "(re)initialisation: max_data via max(old,n), Send.max_data only under offset > max_data, max[dir] only under count > current or by plain "
               "assignment of the transport parameter in set_params; (e) who-may-write tables for data_sent / unacked_data / send_window / max_data / max; "
               "(f) STREAM frames are produced only by write_stream_frames from SendBuffer contents. The numeric inequality over histories is NOT decided.")
RULE = "rule instances = (rule, site) pairs over MIR stores / branches / call sites; non-trivial = bound to at least one real site"

SS = 'StreamsState'


# value conversions that do not change the number: VarInt <-> u64 (Into/From are already transparent in descriptors)
_CONV = ('VarInt::into_inner', '<VarInt as Into>::into', '<u64 as From>::from', 'VarInt::from_u32', 'u64::from')


def _unconv(v):
    """peel number-preserving conversion calls off the root of a descriptor"""
    while v[0] == 'call' and (v[1] in _CONV or D._trait_form(v[1]) in _CONV) and len(v[3]) == 1:
        v = v[3][0]
    return v


def _is_param(v, name):
    """the value IS the parameter `name` (modulo VarInt/u64 conversion), not something computed from it"""
    v = _unconv(v)
    return v[0] == 'param' and v[2] == name


def _is_param_field(v, pname, fname):
    """the value IS `<param pname>.<fname>` (modulo VarInt/u64 conversion)"""
    v = _unconv(v)
    return v[0] == 'field' and v[2] == fname and v[1][0] == 'param' and v[1][2] == pname


def _is_field_of_self(v, fname):
    """`self.<fname>` or `self.<..>.<fname>`: a plain field path rooted at the receiver"""
    if not (v[0] == 'field' and v[2] == fname):
        return False
    x = v[1]
    while x[0] == 'field':
        x = x[1]
    return x[0] == 'param' and x[1] == 1


def _is_call_to(v, name, bbs=None):
    return v[0] == 'call' and (v[1] == name or D._trait_form(v[1]) == name) and (bbs is None or (len(v) > 4 and v[4] in bbs))


def _agg_field(v, name):
    """operand descriptor of field `name` of an ADT aggregate descriptor, else None"""
    if v[0] == 'agg' and v[1] == 'adt' and len(v) > 4 and name in v[4]:
        return v[3][v[4].index(name)]
    return None


def _is_slice_len_of_get(v, get_bbs):
    return v[0] == 'call' and v[1].rsplit('::', 1)[-1] == 'len' and len(v[3]) == 1 and _is_call_to(v[3][0], 'SendBuffer::get', get_bbs)


def _cursor_start(v, P, get_bbs, depth=0):
    """start of the copy cursor: the polled range's start, advanced only by the lengths of the slices SendBuffer::get
    returned (`start += data.len()`), on every reaching definition"""
    if depth > 8:
        return False
    for x in flat(v):
        if x == ('field', P, 'start'):
            continue
        if x[0] in ('local', 'field') and not D.calls_in(x) and not D.has_param(x) and not D.consts_in(x):
            continue    # loop-carried reference to the cursor itself
        if x[0] == 'bin' and x[1] == 'Add':
            a, b = x[2], x[3]
            if _is_slice_len_of_get(b, get_bbs) and _cursor_start(a, P, get_bbs, depth + 1):
                continue
            if _is_slice_len_of_get(a, get_bbs) and _cursor_start(b, P, get_bbs, depth + 1):
                continue
        return False
    return True


def _polled_range(v, poll_bbs, get_bbs):
    """the range handed to SendBuffer::get IS the range poll_transmit returned (`.0` of its result, possibly cloned or
    carried through the StreamMeta literal), or a Range literal whose end is that range's end and whose start is that
    range's start advanced by the copied lengths.  Returns the polled-range descriptor or None."""
    if v[0] == 'field' and v[2] == '0' and _is_call_to(v[1], 'SendBuffer::poll_transmit', poll_bbs):
        return v
    if v[0] == 'agg' and v[1] == 'adt' and len(v) > 4 and tuple(v[4]) == ('start', 'end') and 'Range' in v[2]:
        st, en = v[3]
        if en[0] == 'field' and en[2] == 'end' and _polled_range(en[1], poll_bbs, get_bbs) is not None and _cursor_start(st, en[1], get_bbs):
            return en[1]
    return None


def _range_len_of(v, pname, fname):
    """exactly `<param>.<fname>.end - <param>.<fname>.start` (both ends of the same range)"""
    if not (v[0] == 'bin' and v[1] == 'Sub'):
        return False
    e, s = v[2], v[3]
    return e[0] == 'field' and e[2] == 'end' and s[0] == 'field' and s[2] == 'start' and e[1] == s[1] \
        and e[1][0] == 'field' and e[1][2] == fname and e[1][1][0] == 'param' and e[1][1][2] == pname


def _operand_local(op):
    return op[1][0] if op[0] in ('c', 'm') else None


def _chain_patches(F, body, op, seen=None, out=None):
    """field-wise modifications of the value behind a MIR operand: partial definitions (`x.f = ..`, `x.f += ..`) and
    mutable borrows of every local on its definition chain (moves, copies, reborrows, casts, transparent calls such as
    clone).  Value descriptors of whole locals do not show partial redefinitions, so rules that need "this IS the value
    produced there" ask for this list.  Items: ('field', def) | ('mutborrow', local)."""
    seen = set() if seen is None else seen
    out = [] if out is None else out
    l = _operand_local(op)
    if l is None or l in seen:
        return out
    seen.add(l)
    if l in describer(F, body).mut_borrowed:
        out.append(('mutborrow', l))
    for df in body.defs_of(l):
        if df[0] in ('field', 'callfield', 'sd'):
            out.append(('field', df))
        elif df[0] == 'stmt':
            rv = df[3]
            if rv[0] == 'use':
                _chain_patches(F, body, rv[1], seen, out)
            elif rv[0] == 'cast':
                _chain_patches(F, body, rv[2], seen, out)
            elif rv[0] in ('ref', 'ptr'):
                _chain_patches(F, body, ['c', rv[2]], seen, out)
        elif df[0] == 'call':
            c = df[2]
            if c.f and D._is_transparent(short(c.f), c.f) and c.args:
                _chain_patches(F, body, c.args[0], seen, out)
    return out


def _never_patched(F, body, op):
    return not _chain_patches(F, body, op)


def _agg_stmts(F, body, op, seen=None):
    """aggregate-construction statements the MIR operand's value comes from through moves / copies / reborrows /
    transparent calls; None when some reaching definition is anything else or a local on the way is patched field-wise"""
    seen = set() if seen is None else seen
    l = _operand_local(op)
    if l is None or op[1][1] and [e for e in op[1][1] if e != '*']:
        return None
    if l in seen:
        return []
    seen.add(l)
    if l in describer(F, body).mut_borrowed:
        return None
    out = []
    for df in body.defs_of(l):
        if df[0] == 'stmt':
            rv = df[3]
            if rv[0] == 'agg':
                out.append(rv)
                continue
            if rv[0] == 'use':
                sub = _agg_stmts(F, body, rv[1], seen)
            elif rv[0] == 'ref':
                sub = _agg_stmts(F, body, ['c', rv[2]], seen)
            else:
                sub = None
        elif df[0] == 'call' and df[2].f and D._is_transparent(short(df[2].f), df[2].f) and df[2].args:
            sub = _agg_stmts(F, body, df[2].args[0], seen)
        else:
            sub = None
        if sub is None:
            return None
        out.extend(sub)
    return out


def _fresh(F, body):
    """a describer with an empty memo.  The shared describer memoises sub-results that were cut at a cycle (a loop-carried
    local), so what a loop variable expands to depends on which query of which module ran first; a rule that reads the
    *shape* of a loop-carried value asks a fresh describer so that the answer depends on the code only."""
    return D.Describer(F, body)


def _fresh_arg(F, c, i):
    return _fresh(F, c.body).operand(c.args[i], c.bb, term_idx(c.body, c.bb)) if i < len(c.args) else ('const', 'other', '<noarg>', '')


def _is_int(v, n):
    return v[0] == 'const' and v[1] == 'int' and str(v[2]) == str(n)


def _returns_unsigned(fn):
    return fn.locals[0][0] in ('u8', 'u16', 'u32', 'u64', 'u128', 'usize')


def _grows_only_under_guard(ctx, w, v, fld):
    """`if v > self.f { self.f = v }` is `self.f = self.f.max(v)`: the store of v is dominated by a branch comparing that
    same value v with `self.f`, and is unreachable from the edge on which `v <= self.f` holds"""
    body = w.body
    sv = _unconv(v)

    def rel(o, a, b):
        # violating: v <= self.f
        return o == 'Le' and _unconv(a) == sv and _is_field_of_self(_unconv(b), fld)
    for br, truth, tgt in guard_edges(ctx, body, rel):
        if body.dominates(br.bb, w.bb) and w.bb not in body.reachable_from(tgt, avoid=[br.bb]):
            return True
    return False


def _range_elem_len(x):
    """`E.end - E.start` for one and the same E; returns E or None"""
    if x[0] == 'bin' and x[1] == 'Sub' and x[2][0] == 'field' and x[2][2] == 'end' and x[3][0] == 'field' and x[3][2] == 'start' and x[2][1] == x[3][1]:
        return x[2][1]
    return None


def _loop_elem_of_self_field(E, fld):
    """E is the element a `for` / `while let Some(..) = it.next()` loop over `self.<fld>` (`.iter()` / `into_iter()` of it,
    nothing else in the chain: no filter / skip / take) binds: `(Iterator::next(it) as Some).0`.  Returns the block of the
    next() call or None."""
    if not (E[0] == 'field' and E[2] == '0' and E[1][0] == 'variant' and E[1][2] == 'Some'):
        return None
    c = E[1][1]
    if not (c[0] == 'call' and D._trait_form(c[1]) == 'Iterator::next' and len(c[3]) == 1 and len(c) > 4):
        return None
    it = c[3][0]
    while it[0] == 'call' and it[1].rsplit('::', 1)[-1] in ('iter', 'into_iter') and len(it[3]) == 1:
        it = it[3][0]
    return c[4] if _is_field_of_self(it, fld) else None


def _acc_step(x):
    """`acc + (E.end - E.start)` where acc is the running total (its start value 0 or the loop-carried local); returns E or None"""
    if not (x[0] == 'bin' and x[1] == 'Add'):
        return None
    for ln, acc in ((x[2], x[3]), (x[3], x[2])):
        E = _range_elem_len(ln)
        if E is not None and all(_is_int(y, 0) or (y[0] in ('local', 'field') and not D.calls_in(y) and not D.has_param(y) and not D.consts_in(y)) for y in flat(acc)):
            return E
    return None


def _explicit_sum_of_acked_lengths(F, un, sub):
    """the subtrahend of unacked() written as an explicit loop instead of `.iter().map(|x| x.end - x.start).sum()`:
        let mut acc = 0; for r in self.acks.iter() { acc += r.end - r.start }
    Exact shape: every reaching value of the subtrahend is the literal 0 or `acc + (E.end - E.start)`, E the element bound
    by ONE next() site iterating self.acks; the subtrahend is a local all of whose definitions are those; every iteration
    (Some edge of the branch on next()'s result) stores the step before it reaches next() again or a return; after a step
    no return is reached without asking next() again (no early break); next() is called nowhere else.
    Returns (sum_ok, elem_len_ok)."""
    alts = flat(sub)
    steps = [x for x in alts if not _is_int(x, 0)]
    if not steps or len(steps) == len(alts):
        return False, False
    Es = [_acc_step(x) for x in steps]
    if any(E is None for E in Es):
        return False, False
    nbs = {_loop_elem_of_self_field(E, 'acks') for E in Es}
    if len(nbs) != 1 or None in nbs:
        return False, True
    nb = nbs.pop()
    if len([c for c in un.calls() if c.f and D._trait_form(short(c.f)) == 'Iterator::next']) != 1:
        return False, True
    live = un.live_blocks()
    rets = [r for r in un.return_blocks() if r in live]
    # the accumulator: a local whose value at the return IS the subtrahend and whose definitions are `= 0` and the steps
    acc_stores = None
    for l in range(un.argc + 1, len(un.locals)):
        dfs = un.defs_of(l)
        if len(dfs) < 2 or any(df[0] != 'stmt' for df in dfs):
            continue
        vals = [(df, _fresh(F, un).rvalue(df[3], df[1], df[2], 0)) for df in dfs]
        if not all(_is_int(v, 0) or _acc_step(v) is not None for _, v in vals):
            continue
        if all(_fresh(F, un).place([l, []], r, term_idx(un, r)) == sub for r in rets):
            acc_stores = [df[1] for df, v in vals if not _is_int(v, 0)]
            break
    if not acc_stores:
        return False, True
    # the branch on next()'s result
    d = _fresh(F, un)
    some = []
    for i, blk in enumerate(un.blocks):
        if blk['c'] or i not in live or blk['t'][0] != 'switch':
            continue
        x = d.operand(blk['t'][1], i, term_idx(un, i))
        if x[0] == 'discr' and x[1][0] == 'call' and len(x[1]) > 4 and x[1][4] == nb and D._trait_form(x[1][1]) == 'Iterator::next':
            tg = dict((int(v), t) for v, t in blk['t'][2])
            if 1 in tg:
                some.append(tg[1])
    if len(some) != 1:
        return False, True
    if path_avoiding(un, some, set(rets) | {nb}, acc_stores) is not None:
        return False, True      # an iteration that skips the step
    if path_avoiding(un, [s for b in acc_stores for s in un.succ[b]], rets, [nb]) is not None:
        return False, True      # leaves the loop after a step without exhausting the iterator
    return True, True


def rule_a(ctx):
    F = ctx.facts
    wl = ctx.pfn('StreamsState::write_limit')
    rd = ret_descs(F, wl)
    ok = False
    why = ''
    for _, x in rd:
        why = D.render(x)
        if x[0] == 'call' and x[1] in ('Ord::min', 'u64::min', 'cmp::min') and len(x[3]) == 2:
            a, b = x[3]
            if not (D.has_field(a, 'max_data') and D.has_field(a, 'data_sent')):
                a, b = b, a
            ok1 = a[0] == 'bin' and a[1] == 'Sub' and D.has_field(a[2], 'max_data') and D.has_field(a[3], 'data_sent')
            ok2 = b[0] == 'call' and b[1] == 'u64::saturating_sub' and D.has_field(b[3][0], 'send_window') and D.has_field(b[3][1], 'unacked_data')
            ok = ok1 and ok2
    ctx.check(ok and len(rd) == 1, 'a', 'write_limit_expression', wl, wl.where(), why, 'write_limit() is no longer min(max_data - data_sent, send_window.saturating_sub(unacked_data)): ' + why)


def rule_b(ctx):
    F = ctx.facts
    w = ctx.pfn('Send::write')
    d = describer(F, w)
    pops = w.calls_to('BytesSource::pop_chunk')
    ctx.floor('b', 'pop_chunk_sites', len(pops), 1)
    for c in pops:
        lim = _fresh_arg(F, c, 1)
        # every reaching value of `limit` is min(limit_param, max_data - offset), minus the lengths of chunks already popped
        ok, why = _capped(lim)
        ctx.check(ok, 'b', 'pop_limit_is_min_of_budget', w, c.where(), D.render(lim)[:200],
                  'the limit handed to pop_chunk is not min(limit, max_data - offset) [minus popped lengths] on every path: %s in %s' % (why, D.render(lim)[:300]))
        # the loop must lower the cap by the popped chunk's length before the next pop
        decs = []
        for l, (ty, nm) in enumerate(w.locals):
            if nm != 'limit' or l <= w.argc:
                continue
            for df in w.defs_of(l):
                if df[0] == 'stmt':
                    v = _fresh(F, w).rvalue(df[3], df[1], df[2], 0)
                    if v[0] == 'bin' and v[1] == 'Sub' and D.has_call(v[3], 'BytesSource::pop_chunk') and D.has_call(v[3], 'Bytes::len'):
                        decs.append(df[1])
        p = path_avoiding(w, w.succ[c.bb], [c.bb], decs)
        ctx.check(bool(decs) and p is None, 'b', 'pop_limit_decremented_in_loop', w, c.where(), 'every path back to pop_chunk passes `limit -= chunk.len()`',
                  'a loop path returns to pop_chunk without lowering the cap by the popped length: %s' % (fmt_path(w, p) if p else 'no decrement found'))
    # only append: SendBuffer::write(chunk) with chunk from pop_chunk
    sw = w.calls_to('SendBuffer::write')
    ctx.floor('b', 'sendbuffer_write_sites', len(sw), 1)
    for c in sw:
        a = _fresh_arg(F, c, 1)
        ctx.check(D.has_call(a, 'BytesSource::pop_chunk'), 'b', 'appended_chunk_from_capped_pop', w, c.where(), D.render(a)[:120],
                  'SendBuffer::write argument does not derive from the capped pop_chunk: ' + D.render(a)[:200])
    who_may_call(ctx, 'b', 'sendbuffer_write_callers', ['SendBuffer::write'], ['Send::write'], floor=1)
    # budget==0 -> Blocked before any pop
    guard_error(ctx, 'b', 'zero_budget_blocks', w, lambda op, a, b: op == 'Eq' and ((D.has_field(a, 'max_data') and D.has_const(b, 0)) or (D.has_field(b, 'max_data') and D.has_const(a, 0))),
                variant=('WriteError', 'Blocked'), protect=[c.bb for c in pops], what='budget == 0')
    # write_source
    ws = ctx.pfn('SendStream::write_source')
    cs = ws.calls_to('Send::write')
    ctx.floor('b', 'send_write_sites', len(cs), 1)
    for c in cs:
        a = arg_desc(F, c, 2)
        ctx.check(D.has_call(a, 'StreamsState::write_limit') and a[0] == 'call', 'b', 'write_source_passes_write_limit', ws, c.where(), D.render(a),
                  'Send::write is not given write_limit() as its limit: ' + D.render(a))
    who_may_call(ctx, 'b', 'send_write_callers', ['Send::write'], ['SendStream::write_source'], floor=1)
    for fld in ('data_sent', 'unacked_data'):
        st = [(x, v) for x, v in store_values(ctx, SS, fld, in_fn=ws)]
        ok = len(st) == 1 and st[0][1][0] == 'bin' and st[0][1][1] == 'Add' and D.has_field(st[0][1], fld) and D.has_field(st[0][1], 'bytes') and D.has_call(st[0][1], 'Send::write')
        ctx.check(ok, 'b', 'write_source_accounts_' + fld, ws, st[0][0].where() if st else ws.where(), D.render(st[0][1])[:160] if st else 'no store',
                  '%s is not incremented by exactly the written byte count in write_source' % fld)
    # limit == 0 -> Blocked before Send::write
    unsigned = _returns_unsigned(ctx.pfn('StreamsState::write_limit'))

    def zero_limit(op, a, b):
        if op == 'Eq':
            return (D.has_call(a, 'StreamsState::write_limit') and D.has_const(b, 0)) or (D.has_call(b, 'StreamsState::write_limit') and D.has_const(a, 0))
        # write_limit() is unsigned: `limit <= 0` (written `!(limit > 0)` / `!(0 < limit)`) is the same predicate as `limit == 0`
        return op == 'Le' and unsigned and D.has_call(a, 'StreamsState::write_limit') and _is_int(b, 0)
    # Without connection credit nothing is handed to Send::write and nothing is accepted: every path from the `limit == 0`
    # edge refuses the write -- with Blocked, or, for the stream that would have been written (the receiver of Send::write),
    # with the reason no credit can cure: ClosedStream only on the not-writable edge of a branch on is_writable(), Stopped
    # only with the stream's own stop_reason payload on the Some edge of a branch on it.
    streams = [arg_desc(F, c, 0) for c in cs]
    terminal, rejected = _terminal_refusals(ctx, ws, streams)
    _guard_refuses(ctx, 'b', 'zero_write_limit_blocks', ws, zero_limit, effect_blocks(ctx, ws, variant=('WriteError', 'Blocked')) | terminal,
                   protect=[c.bb for c in cs], what='write_limit() == 0', effect="WriteError::Blocked (or the written stream's own ClosedStream / Stopped state)",
                   note=rejected)


def _terminal_refusals(ctx, body, streams):
    """blocks of `body` that build a WriteError describing a terminal state of one of `streams` (value descriptors of
    `&mut Send`), on an edge where that state is established:
      * WriteError::ClosedStream in a block dominated by a branch on `Send::is_writable(<stream>)` and unreachable from the
        edge on which the stream IS writable;
      * WriteError::Stopped(c) where c IS `(<stream>.stop_reason as Some).0`, in a block dominated by a branch on the
        discriminant of that same `<stream>.stop_reason` and unreachable from every edge but Some.
    Returns (qualifying blocks, text describing the ClosedStream / Stopped constructions that do not qualify)."""
    F = ctx.facts
    d = describer(F, body)
    brs = branches(F, body)
    live = body.live_blocks()
    good, bad = set(), []
    for i, j, pl, rv, line in body.assigns():
        if i not in live or not (rv[0] == 'agg' and rv[1][0] == 'adt' and path_matches(rv[1][1], 'WriteError')):
            continue
        ok = False
        if rv[1][2] == 'ClosedStream':
            for br in brs:
                inner, neg = peel_not(br.desc)
                if not (_is_call_to(inner, 'Send::is_writable') and len(inner[3]) == 1 and inner[3][0] in streams):
                    continue
                writable = br.target(0 if neg else 1)
                if body.dominates(br.bb, i) and i not in body.reachable_from(writable, avoid=[br.bb]):
                    ok = True
        elif rv[1][2] == 'Stopped' and len(rv[2]) == 1:
            v = d.operand(rv[2][0], i, j)
            for S in streams:
                X = ('field', S, 'stop_reason')
                if v != ('field', ('variant', X, 'Some'), '0'):
                    continue
                for br in brs:
                    if br.desc == ('discr', X) and body.dominates(br.bb, i) \
                            and not any(i in body.reachable_from(t, avoid=[br.bb]) for t in br.other_targets(STD_VARIANTS['Option']['Some'])):
                        ok = True
        else:
            continue
        if ok:
            good.add(i)
        else:
            bad.append('%s at %s:%d' % (rv[1][2], body.file, line))
    return good, ('; not a refusal for the written stream\'s own terminal state: ' + ', '.join(bad)) if bad else ''


def _guard_refuses(ctx, rule, instance, body, relpred, eff, protect=(), what='', effect='', note='', floor=1):
    """guard_error with the effect given as a set of blocks: on every edge where the violating relation holds, every path
    reaches one of `eff` before any protected block and before a normal return."""
    import engine.rulelib as RL
    edges = guard_edges(ctx, body, relpred)
    for br, truth, tgt in edges:
        goals = set(body.return_blocks()) | set(protect)
        p = path_avoiding(body, [tgt], goals, eff) if eff else [tgt]
        if p is None:
            ctx.ok(rule, instance, body, br.where(), '%s: violating edge always reaches %s' % (what, effect))
        else:
            ctx.bad(rule, instance, body, br.where(), '%s: on the violating edge a path avoids %s: %s%s' % (what, effect, fmt_path(body, p), note))
    if len(edges) < floor:
        ctx.bad(rule, instance + '/guard_missing', body, body.where(), '%s: no branch with the required relation found (guard removed or relation changed)' % what + RL._offset_note(body))
    return edges


def _capped(d):
    """structural: min(limit, max_data - offset) | capped - len(popped chunk) | loop-carried reference | phi of those"""
    if d[0] == 'phi':
        for x in d[1]:
            ok, why = _capped(x)
            if not ok:
                return False, why
        return True, ''
    if d[0] == 'call' and d[1] in ('Ord::min', 'u64::min', 'cmp::min') and len(d[3]) == 2:
        a, b = d[3]
        if a[0] != 'param':
            a, b = b, a
        ok = a[0] == 'param' and D.has_param(a, name='limit') and b[0] == 'bin' and b[1] == 'Sub' and D.has_field(b[2], 'max_data') and D.has_call(b[3], 'SendBuffer::offset')
        return ok, '' if ok else D.render(d)[:120]
    if d[0] == 'bin' and d[1] == 'Sub':
        if not (D.has_call(d[3], 'BytesSource::pop_chunk') and D.has_call(d[3], 'Bytes::len')):
            return False, D.render(d)[:120]
        return _capped(d[2])
    if d[0] in ('local', 'field', 'index') and not D.has_param(d) and not D.calls_in(d):
        return True, ''   # loop-carried reference to the cap itself (checked-sub result)
    return False, D.render(d)[:120]


def _has_raw_alternative(d):
    """a phi alternative that is just the parameter (uncapped)"""
    if d[0] == 'phi':
        return any(_has_raw_alternative(x) for x in d[1])
    if d[0] == 'param':
        return True
    if d[0] == 'bin' and d[1] == 'Sub':
        return _has_raw_alternative(d[2])
    return False


def rule_c(ctx):
    F = ctx.facts
    op = ctx.pfn('Streams::open')
    nexts = [(w, v) for w, v in store_values(ctx, SS, 'next', in_fn=op)]
    inserts = [c.bb for c in op.calls_to('StreamsState::insert')]
    protect = [w.bb for w, v in nexts] + inserts

    def rel(o, a, b):
        # violating: max <= next
        return o == 'Le' and D.has_field(a, 'max') and D.has_field(b, 'next')
    edges = guard_error(ctx, 'c', 'open_refused_at_limit', op, rel, variant=('Option', 'None'), protect=protect, what='next >= max')
    guard_protects(ctx, 'c', 'open_increments_only_below_limit', op, rel, protect, what='next >= max')
    for w, v in nexts:
        ok = v[0] == 'bin' and v[1] == 'Add' and D.has_field(v, 'next') and D.has_const(v, 1)
        ctx.check(ok, 'c', 'next_incremented_by_one', op, w.where(), D.render(v), 'next[dir] store in open() is not next+1: ' + D.render(v))
    ctx.floor('c', 'next_stores_in_open', len(nexts), 1)
    # streams_blocked flagged on the refusing edge
    sb = [w for w in field_writes(F, SS, 'streams_blocked', crate='quinn_proto') if F.root_of(w.body).id == op.id and w.kind == 'assign']
    ctx.check(bool(sb) and bool(edges) and all(w.bb in op.reachable_from(t) for w in sb for _, _, t in edges), 'c', 'streams_blocked_set_on_refusal', op, op.where(),
              'streams_blocked[dir] = true on the refusing edge', 'open() no longer records streams_blocked when refusing')


def rule_d(ctx):
    F = ctx.facts
    # StreamsState.max_data: only max(old, n) or constructor literal
    for w, v in store_values(ctx, SS, 'max_data'):
        r = F.root_of(w.body)
        ok = v[0] == 'call' and v[1] in ('Ord::max', 'u64::max', 'cmp::max') and D.has_field(v, 'max_data')
        if r.short == 'StreamsState::zero_rtt_rejected':
            # (re)initialisation: the limit remembered from the previous session is void once 0-RTT is rejected
            ok = v[0] == 'const' and str(v[2]) == '0'
        elif not ok:
            # `if n > self.max_data { self.max_data = n }` is the same monotone update as `self.max_data = self.max_data.max(n)`
            ok = _grows_only_under_guard(ctx, w, v, 'max_data')
        ctx.check(ok, 'd', 'conn_max_data_monotone', r, w.where(), D.render(v)[:120],
                  'StreamsState.max_data stored with a non-monotone value (expected max(old, n)): ' + D.render(v)[:200])
    who_may_write(ctx, 'd', 'conn_max_data_writers', SS, 'max_data', ['StreamsState::received_max_data', 'StreamsState::new', 'StreamsState::zero_rtt_rejected'], floor=1, kinds=('assign', 'callresult', 'mutborrow'))
    who_may_call(ctx, 'd', 'received_max_data_callers', ['StreamsState::received_max_data'], ['StreamsState::set_params', 'Connection::process_payload'], floor=2)
    # Send.max_data
    imd = ctx.pfn('Send::increase_max_data')
    stores = store_values(ctx, 'send::Send', 'max_data')
    for w, v in stores:
        r = F.root_of(w.body)
        if r.id == imd.id:
            def rel(o, a, b):
                # violating: offset <= max_data
                return o == 'Le' and D.has_param(a, name='offset') and D.has_field(b, 'max_data')
            guard_protects(ctx, 'd', 'stream_max_data_only_grows', imd, rel, [w.bb], what='offset <= max_data')
            ctx.check(_is_param(v, 'offset'), 'd', 'stream_max_data_value', imd, w.where(), D.render(v),
                      'the stored stream limit is not the received offset itself (the guard compares `offset`, so anything else can exceed what the peer granted): ' + D.render(v)[:160])
        elif r.short == 'StreamsState::set_params':
            ok = _is_param_field(v, 'params', 'initial_max_stream_data_bidi_local')
            ctx.check(ok, 'd', 'stream_max_data_from_params', r, w.where(), D.render(v)[:120], 'set_params stores a value other than the transport parameter: ' + D.render(v)[:200])
        else:
            ctx.bad('d', 'stream_max_data_writers/unexpected_writer', r, w.where(), 'unexpected store to Send.max_data in %s' % r.short)
    ctx.floor('d', 'send_max_data_stores', len(stores), 2)
    # Send::new literal max_data from the parameter
    cons = constructions(F, 'send::Send', 'Send')
    for c in cons:
        r = F.root_of(c.body)
        op = c.field_op('max_data')
        v = describer(F, c.body).operand(op, c.bb, c.idx) if op is not None else ('const', 'other', '<no max_data field>', '')
        ctx.check(r.short == 'Send::new' and c.body.id == r.id and _is_param(v, 'max_data'), 'd', 'send_constructed_in_new', r, c.where(),
                  'Send{max_data: <the max_data parameter>, ..} built in Send::new',
                  'Send{..} literal outside Send::new' if r.short != 'Send::new' else 'Send::new does not start the stream limit at its max_data parameter: max_data = ' + D.render(v)[:160])
    ctx.floor('d', 'send_literals', len(cons), 1)
    # ... and that parameter is the negotiated per-stream limit: Send::new(max_data) only inside get_or_insert_send with its own
    # parameter, which every caller computes with max_send_data(id)
    news = who_may_call(ctx, 'd', 'send_new_callers', ['Send::new'], ['state::get_or_insert_send'], floor=1)
    for c in news:
        if is_noise(c) or not root_matches(ctx, c.body, ['state::get_or_insert_send']):
            continue
        a = _unconv(arg_desc(F, c, 0))
        ctx.check((a[0] == 'upvar' and a[1] == 'max_data') or (a[0] == 'param' and a[2] == 'max_data'), 'd', 'send_new_given_callers_limit', F.root_of(c.body), c.where(), D.render(a)[:120],
                  'get_or_insert_send creates the stream with something other than the limit it was given: ' + D.render(a)[:160])
    gois = [c for c in F.callers_of('state::get_or_insert_send', crate='quinn_proto') if not is_noise(c)]
    for c in gois:
        a = arg_desc(F, c, 0)
        ctx.check(all(_is_call_to(x, 'StreamsState::max_send_data') for x in flat(a)), 'd', 'new_send_limit_is_max_send_data', F.root_of(c.body), c.where(), D.render(a)[:120],
                  'a lazily created send stream does not start at max_send_data(id): ' + D.render(a)[:160])
    ctx.floor('d', 'get_or_insert_send_callers', len(gois), 6)
    # max[dir]
    rms = ctx.pfn('StreamsState::received_max_streams')
    sp = ctx.pfn('StreamsState::set_params')
    stores = store_values(ctx, SS, 'max')
    seen_sp = 0
    seen_rms = 0
    for w, v in stores:
        r = F.root_of(w.body)
        if r.id == rms.id:
            seen_rms += 1

            def rel(o, a, b):
                # violating: count <= current
                return o == 'Le' and D.has_param(a, name='count') and D.has_field(b, 'max')
            guard_protects(ctx, 'd', 'stream_count_limit_only_grows', rms, rel, [w.bb], what='count <= current')
            ctx.check(v[0] == 'param' and D.has_param(v, name='count'), 'd', 'stream_count_limit_value', rms, w.where(), D.render(v),
                      'received_max_streams stores something other than the received count: ' + D.render(v)[:160])
        elif r.id == sp.id:
            ok = v[0] != 'phi' and not D.has_field(v, 'max') and (D.has_field(v, 'initial_max_streams_bidi') or D.has_field(v, 'initial_max_streams_uni')) and not D.calls_in(v) - {'VarInt::into_inner', '<VarInt as Into>::into', '<u64 as From>::from'}
            seen_sp += bool(ok)     # the floor counts what must exist: stores that ARE a (re)initialisation from the parameter
            ctx.check(ok, 'd', 'stream_count_limit_reset_from_params', sp, w.where(), D.render(v)[:120],
                      'set_params must (re)initialise max[dir] with the transport parameter itself (limits restart after 0-RTT rejection), found: ' + D.render(v)[:200])
        elif r.short == 'StreamsState::new':
            ctx.ok('d', 'stream_count_limit_ctor', r, w.where(), '')
        else:
            ctx.bad('d', 'stream_count_limit_writers/unexpected_writer', r, w.where(), 'unexpected store to StreamsState.max in %s' % r.short)
    # mutable borrows of max (e.g. `let current = &mut self.max[..]`) only in received_max_streams
    who_may_write(ctx, 'd', 'stream_count_limit_writers', SS, 'max', ['StreamsState::received_max_streams', 'StreamsState::set_params', 'StreamsState::new'], kinds=('mutborrow', 'assign'))
    ctx.floor('d', 'set_params_max_stores', seen_sp, 2)
    ctx.floor('d', 'received_max_streams_stores', seen_rms, 1)


def _marked_reset_inline(F, body, send):
    """Send::reset() written out in the caller.  Its whole effect is `self.state = SendState::ResetSent` (on every
    state that is not ResetSent already), so the inlined form is: a direct store of the unit variant
    SendState::ResetSent into `.state` of the very Send described by `send` (same descriptor as the receiver the
    call form would have).  A store of another variant, or into another Send, is not the reset of this stream."""
    for w in field_writes(F, 'send::Send', 'state', crate='quinn_proto', include_borrows=False):
        if w.body.id != body.id or w.kind != 'assign' or not w.rv or w.rv[0] == 'sd':
            continue
        pr = w.place[1]
        if not (pr and isinstance(pr[-1], list) and pr[-1][0] == 'f' and pr[-1][1] == 'state'):
            continue    # a store below .state (a field of a variant) is not the transition
        d = describer(F, body)
        v = d.rvalue(w.rv, w.bb, w.idx, 0)
        if not (v[0] == 'agg' and v[1] == 'adt' and v[2].endswith('SendState::ResetSent') and not v[3]):
            continue
        if d.place([w.place[0], pr[:-1]], w.bb, w.idx) == send:
            return True
    return False


def rule_e(ctx):
    who_may_write(ctx, 'e', 'data_sent_writers', SS, 'data_sent', ['SendStream::write_source', 'StreamsState::zero_rtt_rejected', 'StreamsState::new'], floor=2,
                  why='data_sent is the connection-level flow-control consumption; it is only raised by accepted writes and zeroed on 0-RTT rejection')
    who_may_write(ctx, 'e', 'unacked_data_writers', SS, 'unacked_data', ['SendStream::write_source', 'StreamsState::received_ack_of', 'SendStream::reset', 'StreamsState::zero_rtt_rejected', 'StreamsState::new'], floor=4)
    who_may_write(ctx, 'e', 'send_window_writers', SS, 'send_window', ['StreamsState::set_send_window', 'StreamsState::new'], floor=1)
    F = ctx.facts
    # stores that lower data_sent other than the zeroing in zero_rtt_rejected are forbidden
    for w, v in store_values(ctx, SS, 'data_sent'):
        r = F.root_of(w.body)
        if r.short == 'StreamsState::zero_rtt_rejected':
            ctx.check(D.has_const(v, 0) and v[0] == 'const', 'e', 'data_sent_zeroed_on_rejection', r, w.where(), '= 0', 'unexpected value')
        elif r.short == 'SendStream::write_source':
            ctx.check(v[0] == 'bin' and v[1] == 'Add', 'e', 'data_sent_only_increases', r, w.where(), D.render(v)[:100], 'data_sent store is not an addition: ' + D.render(v)[:200])
    # unacked_data -= only the acked range length / the unacked remainder of a reset stream
    for w, v in store_values(ctx, SS, 'unacked_data'):
        r = F.root_of(w.body)
        if r.short == 'StreamsState::received_ack_of':
            ok = v[0] == 'bin' and v[1] == 'Sub' and _is_field_of_self(v[2], 'unacked_data') and _range_len_of(v[3], 'frame', 'offsets')
            ctx.check(ok, 'e', 'ack_releases_acked_range', r, w.where(), D.render(v)[:140], 'unexpected release expression: ' + D.render(v)[:200])
        elif r.short == 'SendStream::reset':
            ok = v[0] == 'bin' and v[1] == 'Sub' and _is_field_of_self(v[2], 'unacked_data') and _is_call_to(v[3], 'SendBuffer::unacked')
            # ... of the stream being reset: the receiver of unacked() is `.pending` of the Send that reset() is then called on
            if ok:
                recv = v[3][3][0] if v[3][3] else ()
                ok = bool(recv) and recv[0] == 'field' and recv[2] == 'pending' and (any(arg_desc(F, c, 0) == recv[1] for c in w.body.calls_to('Send::reset'))
                                                                                     or _marked_reset_inline(F, w.body, recv[1]))
            ctx.check(ok, 'e', 'reset_releases_unacked_remainder', r, w.where(), D.render(v)[:140], 'unexpected release expression: ' + D.render(v)[:200])


def rule_g(ctx):
    """SendBuffer::unacked() = buffered-but-unacknowledged length minus ranges acknowledged out of order; reset() refunds
    exactly this (the out-of-order acked ranges were already refunded by received_ack_of)."""
    F = ctx.facts
    un = ctx.pfn('SendBuffer::unacked')
    rd = [x for _, x in ret_descs(F, un)]
    ok = len(rd) == 1 and rd[0][0] == 'bin' and rd[0][1] == 'Sub' and D.has_field(rd[0][2], 'unacked_len') and not D.calls_in(rd[0][2]) - {'<u64 as From>::from'} \
        and D.has_field(rd[0][3], 'acks') and D.has_call(rd[0][3], 'Iterator::sum')
    loop_sum = loop_len = False
    if not ok:
        # the same sum written as an explicit accumulation loop over self.acks
        frd = [_fresh(F, un).place([0, []], r, term_idx(un, r)) for r in un.return_blocks() if r in un.live_blocks()]
        if len(frd) == 1 and frd[0][0] == 'bin' and frd[0][1] == 'Sub' and D.has_field(frd[0][2], 'unacked_len') and not D.calls_in(frd[0][2]) - {'<u64 as From>::from'}:
            loop_sum, loop_len = _explicit_sum_of_acked_lengths(F, un, frd[0][3])
            ok = loop_sum
    ctx.check(ok, 'g', 'unacked_excludes_acked_ranges', un, un.where(), D.render(rd[0])[:160] if rd else '-',
              'SendBuffer::unacked() is no longer unacked_len - sum(len of out-of-order acked ranges): ' + (D.render(rd[0])[:200] if rd else 'no return'))
    cl = [b for b in F.code_bodies('quinn_proto') if b.kind == 'closure' and F.root_of(b).id == un.id]
    okc = any(x[0] == 'bin' and x[1] == 'Sub' and D.has_field(x[2], 'end') and D.has_field(x[3], 'start') for b in cl for _, x in ret_descs(F, b))
    ctx.check(okc or loop_len, 'g', 'acked_range_length', un, un.where(), '|x| x.end - x.start', 'the summed quantity is not the range length end - start')
    who_may_call(ctx, 'g', 'unacked_callers', ['SendBuffer::unacked'], ['SendStream::reset'], floor=1)


def rule_f(ctx):
    F = ctx.facts
    # StreamMeta::encode (STREAM frame header) only from write_stream_frames; data appended from SendBuffer::get over the polled range
    who_may_call(ctx, 'f', 'stream_frame_encoder_callers', ['StreamMeta::encode'], ['StreamsState::write_stream_frames'], floor=1)
    wsf = ctx.pfn('StreamsState::write_stream_frames')
    gets = wsf.calls_to('SendBuffer::get')
    polls = wsf.calls_to('SendBuffer::poll_transmit')
    ctx.floor('f', 'poll_transmit_sites', len(polls), 1)
    poll_bbs = {c.bb for c in polls}
    get_bbs = {c.bb for c in gets}
    for c in gets:
        a = arg_desc(F, c, 1)
        # the range IS the one poll_transmit returned for the same buffer (start advanced only by what was copied), not
        # merely something computed from it
        P = None
        alts = [_polled_range(x, poll_bbs, get_bbs) for x in flat(a)]
        if alts and all(x is not None and x == alts[0] for x in alts):
            P = alts[0]
        ok = P is not None and arg_desc(F, c, 0) == P[1][3][0]
        why = ''
        # a copy cursor may only be patched by `cursor.start += <length of the slice get returned>`
        d = describer(F, wsf)
        for kind, df in _chain_patches(F, wsf, c.args[1]) if ok else ():
            fs = [e for e in df[3][1] if e != '*'] if kind == 'field' and df[0] == 'field' else None
            v = d.rvalue(df[4], df[1], df[2], 0) if fs else None
            if not (fs and len(fs) == 1 and fs[0][0] == 'f' and fs[0][1] == 'start' and all(x[0] == 'bin' for x in flat(v)) and _cursor_start(v, P, get_bbs)):
                ok, why = False, ' (the range is modified other than by `start += copied length`%s)' % (': start = ' + D.render(v)[:120] if v else '')
        ctx.check(ok, 'f', 'frame_bytes_from_polled_range', wsf, c.where(), D.render(a)[:160],
                  'SendBuffer::get is not asked for exactly the range SendBuffer::poll_transmit returned for this buffer%s: ' % why + D.render(a)[:200])
    ctx.floor('f', 'get_sites', len(gets), 1)
    puts = [c for c in wsf.calls_to('BufMut::put_slice')]
    for c in puts:
        a = arg_desc(F, c, 1)
        ctx.check(all(_is_call_to(x, 'SendBuffer::get', get_bbs) for x in flat(a)), 'f', 'payload_from_send_buffer', wsf, c.where(), D.render(a)[:100],
                  'the STREAM payload written is not the slice SendBuffer::get returned: ' + D.render(a)[:200])
    ctx.floor('f', 'put_slice_sites', len(puts), 1)
    # the meta pushed to the result is the meta whose header was encoded, and its offsets are the polled range, untouched
    encs = [c for c in wsf.calls_to('StreamMeta::encode')]
    enc_descs = [arg_desc(F, c, 0) for c in encs]
    pushes = [c for c in wsf.calls() if c.is_('TinyVec::push', 'StreamMetaVec::push', 'Vec::push') or short(c.f).endswith('::push')]
    metas = []
    for c in pushes:
        a = arg_desc(F, c, 1)
        if any(x[0] == 'agg' and x[1] == 'adt' and x[2].endswith('StreamMeta::StreamMeta') for x in flat(a)) or a in enc_descs:
            metas.append((c, a))
    okp = bool(metas) and bool(encs)
    whyp = 'no StreamMeta is pushed to the result' if not metas else 'no StreamMeta::encode site'
    for c, a in metas:
        off = _agg_field(a, 'offsets')
        if a not in enc_descs:
            okp, whyp = False, 'the recorded StreamMeta differs from the one whose header was encoded: %s' % D.render(a)[:200]
        elif off is None or _polled_range(off, poll_bbs, get_bbs) != off:
            okp, whyp = False, 'the recorded offsets are not the range poll_transmit returned: %s' % D.render(a)[:200]
        else:
            aggs = _agg_stmts(F, wsf, c.args[1])
            clean = bool(aggs)
            for rv in aggs or ():
                flds = list(rv[1][3]) if rv[1][0] == 'adt' else []
                if 'offsets' not in flds or not _never_patched(F, wsf, rv[2][flds.index('offsets')]):
                    clean = False
            if not clean:
                okp, whyp = False, 'the recorded StreamMeta (or its offsets) is a value that is modified field-wise after the poll (e.g. the copy cursor), not the polled range itself'
    ctx.check(okp, 'f', 'recorded_meta_matches_sent_range', wsf, metas[0][0].where() if metas else wsf.where(),
              'stream_frames.push(meta): the encoded meta, offsets = the range poll_transmit returned, never patched', 'the StreamMeta recorded for ack/loss does not carry the polled range: ' + whyp)
    who_may_call(ctx, 'f', 'write_stream_frames_callers', ['StreamsState::write_stream_frames'], ['Connection::populate_packet'], floor=1)


def run(ctx):
    rule_g(ctx)
    rule_a(ctx)
    rule_b(ctx)
    rule_c(ctx)
    rule_d(ctx)
    rule_e(ctx)
    rule_f(ctx)
