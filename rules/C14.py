"""C14 — validation tokens and Retry cannot be forged, moved or replayed (structural part)."""
from engine.rulelib import *
from engine import desc as D

EXPLANATION = ("Static rules over quinn-proto MIR: (a) IncomingToken{validated: true} is constructed only in from_header, each site dominated by a successful "
               "Token::decode and by the address / lifetime tests (and, for NEW_TOKEN tokens, by the token log accepting the nonce); the log is consulted with the "
               "token's own nonce and *issue* time; Token::decode yields a token only past AeadKey::open's Ok edge, a known type byte and an exhausted reader; the nonce reported is parsed from the bytes the AEAD key is derived from, and the built-in aead_from_hkdf returns a key with a data path from those bytes (the nonce is authenticated); "
               "(b) outcome classes: Retry-token failures -> InvalidRetryTokenError -> INVALID_TOKEN close; validation-token failures -> unvalidated; (c) token "
               "timestamps come only from the configured TimeSource; (d) client Retry acceptance: every state change of the Retry arm, including the count of the accepted Retry itself, lies behind a guard on total_authed_packets itself (no packet accepted yet; handle_packet never counts an unprotected packet) and behind the pass edge of is_valid_retry checked against the first Initial's DCID; the CID-echo check in "
               "handle_peer_params comparing all three CIDs unconditionally before set_peer_params; the server fills original_dst_cid / retry_src_cid from the token; "
               "(e) client token stores hand out by removing (pop_front); (f) the token log always ends in the filter's check_and_insert; NEW_TOKEN frames carry a "
               "fresh Token::new per transmission; the log's period index is the full-resolution quotient as_nanos(issued + lifetime - period_1_start) / as_nanos(lifetime) and period_1_start only moves by that same lifetime. Cryptographic unforgeability and the rest of the bloom period arithmetic (arm selection, filter turn-over) are NOT decided.")
RULE = "rule instances = (rule, site) pairs over MIR constructions / branches / call arguments; non-trivial = bound to a real site"


def _is_call(d, *names):
    """the value IS the result of a call of one of `names` (every reaching alternative), with nothing applied to it"""
    xs = flat(d)
    return bool(xs) and all(x[0] == 'call' and any(x[1] == n or path_matches(x[2], n) or D._trait_form(x[1]) == n for n in names) for x in xs)


def _is_param(d, name):
    return d[0] == 'param' and d[2] == name


def _token_field(d, variant, name):
    """d is exactly `(<Token::decode(..) as Some>.0.payload as <variant>).<name>`: a projection chain ending in the decoded
    token, with no call / arithmetic / literal / merge applied on the way"""
    if not (d[0] == 'field' and d[2] == name and d[1][0] == 'variant' and d[1][2] == variant):
        return False
    x = d[1][1]
    while x[0] in ('field', 'variant'):
        x = x[1]
    return x[0] == 'call' and x[1] == 'Token::decode'


def _remote_ip(d):
    """exactly remote_address.ip()"""
    return d[0] == 'call' and d[1] == 'SocketAddr::ip' and len(d[3]) == 1 and _is_param(d[3][0], 'remote_address')


def _int0(x):
    return x[0] == 'const' and x[1] == 'int' and str(x[2]).split('_')[0] == '0'


def _len_of(x, about):
    return x[0] == 'call' and x[1].rsplit('::', 1)[-1] in ('len', 'remaining') and about(x)


def _nonempty_edges(ctx, body, about):
    """(Branch, target) for every branch edge on which the byte reader selected by about(desc) is known NOT to be exhausted:
    is_empty() == false, has_remaining() == true, len()/remaining() != 0, 0 < len()"""
    out = []
    for br in branches(ctx.facts, body):
        inner, neg = peel_not(br.desc)
        if inner[0] == 'call' and about(inner):
            m = inner[1].rsplit('::', 1)[-1]
            if m == 'is_empty':
                out.append((br, br.target(1 if neg else 0)))
                continue
            if m == 'has_remaining':
                out.append((br, br.target(0 if neg else 1)))
                continue
        for truth in (True, False):
            rel = relation_on(br.desc, truth)
            if rel is None:
                continue
            op, a, b = rel
            if (op == 'Ne' and ((_int0(a) and _len_of(b, about)) or (_int0(b) and _len_of(a, about)))) or (op == 'Lt' and _int0(a) and _len_of(b, about)):
                out.append((br, br.target(1 if truth else 0)))
    return out


def rule_a(ctx):
    F = ctx.facts
    fh = ctx.pfn('IncomingToken::from_header')
    d = describer(F, fh)
    cons = [c for c in constructions(F, 'token::IncomingToken', 'IncomingToken', crate='quinn_proto')]
    val = []
    for c in cons:
        dd = describer(F, c.body)
        v = dd.operand(c.field_op('validated'), c.bb, c.idx)
        if not (v[0] == 'const' and str(v[2]) == '0'):
            val.append(c)
            ctx.check(F.root_of(c.body).id == fh.id, 'a', 'validated_token_sites', F.root_of(c.body), c.where(), 'validated: true in from_header', 'IncomingToken{validated: true} constructed outside from_header')
    # the flag can also be turned on after construction: any store to / &mut borrow of IncomingToken.validated other than `= false`
    for w in field_writes(F, 'IncomingToken', 'validated', crate='quinn_proto'):
        if w.kind == 'mutborrow' and w.call is not None and is_noise(w.call):
            continue
        harmless = False
        if w.kind == 'assign' and w.rv and w.rv[0] == 'use' and place_ends_in_field(w.place, 'IncomingToken', 'validated'):
            wv = describer(F, w.body).rvalue(w.rv, w.bb, w.idx, 0)
            harmless = wv[0] == 'const' and str(wv[2]) == '0'
        ctx.check(harmless, 'a', 'validated_token_sites', F.root_of(w.body), w.where(), 'IncomingToken.validated = false', '%s of IncomingToken.validated in %s: the flag is (or can be) set outside the constructions in from_header' % (w.kind, F.root_of(w.body).short))
    # the per-site obligations below are stated over from_header; constructions elsewhere were reported above
    val = [c for c in val if F.root_of(c.body).id == fh.id and c.body.id == fh.id]
    ctx.check(len(val) == 2, 'a', 'validated_token_site_count', fh, fh.where(), '2 sites (Retry, Validation)', 'expected two validated-token construction sites, found %d' % len(val))
    dec = fh.calls_to('Token::decode')
    ctx.floor('a', 'decode_sites', len(dec), 1)
    for c in val:
        p = must_precede(F, fh, c.bb, ['Token::decode'], 0)
        ctx.check(p is None, 'a', 'validated_only_after_decode', fh, c.where(), 'dominated by Token::decode', 'a token can be accepted without decoding')
    # decode None edge -> unvalidated
    for dcall in dec:
        # the Option returned by decode is itself branched on (not handed to a combinator that may substitute a token), the
        # branch dominates every acceptance and its None edge reaches none
        dbr = [br for br in branches(F, fh) if br.desc[0] == 'discr' and br.desc[1][0] != 'phi' and is_site(br.desc[1], dcall)]
        ok = bool(dbr) and bool(val)
        for br in dbr:
            t_none = br.target(0)
            if any(c.bb in fh.reachable_from(t_none, avoid=[br.bb]) for c in val):
                ok = False
        if not all(any(fh.dominates(br.bb, c.bb) for br in dbr) for c in val):
            ok = False
        ctx.check(ok, 'a', 'undecodable_token_is_absent', fh, dcall.where(), 'None edge reaches no validated construction', 'an undecodable token can validate the address (no branch on the decode result whose None edge is cut off from every acceptance)')
    # per-site guards
    retry_site = [c for c in val if D.has_field(describer(F, fh).operand(c.field_op('retry_src_cid'), c.bb, c.idx), 'dst_cid')]
    valid_site = [c for c in val if c not in retry_site]
    ctx.check(len(retry_site) == 1 and len(valid_site) == 1, 'a', 'token_kind_sites', fh, fh.where(), 'one Retry and one Validation acceptance site', 'cannot tell the Retry and Validation acceptance sites apart')
    if retry_site:
        s = retry_site[0].bb
        guard_protects(ctx, 'a', 'retry_token_bound_to_address_and_port', fh, lambda o, a, b: o == 'Ne' and ((_token_field(a, 'Retry', 'address') and _is_param(b, 'remote_address')) or (_token_field(b, 'Retry', 'address') and _is_param(a, 'remote_address'))), [s], what='token.address != remote_address')
        guard_protects(ctx, 'a', 'retry_token_lifetime', fh, lambda o, a, b: o == 'Lt' and D.has_field(a, 'retry_token_lifetime') and D.has_call(b, 'TimeSource::now'), [s], what='issued + retry_token_lifetime < now')
    if valid_site:
        s = valid_site[0].bb
        guard_protects(ctx, 'a', 'validation_token_bound_to_ip', fh, lambda o, a, b: o == 'Ne' and ((_token_field(a, 'Validation', 'ip') and _remote_ip(b)) or (_token_field(b, 'Validation', 'ip') and _remote_ip(a))), [s], what='token.ip != remote_address.ip()')
        guard_protects(ctx, 'a', 'validation_token_lifetime', fh, lambda o, a, b: o == 'Lt' and D.has_field(a, 'validation_token') and D.has_field(a, 'lifetime') and D.has_call(b, 'TimeSource::now'), [s], what='issued + lifetime < now')
        logc = fh.calls_to('TokenLog::check_and_insert')
        ctx.floor('a', 'token_log_sites', len(logc), 1)
        for lc in logc:
            ok = False
            for br in branches(F, fh):
                inner, neg = peel_not(br.desc)
                t_err = None
                # the verdict itself is branched on: `.is_err()`, `.is_ok()`, or a match / let-else on the Result (Ok = 0, Err = 1)
                if inner[0] == 'call' and inner[1] in ('Result::is_err', 'Result::is_ok') and len(inner[3]) == 1 and is_site(inner[3][0], lc):
                    t_err = br.target((0 if neg else 1) if inner[1] == 'Result::is_err' else (1 if neg else 0))
                elif br.desc[0] == 'discr' and is_site(br.desc[1], lc):
                    t_err = br.target(1)
                if t_err is not None:
                    ok = fh.dominates(br.bb, s) and s not in fh.reachable_from(t_err, avoid=[br.bb])
            ctx.check(ok, 'a', 'validation_token_single_use', fh, lc.where(), 'check_and_insert Err edge reaches no acceptance', 'a NEW_TOKEN token is accepted although the token log reported reuse (or its result is ignored)')
            n = arg_desc(F, lc, 1)
            iss = arg_desc(F, lc, 2)
            lt = arg_desc(F, lc, 3)
            ctx.check(D.has_field(n, 'nonce') and D.has_call(n, 'Token::decode'), 'a', 'log_keyed_by_token_nonce', fh, lc.where(), D.render(n)[:80], 'the token log is not consulted with the tokens nonce')
            ctx.check(D.has_call(iss, 'Token::decode') and not D.has_call(iss, 'TimeSource::now') and 'issued' in D.render(iss), 'a', 'log_given_issue_time', fh, lc.where(), D.render(iss)[:100],
                      'the token log is given a time other than the tokens own issue time (the log selects its period filter from issued + lifetime; using `now` lets a token be replayed in a later period): ' + D.render(iss)[:160])
            ctx.check(D.has_field(lt, 'lifetime'), 'a', 'log_given_lifetime', fh, lc.where(), D.render(lt)[:80], 'the token log is not given the configured lifetime')
    # Token::decode
    td = ctx.pfn('Token::decode')
    opn = td.calls_to('AeadKey::open')
    ctx.floor('a', 'aead_open_sites', len(opn), 1)
    tcons = [c for c in constructions(F, 'token::Token', 'Token', crate='quinn_proto') if F.root_of(c.body).id == td.id]
    ctx.floor('a', 'token_constructions_in_decode', len(tcons), 1)
    for c in tcons:
        ctx.check(must_precede(F, td, c.bb, ['AeadKey::open'], 0) is None, 'a', 'token_only_after_aead_open', td, c.where(), 'dominated by AeadKey::open', 'Token::decode can yield a token without opening the AEAD')
        em = _nonempty_edges(ctx, td, lambda x: D.has_call(x, 'AeadKey::open'))
        ok = any(td.dominates(br.bb, c.bb) and c.bb not in td.reachable_from(tgt, avoid=[br.bb]) for br, tgt in em)
        ctx.check(ok, 'a', 'trailing_bytes_rejected', td, c.where(), 'Some(token) only over the reader.is_empty() edge of a dominating test', 'tokens with trailing bytes are accepted (the construction is reachable from the non-empty edge, or the test is gone)')
    for o in opn:
        okk = False
        for br in branches(F, td):
            if br.desc[0] == 'discr' and contains_site(br.desc[1], o):
                # the branch on the open() outcome controls the construction: one side reaches no Token{..}
                sides = [t for _, t in br.edges if not td.blocks[t]['t'][0] == 'unreach']
                okk = any(all(c.bb not in td.reachable_from(t) for c in tcons) for t in sides) and any(any(c.bb in td.reachable_from(t) for c in tcons) for t in sides)
        ctx.check(okk, 'a', 'aead_failure_yields_no_token', td, o.where(), 'failed open -> None', 'a token whose AEAD open failed is still decoded')


def _operand_local(op):
    return op[1][0] if isinstance(op, list) and op and op[0] in ('c', 'm') else None


def _rvalue_reads(rv):
    """(base locals read by an rvalue, base local of the place borrowed / None, True when that place is a reborrow `*l`)"""
    k = rv[0]
    if k in ('ref', 'ptr'):
        pl = rv[2]
        return {pl[0]}, pl[0], bool(pl[1]) and pl[1][0] == '*'
    if k == 'discr':
        return {rv[1][0]}, None, False
    out = set()

    def scan(x):
        if isinstance(x, list):
            l = _operand_local(x)
            if l is not None and len(x) == 2 and isinstance(x[1], list) and len(x[1]) == 2 and isinstance(x[1][1], list):
                out.add(l)
                return
            for y in x:
                scan(y)
    scan(rv[1:])
    return out, None, False


def _flows_to_return(body, src_local):
    """P7 FLOW(parameter -> returned value), may-analysis on the raw MIR of one body (flow-insensitive, so it can only
    over-approximate the flow: a verdict `False` means NO data path exists).  A value is derived from the source when it
    is computed from a derived value (any rvalue / call argument), or written by a callee that was handed a derived
    argument together with a `&mut` borrow of it (`okm.fill(&mut key_buffer)`).  Control dependence is NOT data flow
    (a parameter that is only looked at by an assertion derives nothing)."""
    taint = {src_local}
    pts = {}
    changed = True
    while changed:
        changed = False

        def add(l):
            nonlocal changed
            if l not in taint:
                taint.add(l)
                changed = True

        def point(t, ls):
            nonlocal changed
            cur = pts.setdefault(t, set())
            if not ls <= cur:
                cur |= ls
                changed = True
        for i, j, st in body.stmts():
            if st[0] != '=':
                continue
            dst, rv = st[1], st[2]
            reads, borrowed, reborrow = _rvalue_reads(rv)
            if borrowed is not None:
                point(dst[0], pts.get(borrowed, set()) if reborrow else {borrowed})
            elif rv[0] in ('use', 'cast'):
                src = _operand_local(rv[1] if rv[0] == 'use' else rv[2])
                if src is not None and src in pts:
                    point(dst[0], pts[src])
            if reads & taint:
                add(dst[0])
                if dst[1] and dst[1][0] == '*':
                    for l in pts.get(dst[0], ()):
                        add(l)
        for c in body.calls():
            ls = [l for l in (_operand_local(a) for a in c.args) if l is not None]
            if any(l in taint for l in ls):
                if c.dst:
                    add(c.dst[0])
                for l in ls:
                    if str(body.local_ty(l)).startswith('&mut'):
                        for x in pts.get(l, ()):
                            add(x)
    return 0 in taint


def rule_a_nonce_binding(ctx):
    """"Any altered token is treated as absent" includes the 16 trailing nonce bytes: they select the reuse-log entry
    (TokenLog::check_and_insert(nonce, ..)), so an attacker who may change them replays one NEW_TOKEN token without
    bound.  Nothing but the AEAD covers them, and it does so only through the key: (i) Token::decode derives the key from
    the very bytes the nonce is parsed from (or hands them to open() as associated data), Token::encode from the nonce it
    appends; (ii) every HandshakeTokenKey::aead_from_hkdf implemented in the workspace returns a key that is DERIVED from
    its `random_bytes` argument (a data path parameter -> returned key exists)."""
    F = ctx.facts
    td = ctx.pfn('Token::decode')
    te = ctx.pfn('Token::encode')
    kd = td.calls_to('HandshakeTokenKey::aead_from_hkdf')
    ke = te.calls_to('HandshakeTokenKey::aead_from_hkdf')
    ctx.floor('a', 'token_key_derivation_sites', len(kd) + len(ke), 2)
    tcons = [c for c in constructions(F, 'token::Token', 'Token', crate='quinn_proto') if F.root_of(c.body).id == td.id]
    for c in tcons:
        nonce = describer(F, c.body).operand(c.field_op('nonce'), c.bb, c.idx)
        srcs = [arg_desc(F, k, 1) for k in kd] + [arg_desc(F, o, 2) for o in td.calls_to('AeadKey::open')]
        # the nonce reported is parsed from exactly the byte string that keyed (or was authenticated by) the AEAD
        ok = bool(kd) and any(x[0] not in ('const', 'agg') and any(n == x for n in walk(nonce)) for x in srcs)
        ctx.check(ok, 'a', 'decoded_nonce_is_the_authenticated_one', td, c.where(), 'Token.nonce is parsed from the bytes handed to aead_from_hkdf',
                  'Token::decode reports a nonce that is not parsed from the bytes the AEAD key was derived from (nor authenticated as associated data): the reuse log would be keyed by unauthenticated bytes: ' + D.render(nonce)[:160])
    for k in ke:
        a = arg_desc(F, k, 1)
        ok = any(x[0] == 'field' and x[2] == 'nonce' and x[1][0] == 'param' and x[1][1] == 1 for x in walk(a))
        ctx.check(ok, 'a', 'encoded_key_from_own_nonce', te, k.where(), D.render(a)[:80], 'Token::encode derives the AEAD key from something other than the nonce of the token it seals: ' + D.render(a)[:120])
    impls = [b for b in F.fns('aead_from_hkdf') if b.kind == 'fn' and b.crate == 'quinn_proto' and 'HandshakeTokenKey' in b.id]
    ctx.floor('a', 'token_key_implementations', len(impls), 1)
    for b in impls:
        ok = b.argc == 2 and _flows_to_return(b, 2)
        ctx.check(ok, 'a', 'token_key_derived_from_nonce', b, b.where(), 'a data path random_bytes -> returned AeadKey exists',
                  'the AEAD key returned by this HandshakeTokenKey::aead_from_hkdf does not depend on its `random_bytes` argument (the token nonce): every token is sealed under one key, '
                  'the trailing nonce bytes are not authenticated, and an altered nonce yields a "fresh" token for the reuse log')


def rule_b(ctx):
    F = ctx.facts
    fh = ctx.pfn('IncomingToken::from_header')
    errs = [c for c in constructions(F, 'token::InvalidRetryTokenError', 'InvalidRetryTokenError', crate='quinn_proto') if F.root_of(c.body).id == fh.id]
    ctx.check(len(errs) == 2, 'b', 'retry_failures_are_errors', fh, fh.where(), '2 InvalidRetryTokenError exits (address, lifetime)', 'expected two InvalidRetryTokenError exits, found %d' % len(errs))
    hf = ctx.pfn('Endpoint::handle_first_packet')
    it = [c for c in hf.calls() if c.is_('transport_error::Error::INVALID_TOKEN')]
    ic = hf.calls_to('Endpoint::initial_close')
    ok = bool(it) and any(contains_site(arg_desc(F, c, 5), t) for c in ic for t in it)
    ctx.check(ok, 'b', 'invalid_retry_token_closes_with_invalid_token', hf, hf.where(), 'initial_close(.., INVALID_TOKEN)', 'an invalid Retry token is no longer answered with INVALID_TOKEN')


def rule_c(ctx):
    F = ctx.facts
    # no SystemTime::now in the token paths: only TimeSource::now
    for fn in ('IncomingToken::from_header', 'Endpoint::retry', 'Connection::populate_packet'):
        b = ctx.pfn(fn)
        bad = [c for x in F.family(b) for c in x.calls() if c.is_('SystemTime::now', 'Instant::now')]
        ts = [c for c in b.calls_to('TimeSource::now')]
        ctx.check(not bad and bool(ts), 'c', 'token_time_from_time_source', b, b.where(), 'TimeSource::now (%d site)' % len(ts), '%s reads the wall clock directly instead of the configured TimeSource (%s)' % (fn, [c.where() for c in bad]))
    pp = ctx.pfn('Connection::populate_packet')
    vc = [c for c in constructions(F, 'token::TokenPayload', 'Validation', crate='quinn_proto') if F.root_of(c.body).id == pp.id]
    ctx.floor('c', 'new_token_payload_sites', len(vc), 1)
    for c in vc:
        v = describer(F, c.body).operand(c.field_op('issued'), c.bb, c.idx)
        ctx.check(_is_call(v, 'TimeSource::now'), 'c', 'new_token_issue_time', pp, c.where(), D.render(v)[:80], 'NEW_TOKEN issue time is not exactly the TimeSource reading: ' + D.render(v)[:120])
    rt = ctx.pfn('Endpoint::retry')
    rc = [c for c in constructions(F, 'token::TokenPayload', 'Retry', crate='quinn_proto') if F.root_of(c.body).id == rt.id]
    ctx.floor('c', 'retry_token_payload_sites', len(rc), 1)
    for c in rc:
        if True:
            dd = describer(F, c.body)
            v = dd.operand(c.field_op('issued'), c.bb, c.idx)
            a = dd.operand(c.field_op('address'), c.bb, c.idx)
            o = dd.operand(c.field_op('orig_dst_cid'), c.bb, c.idx)
            ctx.check(_is_call(v, 'TimeSource::now'), 'c', 'retry_token_issue_time', rt, c.where(), D.render(v)[:80], 'Retry token issue time is not exactly the TimeSource reading (post-/pre-dated): ' + D.render(v)[:120])
            ctx.check(D.has_field(a, 'remote') and D.has_field(o, 'dst_cid'), 'c', 'retry_token_binds_address_and_odcid', rt, c.where(), 'address: incoming.addresses.remote, orig_dst_cid: header.dst_cid', 'Retry token payload no longer binds the client address and original DCID')


def _is_int(x, n):
    return x[0] == 'const' and x[1] == 'int' and str(x[2]).split('_')[0] == str(n)


def _self_field(x, name):
    """exactly self.<name> (a projection of the receiver, nothing applied)"""
    return x[0] == 'field' and x[2] == name and x[1][0] == 'param' and x[1][1] == 1


def _other_packet_seen(o, a, b):
    """the relation says that a packet other than the one being processed was authenticated before: the counter
    self.total_authed_packets (which does NOT yet count this Retry: an unprotected packet is counted only once its
    integrity tag verified, behind this very gate) exceeds 0 — `0 < n`, `1 <= n`, or `n != 0`"""
    n = lambda x: _self_field(x, 'total_authed_packets')
    return (o == 'Lt' and _is_int(a, 0) and n(b)) or (o == 'Le' and _is_int(a, 1) and n(b)) or (o == 'Ne' and ((_is_int(a, 0) and n(b)) or (_is_int(b, 0) and n(a))))


def rule_d_retry(ctx):
    """client side: "follows a Retry only if its integrity tag verifies and no other server packet has been processed".
    The Retry arm of process_decrypted_packet changes state (records retry_src_cid, switches the remote CID and the Initial
    keys, re-queues 0-RTT data, takes the token).  Every such site must lie behind (i) a guard on the per-connection packet
    counter itself saying that this Retry is the first authenticated packet — a condition on any other state (for
    instance "no Retry followed yet") does not cover a server Initial processed earlier — and (ii) the pass edge of
    is_valid_retry evaluated against the currently used remote CID."""
    F = ctx.facts
    pdp = ctx.pfn('Connection::process_decrypted_packet')
    valid = pdp.calls_to('Session::is_valid_retry')
    ctx.floor('d', 'retry_tag_check_sites', len(valid), 1)
    st = [w for w in field_writes(F, 'Connection', 'retry_src_cid', crate='quinn_proto') if F.root_of(w.body).id == pdp.id and w.kind == 'assign']
    ctx.floor('d', 'retry_state_change_sites', len(st), 1)
    prot = [w.bb for w in st]
    # the Retry arm's other effects: the calls that only the arm makes, recognised by being dominated by the tag check
    # (the call itself, or the switch testing its verdict kept in a bool local: `let invalid = .. || !is_valid_retry(..); if invalid`)
    from rules.C04 import retry_tag_check_points, guard_protects_tracking, verdict_false_edges
    checked = retry_tag_check_points(F, pdp, valid)
    for pat in ('CidQueue::update_initial_cid', 'Session::initial_keys', 'StreamsState::retransmit_all_for_0rtt', 'Connection::discard_space'):
        prot += [c.bb for c in pdp.calls_to(pat) if any(pdp.dominates(x, c.bb) for x in checked)]
    # counting the Retry (total_authed_packets, idle timer) is an effect of following it: EVERY counting site of the function,
    # wherever it stands, must lie behind the gate and the tag check — a Retry counted before it was validated closes the
    # gate for the genuine one
    cnt = pdp.calls_to('Connection::on_packet_authenticated')
    ctx.floor('d', 'accepted_retry_count_sites', len(cnt), 1)
    prot += [c.bb for c in cnt]
    prot = sorted(set(prot))
    ctx.floor('d', 'retry_effect_sites', len(prot), 4)
    guard_protects_tracking(ctx, 'd', 'retry_only_before_other_server_packets', pdp, _other_packet_seen, prot, what='self.total_authed_packets > 0 (a packet of the server was accepted before this Retry)')
    # the gate constant agrees with the counting site.  `> 0` means "another server packet was processed" only if the Retry at
    # hand has not been counted when the gate is read: handle_packet counts protected packets only
    # (c/every_processed_packet_is_counted_unprotected_not_counted_before_validation) and the counting sites of this function
    # lie behind the gate (above).  And it means "restarts the handshake once" only if the accepted Retry is counted at all:
    for w in st:
        okc = any(pdp.dominates(c.bb, w.bb) for c in cnt) or (bool(cnt) and path_avoiding(pdp, pdp.succ[w.bb], pdp.return_blocks(), {c.bb for c in cnt}) is None)
        ctx.check(okc, 'd', 'accepted_retry_counts_itself', pdp, w.where(), 'on_packet_authenticated on every path that follows the Retry',
                  'a Retry can be followed without being counted in total_authed_packets: a second Retry then passes the `total_authed_packets > 0` gate and restarts the handshake again')
    for c in valid:
        ok, found = True, False
        for br, t_bad in verdict_false_edges(F, pdp, c):
            found = True
            ok = ok and all(p not in pdp.reachable_from(t_bad, avoid=[br.bb]) for p in prot) and all(pdp.dominates(br.bb, p) for p in prot)
        ctx.check(ok and found, 'd', 'retry_needs_valid_integrity_tag', pdp, c.where(), 'the is_valid_retry == false edge of a dominating branch reaches no Retry state change',
                  'the Retry state changes are reachable without a valid integrity tag (the verdict is not branched on directly, or its false edge reaches them)')
        cid = arg_desc(F, c, 1)
        # the tag covers the DCID of the client's first Initial; behind the first-packet gate that CID is, equivalently,
        # self.rem_cids.active(), self.initial_dst_cid or self.orig_rem_cid — and nothing taken from the Retry packet itself
        ok = (cid[0] == 'call' and cid[1] == 'CidQueue::active' and len(cid[3]) == 1 and _self_field(cid[3][0], 'rem_cids')) or _self_field(cid, 'initial_dst_cid') or _self_field(cid, 'orig_rem_cid')
        ctx.check(ok, 'd', 'retry_tag_bound_to_original_dcid', pdp, c.where(), D.render(cid)[:80],
                  'the Retry integrity tag is not verified against the destination CID the client chose for its first Initial (self.rem_cids.active() / initial_dst_cid / orig_rem_cid): ' + D.render(cid)[:120])
    # the counter means "packets accepted so far": +1 on every path through on_packet_authenticated, written nowhere else
    # (handle_packet -> on_packet_authenticated before process_decrypted_packet for every protected packet is c/every_processed_packet_is_counted)
    opa = ctx.pfn('Connection::on_packet_authenticated')
    inc = [(w, v) for w, v in store_values(ctx, 'Connection', 'total_authed_packets', in_fn=opa)]
    ok = bool(inc) and all(v[0] == 'bin' and v[1] == 'Add' and ((_is_int(v[3], 1) and _self_field(v[2], 'total_authed_packets')) or (_is_int(v[2], 1) and _self_field(v[3], 'total_authed_packets'))) for w, v in inc)
    ok = ok and all(path_avoiding(opa, [0], opa.return_blocks(), {w.bb}) is None for w, v in inc)
    ctx.check(ok, 'd', 'retry_gate_counter_counts_every_packet', opa, opa.where(), 'total_authed_packets += 1 on every path through on_packet_authenticated',
              'on_packet_authenticated no longer counts every authenticated packet by exactly one: the `total_authed_packets > 0` Retry gate then never closes (or closes late)')
    who_may_write(ctx, 'd', 'retry_gate_counter_writers', 'Connection', 'total_authed_packets', ['Connection::on_packet_authenticated', 'Connection::new'], floor=1)


def rule_d(ctx):
    F = ctx.facts
    rule_d_retry(ctx)
    hpp = ctx.pfn('Connection::handle_peer_params')
    sp = [c.bb for c in hpp.calls_to('Connection::set_peer_params')]
    ctx.floor('d', 'set_peer_params_site', len(sp), 1)

    def cidcmp(fa, fb):
        return lambda o, a, b: o == 'Ne' and ((D.has_field(a, fa) and D.has_field(b, fb)) or (D.has_field(b, fa) and D.has_field(a, fb)))
    for name, fa, fb in (('initial_src_cid', 'orig_rem_cid', 'initial_src_cid'), ('original_dst_cid', 'initial_dst_cid', 'original_dst_cid'), ('retry_src_cid', 'retry_src_cid', 'retry_src_cid')):
        es = guard_edges(ctx, hpp, cidcmp(fa, fb))
        ok = bool(es) and bool(sp)
        for br, truth, tgt in es:
            # the comparison lies on every path to set_peer_params; the two server-only parameters may be skipped only over
            # the is_client() == false edge (a server never receives them)
            skip = set()
            if name != 'initial_src_cid':
                skip = {(cb.bb, t) for cb, tr, t in bool_edges(ctx, hpp, lambda x: x[0] == 'call' and x[1] == 'ConnectionSide::is_client' and D.has_field(x, 'side') and D.has_param(x, name='self')) if not tr}
            if set(sp) & hpp.reachable_from(0, avoid=[br.bb], avoid_edges=skip):
                ok = False
            eff = err_code_calls(ctx, hpp, 'TRANSPORT_PARAMETER_ERROR')
            if path_avoiding(hpp, [tgt], set(hpp.return_blocks()) | set(sp), eff) is not None:
                ok = False
            # the comparison must be a plain inequality of the two values (not conditional on the parameter being present)
            rel = relation_on(br.desc, truth)
            if any(x[0] == 'call' and x[1] in ('Option::is_some_and', 'Option::map_or', 'Option::is_none_or') for x in walk(br.desc)):
                ok = False
        ctx.check(ok, 'd', 'cid_echo_checked_' + name, hpp, hpp.where(), '%s != params.%s -> TRANSPORT_PARAMETER_ERROR before set_peer_params' % (fa, fb),
                  'the %s echo is no longer compared unconditionally (a missing parameter must fail the check): a forged Retry / spoofed Initial would go undetected' % name)
    # server fills the echo parameters from the token
    ac = ctx.pfn('Endpoint::accept')
    for fld, src in (('original_dst_cid', 'orig_dst_cid'), ('retry_src_cid', 'retry_src_cid')):
        st = [(w, v) for w, v in store_values(ctx, 'TransportParameters', fld, in_fn=ac)]
        ok = bool(st) and all(D.has_field(v, 'token') and D.has_field(v, src) for w, v in st)
        ctx.check(ok, 'd', 'server_echoes_' + fld, ac, st[0][0].where() if st else ac.where(), 'params.%s = incoming.token.%s' % (fld, src), 'the server no longer echoes %s from the validated token' % fld)
    who_may_call(ctx, 'd', 'set_peer_params_callers', ['Connection::set_peer_params'], ['Connection::handle_peer_params', 'Connection::init_0rtt'], floor=2)


def rule_e(ctx):
    F = ctx.facts
    tk = ctx.pfn('token_memory_cache::State::take')
    rd = [y for _, x in ret_descs(F, tk) for y in flat(x)]
    ok = any(D.has_call(y, 'VecDeque::pop_front') for y in rd) and not any(D.has_call(y, 'VecDeque::front') or D.has_call(y, 'VecDeque::get') for y in rd)
    ctx.check(ok, 'e', 'token_cache_take_removes', tk, tk.where(), 'returns tokens.pop_front()', 'TokenMemoryCache::take hands out a token without removing it')
    cs = ctx.pfn('<ConnectionSide as From>::from')
    ctx.check(bool(cs.calls_to('TokenStore::take')), 'e', 'client_token_obtained_by_take', cs, cs.where(), 'token_store.take(server_name)', 'the client no longer obtains its token through TokenStore::take')
    nt = ctx.pfn('<NoneTokenStore as TokenStore>::take')
    rd = [y for _, x in ret_descs(F, nt) for y in flat(x)]
    ctx.check(all(y[0] == 'agg' and y[2].endswith('None') for y in rd), 'e', 'none_store_returns_none', nt, nt.where(), 'None', 'NoneTokenStore::take returns a token')


def _typed_param(body, ty):
    """the unique parameter of `body` whose declared type is `ty` (position and name free), as a descriptor test"""
    idx = [i for i in range(1, body.argc + 1) if body.locals[i][0] == ty]
    return (lambda x: x[0] == 'param' and x[1] == idx[0]) if len(idx) == 1 else None


def _quotients(F, root):
    """(body, where, dividend, divisor) of every division evaluated in `root` or its closures: the `/` operator and the
    div-family methods (checked_div, div_euclid, div_duration_f64, <_ as Div>::div ..)"""
    out = []
    for x in F.family(root):
        d = describer(F, x)
        for i, j, pl, rv, line in x.assigns():
            if rv[0] == 'bin' and rv[1] == 'Div':
                v = d.rvalue(rv, i, j, 0)
                out.append((x, '%s:%d' % (x.file, line), v[2], v[3]))
        for c in x.calls():
            if is_noise(c):
                continue
            m = c.f.rsplit('::', 1)[-1].split('<')[0]
            if m == 'div' or m.startswith('div_') or m.endswith('_div') or '_div_' in m:
                a = [arg_desc(F, c, k) for k in range(len(c.args))]
                if len(a) >= 2:
                    out.append((x, c.where(), a[0], a[1]))
    return out


def _nanos_of(x):
    """x is exactly Duration::as_nanos(<d>) — the one integer reading of a Duration that loses nothing (as_secs / as_millis
    / as_micros truncate, the float forms round) — returns <d>"""
    if x[0] == 'call' and x[1] == 'Duration::as_nanos' and len(x[3]) == 1:
        return x[3][0]
    return None


def _applied_to(F, root, body):
    """for a closure `body` of `root`: (receiver descriptor, captured operands) of the Result/Option combinator call in
    root that applies it to the success value; None when it is used in any other way"""
    for c in root.calls():
        if body in closure_args(F, c):
            if not any(c.is_(n) for n in ('Result::map', 'Result::and_then', 'Result::map_or', 'Option::map', 'Option::and_then')):
                return None
            recv = arg_desc(F, c, 0)
            while recv[0] == 'call' and recv[1] == 'Result::ok' and len(recv[3]) == 1:
                recv = recv[3][0]
            caps = [y[3] for k in range(len(c.args)) for y in walk(arg_desc(F, c, k)) if y[0] == 'agg' and y[1] == 'closure' and y[2] == body.canon]
            return recv, (caps[0] if caps else ())
    return None


def rule_f_period(ctx, bl):
    """BloomTokenLog keeps a token in the filter of the period in which it EXPIRES; the window moves by exactly `lifetime`
    (`period_1_start += lifetime`) or restarts at this token's expiry.  "Not accepted before" over histories needs every
    presentation of one token to compute the same period, i.e. the index is the exact quotient
        (issued + lifetime - period_1_start) / lifetime
    with the very quantity the window advances by as divisor.  Structural carrier: the (only) division of the function has
    both operands read at full resolution (Duration::as_nanos, nothing applied), the divisor's Duration IS the lifetime
    parameter, the dividend's Duration IS the Ok value of duration_since(issued + lifetime, state.period_1_start); and
    every store to period_1_start adds exactly the lifetime parameter or stores issued + lifetime."""
    F = ctx.facts
    is_life = _typed_param(bl, 'std::time::Duration')
    is_iss = _typed_param(bl, 'std::time::SystemTime')
    if is_life is None or is_iss is None:
        # fail closed: the anchor (one SystemTime and one Duration parameter) is gone
        ctx.bad('f', 'period_index_is_exact_quotient', bl, bl.where(), 'cannot identify the issue-time / lifetime parameters of BloomTokenLog::check_and_insert by type')
        return

    def expiry(x):
        return x[0] == 'call' and x[1] == '<SystemTime as Add>::add' and len(x[3]) == 2 and is_iss(x[3][0]) and is_life(x[3][1])

    def window_start(x):
        return x[0] == 'field' and x[2] == 'period_1_start'

    def since_start(x):
        return x[0] == 'call' and x[1] == 'SystemTime::duration_since' and len(x[3]) == 2 and expiry(x[3][0]) and window_start(x[3][1])

    qs = _quotients(F, bl)
    ctx.floor('f', 'period_index_divisions', len(qs), 1)
    for body, where, a, b in qs:
        why = []
        da, db = _nanos_of(a), _nanos_of(b)
        if da is None or db is None:
            why.append('an operand is not a plain Duration::as_nanos(..) reading (%s / %s): a truncated or rounded unit makes the index disagree with the window, which moves by the full lifetime' % (D.render(a)[:60], D.render(b)[:60]))
        else:
            app = _applied_to(F, bl, body) if body.id != bl.id else None
            if body.id != bl.id and app is None:
                why.append('the closure computing the quotient is not applied to the Ok value of a Result')
            # divisor: the lifetime parameter itself (directly, or captured by the closure)
            if db[0] == 'upvar' and app is not None:
                caps = app[1]
                hit = [y for y in caps if is_life(y)]
                if not (hit and (len(caps) == 1 or db[1] == hit[0][2])):
                    why.append('the divisor is not the lifetime parameter (captured %s)' % D.render(db))
            elif not is_life(db):
                why.append('the divisor is not the lifetime parameter: ' + D.render(db)[:60])
            # dividend: Ok(duration_since(issued + lifetime, period_1_start))
            if body.id != bl.id and app is not None:
                if not (da[0] == 'param' and da[1] == 2 and since_start(app[0])):
                    why.append('the dividend is not the time from period_1_start to issued + lifetime: %s applied to %s' % (D.render(da)[:40], D.render(app[0])[:100]))
            elif body.id == bl.id:
                y = da
                if y[0] == 'field' and y[2] == '0' and y[1][0] == 'variant' and y[1][2] == 'Ok':
                    y = y[1][1]
                else:
                    y = ('none',)
                if not since_start(y):
                    why.append('the dividend is not the time from period_1_start to issued + lifetime: ' + D.render(da)[:100])
        ctx.check(not why, 'f', 'period_index_is_exact_quotient', bl, where, 'as_nanos(duration_since(issued + lifetime, period_1_start)) / as_nanos(lifetime)',
                  'the token-log period index is not the exact quotient (expiry - period_1_start) / lifetime; ' + '; '.join(why))
    # the window and the divisor agree: period_1_start only ever moves by the lifetime parameter or to this token's expiry
    n = 0
    for w in field_writes(F, 'bloom_token_log::State', 'period_1_start', crate='quinn_proto', include_borrows=True):
        if F.root_of(w.body).id != bl.id:
            continue
        if w.kind == 'mutborrow' and w.call is not None and is_noise(w.call):
            continue
        n += 1
        ok = False
        if w.kind == 'mutborrow' and w.call is not None and w.call.is_('<SystemTime as AddAssign>::add_assign'):
            ok = w.body.id == bl.id and is_life(arg_desc(F, w.call, 1)) and window_start(arg_desc(F, w.call, 0))
        elif w.kind == 'assign' and w.rv and w.rv[0] != 'sd' and w.body.id == bl.id:
            v = describer(F, bl).rvalue(w.rv, w.bb, w.idx, 0)
            ok = expiry(v) or (v[0] == 'call' and v[1] == '<SystemTime as Add>::add' and len(v[3]) == 2 and window_start(v[3][0]) and is_life(v[3][1]))
        ctx.check(ok, 'f', 'period_window_moves_by_lifetime', bl, w.where(), 'period_1_start += lifetime | period_1_start = issued + lifetime',
                  'period_1_start is moved by something other than the lifetime parameter / set to something other than issued + lifetime: the period index (a quotient by the full lifetime) no longer matches the window')
    ctx.floor('f', 'period_window_stores', n, 2)


def rule_f(ctx):
    F = ctx.facts
    bl = ctx.pfn('<BloomTokenLog as TokenLog>::check_and_insert')
    rule_f_period(ctx, bl)
    fc = bl.calls_to('Filter::check_and_insert')
    ok = bool(fc)
    if ok:
        rd = [y for _, x in ret_descs(F, bl) for y in flat(x)]
        ok = bool(rd) and all((y[0] == 'agg' and y[2].endswith('Err')) or _is_call(y, 'Filter::check_and_insert') for y in rd) and any(_is_call(y, 'Filter::check_and_insert') for y in rd)
    ctx.check(ok, 'f', 'log_always_consults_filter', bl, bl.where(), 'the verdict returned is an Err literal or exactly the result of Filter::check_and_insert', 'BloomTokenLog can accept a token without consulting a filter')
    # expiry-based period selection uses issued + lifetime
    d = describer(F, bl)
    ea = local_defs_desc(ctx, bl, 'expires_at')
    ctx.check(any(D.has_param(x, name='issued') and D.has_param(x, name='lifetime') for x in ea), 'f', 'period_from_issue_time', bl, bl.where(), 'expires_at = issued + lifetime', 'the log period is no longer derived from issued + lifetime')
    nl = ctx.pfn('<NoneTokenLog as TokenLog>::check_and_insert')
    rd = [y for _, x in ret_descs(F, nl) for y in flat(x)]
    ctx.check(all(y[0] == 'agg' and y[2].endswith('Err') for y in rd), 'f', 'none_log_rejects', nl, nl.where(), 'Err(TokenReuseError)', 'NoneTokenLog accepts tokens')
    pp = ctx.pfn('Connection::populate_packet')
    tn = pp.calls_to('Token::new')
    en = pp.calls_to('Token::encode')
    # the token encoded is made for this very frame: its Token::new site dominates the encode and is re-executed before the
    # encode can run again (no cycle through the encode avoids it)
    ok = bool(tn) and bool(en) and all(any(contains_site(arg_desc(F, e, 0), t) and pp.dominates(t.bb, e.bb) and e.bb not in pp.reachable_strict(e.bb, avoid=[t.bb]) for t in tn)
                                       and all(any(contains_site(y, t) for t in tn) for y in flat(arg_desc(F, e, 0))) for e in en)
    ctx.check(ok, 'f', 'new_token_fresh_per_transmission', pp, pp.where(), 'Token::new(..).encode(..) per NEW_TOKEN frame', 'NEW_TOKEN frames no longer carry a freshly generated token')
    tnw = ctx.pfn('Token::new')
    nc = [c for c in constructions(F, 'token::Token', 'Token', crate='quinn_proto') if c.body.id == tnw.id]
    ctx.floor('f', 'token_new_constructions', len(nc), 1)
    for c in nc:
        if True:
            v = describer(F, tnw).operand(c.field_op('nonce'), c.bb, c.idx)
            ctx.check(D.has_param(v, name='rng') or 'random' in D.render(v), 'f', 'token_nonce_random', tnw, c.where(), D.render(v)[:80], 'token nonce is not drawn from the rng')


def run(ctx):
    from rules.shared_rules import every_processed_packet_is_counted
    every_processed_packet_is_counted(ctx, 'c', 'every_processed_packet_is_counted')
    rule_a(ctx)
    rule_a_nonce_binding(ctx)
    rule_b(ctx)
    rule_c(ctx)
    rule_d(ctx)
    rule_e(ctx)
    rule_f(ctx)
    ctx.assume('HandshakeTokenKey / AeadKey / TimeSource / TokenLog / TokenStore implementations other than the built-in ones are component boundaries')
