"""C14 — validation tokens and Retry cannot be forged, moved or replayed (structural part)."""
from engine.rulelib import *
from engine import desc as D

EXPLANATION = ("Static rules over quinn-proto MIR: (a) IncomingToken{validated: true} is constructed only in from_header, each site dominated by a successful "
               "Token::decode and by the address / lifetime tests (and, for NEW_TOKEN tokens, by the token log accepting the nonce); the log is consulted with the "
               "token's own nonce and *issue* time; Token::decode yields a token only past AeadKey::open's Ok edge, a known type byte and an exhausted reader; "
               "(b) outcome classes: Retry-token failures -> InvalidRetryTokenError -> INVALID_TOKEN close; validation-token failures -> unvalidated; (c) token "
               "timestamps come only from the configured TimeSource; (d) client Retry acceptance guards (shared with C04.d) and the CID-echo check in "
               "handle_peer_params comparing all three CIDs unconditionally before set_peer_params; the server fills original_dst_cid / retry_src_cid from the token; "
               "(e) client token stores hand out by removing (pop_front); (f) the token log always ends in the filter's check_and_insert; NEW_TOKEN frames carry a "
               "fresh Token::new per transmission. Cryptographic unforgeability and bloom period arithmetic are NOT decided.")
RULE = "rule instances = (rule, site) pairs over MIR constructions / branches / call arguments; non-trivial = bound to a real site"


def _is_call(d, *names):
    """the value IS the result of a call of one of `names` (every reaching alternative), with nothing applied to it"""
    xs = flat(d)
    return bool(xs) and all(x[0] == 'call' and any(x[1] == n or path_matches(x[2], n) or D._trait_form(x[1]) == n for n in names) for x in xs)


def _is_param(d, name):
    return d[0] == 'param' and d[2] == name


def _token_field(d, variant, name):
    """d is exactly `(<Token::decode(..) as Some>.0.payload as <variant>).<name>`: a projection chain ending in the decoded
    token, with no call / arithmetic / literal / merge applied on the way"""
    if not (d[0] == 'field' and d[2] == name and d[1][0] == 'variant' and d[1][2] == variant):
        return False
    x = d[1][1]
    while x[0] in ('field', 'variant'):
        x = x[1]
    return x[0] == 'call' and x[1] == 'Token::decode'


def _remote_ip(d):
    """exactly remote_address.ip()"""
    return d[0] == 'call' and d[1] == 'SocketAddr::ip' and len(d[3]) == 1 and _is_param(d[3][0], 'remote_address')


def _int0(x):
    return x[0] == 'const' and x[1] == 'int' and str(x[2]).split('_')[0] == '0'


def _len_of(x, about):
    return x[0] == 'call' and x[1].rsplit('::', 1)[-1] in ('len', 'remaining') and about(x)


def _nonempty_edges(ctx, body, about):
    """(Branch, target) for every branch edge on which the byte reader selected by about(desc) is known NOT to be exhausted:
    is_empty() == false, has_remaining() == true, len()/remaining() != 0, 0 < len()"""
    out = []
    for br in branches(ctx.facts, body):
        inner, neg = peel_not(br.desc)
        if inner[0] == 'call' and about(inner):
            m = inner[1].rsplit('::', 1)[-1]
            if m == 'is_empty':
                out.append((br, br.target(1 if neg else 0)))
                continue
            if m == 'has_remaining':
                out.append((br, br.target(0 if neg else 1)))
                continue
        for truth in (True, False):
            rel = relation_on(br.desc, truth)
            if rel is None:
                continue
            op, a, b = rel
            if (op == 'Ne' and ((_int0(a) and _len_of(b, about)) or (_int0(b) and _len_of(a, about)))) or (op == 'Lt' and _int0(a) and _len_of(b, about)):
                out.append((br, br.target(1 if truth else 0)))
    return out


def rule_a(ctx):
    F = ctx.facts
    fh = ctx.pfn('IncomingToken::from_header')
    d = describer(F, fh)
    cons = [c for c in constructions(F, 'token::IncomingToken', 'IncomingToken', crate='quinn_proto')]
    val = []
    for c in cons:
        dd = describer(F, c.body)
        v = dd.operand(c.field_op('validated'), c.bb, c.idx)
        if not (v[0] == 'const' and str(v[2]) == '0'):
            val.append(c)
            ctx.check(F.root_of(c.body).id == fh.id, 'a', 'validated_token_sites', F.root_of(c.body), c.where(), 'validated: true in from_header', 'IncomingToken{validated: true} constructed outside from_header')
    # the flag can also be turned on after construction: any store to / &mut borrow of IncomingToken.validated other than `= false`
    for w in field_writes(F, 'IncomingToken', 'validated', crate='quinn_proto'):
        if w.kind == 'mutborrow' and w.call is not None and is_noise(w.call):
            continue
        harmless = False
        if w.kind == 'assign' and w.rv and w.rv[0] == 'use' and place_ends_in_field(w.place, 'IncomingToken', 'validated'):
            wv = describer(F, w.body).rvalue(w.rv, w.bb, w.idx, 0)
            harmless = wv[0] == 'const' and str(wv[2]) == '0'
        ctx.check(harmless, 'a', 'validated_token_sites', F.root_of(w.body), w.where(), 'IncomingToken.validated = false', '%s of IncomingToken.validated in %s: the flag is (or can be) set outside the constructions in from_header' % (w.kind, F.root_of(w.body).short))
    # the per-site obligations below are stated over from_header; constructions elsewhere were reported above
    val = [c for c in val if F.root_of(c.body).id == fh.id and c.body.id == fh.id]
    ctx.check(len(val) == 2, 'a', 'validated_token_site_count', fh, fh.where(), '2 sites (Retry, Validation)', 'expected two validated-token construction sites, found %d' % len(val))
    dec = fh.calls_to('Token::decode')
    ctx.floor('a', 'decode_sites', len(dec), 1)
    for c in val:
        p = must_precede(F, fh, c.bb, ['Token::decode'], 0)
        ctx.check(p is None, 'a', 'validated_only_after_decode', fh, c.where(), 'dominated by Token::decode', 'a token can be accepted without decoding')
    # decode None edge -> unvalidated
    for dcall in dec:
        # the Option returned by decode is itself branched on (not handed to a combinator that may substitute a token), the
        # branch dominates every acceptance and its None edge reaches none
        dbr = [br for br in branches(F, fh) if br.desc[0] == 'discr' and br.desc[1][0] != 'phi' and is_site(br.desc[1], dcall)]
        ok = bool(dbr) and bool(val)
        for br in dbr:
            t_none = br.target(0)
            if any(c.bb in fh.reachable_from(t_none, avoid=[br.bb]) for c in val):
                ok = False
        if not all(any(fh.dominates(br.bb, c.bb) for br in dbr) for c in val):
            ok = False
        ctx.check(ok, 'a', 'undecodable_token_is_absent', fh, dcall.where(), 'None edge reaches no validated construction', 'an undecodable token can validate the address (no branch on the decode result whose None edge is cut off from every acceptance)')
    # per-site guards
    retry_site = [c for c in val if D.has_field(describer(F, fh).operand(c.field_op('retry_src_cid'), c.bb, c.idx), 'dst_cid')]
    valid_site = [c for c in val if c not in retry_site]
    ctx.check(len(retry_site) == 1 and len(valid_site) == 1, 'a', 'token_kind_sites', fh, fh.where(), 'one Retry and one Validation acceptance site', 'cannot tell the Retry and Validation acceptance sites apart')
    if retry_site:
        s = retry_site[0].bb
        guard_protects(ctx, 'a', 'retry_token_bound_to_address_and_port', fh, lambda o, a, b: o == 'Ne' and ((_token_field(a, 'Retry', 'address') and _is_param(b, 'remote_address')) or (_token_field(b, 'Retry', 'address') and _is_param(a, 'remote_address'))), [s], what='token.address != remote_address')
        guard_protects(ctx, 'a', 'retry_token_lifetime', fh, lambda o, a, b: o == 'Lt' and D.has_field(a, 'retry_token_lifetime') and D.has_call(b, 'TimeSource::now'), [s], what='issued + retry_token_lifetime < now')
    if valid_site:
        s = valid_site[0].bb
        guard_protects(ctx, 'a', 'validation_token_bound_to_ip', fh, lambda o, a, b: o == 'Ne' and ((_token_field(a, 'Validation', 'ip') and _remote_ip(b)) or (_token_field(b, 'Validation', 'ip') and _remote_ip(a))), [s], what='token.ip != remote_address.ip()')
        guard_protects(ctx, 'a', 'validation_token_lifetime', fh, lambda o, a, b: o == 'Lt' and D.has_field(a, 'validation_token') and D.has_field(a, 'lifetime') and D.has_call(b, 'TimeSource::now'), [s], what='issued + lifetime < now')
        logc = fh.calls_to('TokenLog::check_and_insert')
        ctx.floor('a', 'token_log_sites', len(logc), 1)
        for lc in logc:
            ok = False
            for br in branches(F, fh):
                inner, neg = peel_not(br.desc)
                if inner[0] == 'call' and inner[1] == 'Result::is_err' and contains_site(inner, lc):
                    t_err = br.target(0 if neg else 1)
                    ok = fh.dominates(br.bb, s) and s not in fh.reachable_from(t_err, avoid=[br.bb])
            ctx.check(ok, 'a', 'validation_token_single_use', fh, lc.where(), 'check_and_insert Err edge reaches no acceptance', 'a NEW_TOKEN token is accepted although the token log reported reuse (or its result is ignored)')
            n = arg_desc(F, lc, 1)
            iss = arg_desc(F, lc, 2)
            lt = arg_desc(F, lc, 3)
            ctx.check(D.has_field(n, 'nonce') and D.has_call(n, 'Token::decode'), 'a', 'log_keyed_by_token_nonce', fh, lc.where(), D.render(n)[:80], 'the token log is not consulted with the tokens nonce')
            ctx.check(D.has_call(iss, 'Token::decode') and not D.has_call(iss, 'TimeSource::now') and 'issued' in D.render(iss), 'a', 'log_given_issue_time', fh, lc.where(), D.render(iss)[:100],
                      'the token log is given a time other than the tokens own issue time (the log selects its period filter from issued + lifetime; using `now` lets a token be replayed in a later period): ' + D.render(iss)[:160])
            ctx.check(D.has_field(lt, 'lifetime'), 'a', 'log_given_lifetime', fh, lc.where(), D.render(lt)[:80], 'the token log is not given the configured lifetime')
    # Token::decode
    td = ctx.pfn('Token::decode')
    opn = td.calls_to('AeadKey::open')
    ctx.floor('a', 'aead_open_sites', len(opn), 1)
    tcons = [c for c in constructions(F, 'token::Token', 'Token', crate='quinn_proto') if F.root_of(c.body).id == td.id]
    ctx.floor('a', 'token_constructions_in_decode', len(tcons), 1)
    for c in tcons:
        ctx.check(must_precede(F, td, c.bb, ['AeadKey::open'], 0) is None, 'a', 'token_only_after_aead_open', td, c.where(), 'dominated by AeadKey::open', 'Token::decode can yield a token without opening the AEAD')
        em = _nonempty_edges(ctx, td, lambda x: D.has_call(x, 'AeadKey::open'))
        ok = any(td.dominates(br.bb, c.bb) and c.bb not in td.reachable_from(tgt, avoid=[br.bb]) for br, tgt in em)
        ctx.check(ok, 'a', 'trailing_bytes_rejected', td, c.where(), 'Some(token) only over the reader.is_empty() edge of a dominating test', 'tokens with trailing bytes are accepted (the construction is reachable from the non-empty edge, or the test is gone)')
    for o in opn:
        okk = False
        for br in branches(F, td):
            if br.desc[0] == 'discr' and contains_site(br.desc[1], o):
                # the branch on the open() outcome controls the construction: one side reaches no Token{..}
                sides = [t for _, t in br.edges if not td.blocks[t]['t'][0] == 'unreach']
                okk = any(all(c.bb not in td.reachable_from(t) for c in tcons) for t in sides) and any(any(c.bb in td.reachable_from(t) for c in tcons) for t in sides)
        ctx.check(okk, 'a', 'aead_failure_yields_no_token', td, o.where(), 'failed open -> None', 'a token whose AEAD open failed is still decoded')


def rule_b(ctx):
    F = ctx.facts
    fh = ctx.pfn('IncomingToken::from_header')
    errs = [c for c in constructions(F, 'token::InvalidRetryTokenError', 'InvalidRetryTokenError', crate='quinn_proto') if F.root_of(c.body).id == fh.id]
    ctx.check(len(errs) == 2, 'b', 'retry_failures_are_errors', fh, fh.where(), '2 InvalidRetryTokenError exits (address, lifetime)', 'expected two InvalidRetryTokenError exits, found %d' % len(errs))
    hf = ctx.pfn('Endpoint::handle_first_packet')
    it = [c for c in hf.calls() if c.is_('transport_error::Error::INVALID_TOKEN')]
    ic = hf.calls_to('Endpoint::initial_close')
    ok = bool(it) and any(contains_site(arg_desc(F, c, 5), t) for c in ic for t in it)
    ctx.check(ok, 'b', 'invalid_retry_token_closes_with_invalid_token', hf, hf.where(), 'initial_close(.., INVALID_TOKEN)', 'an invalid Retry token is no longer answered with INVALID_TOKEN')


def rule_c(ctx):
    F = ctx.facts
    # no SystemTime::now in the token paths: only TimeSource::now
    for fn in ('IncomingToken::from_header', 'Endpoint::retry', 'Connection::populate_packet'):
        b = ctx.pfn(fn)
        bad = [c for x in F.family(b) for c in x.calls() if c.is_('SystemTime::now', 'Instant::now')]
        ts = [c for c in b.calls_to('TimeSource::now')]
        ctx.check(not bad and bool(ts), 'c', 'token_time_from_time_source', b, b.where(), 'TimeSource::now (%d site)' % len(ts), '%s reads the wall clock directly instead of the configured TimeSource (%s)' % (fn, [c.where() for c in bad]))
    pp = ctx.pfn('Connection::populate_packet')
    vc = [c for c in constructions(F, 'token::TokenPayload', 'Validation', crate='quinn_proto') if F.root_of(c.body).id == pp.id]
    ctx.floor('c', 'new_token_payload_sites', len(vc), 1)
    for c in vc:
        v = describer(F, c.body).operand(c.field_op('issued'), c.bb, c.idx)
        ctx.check(_is_call(v, 'TimeSource::now'), 'c', 'new_token_issue_time', pp, c.where(), D.render(v)[:80], 'NEW_TOKEN issue time is not exactly the TimeSource reading: ' + D.render(v)[:120])
    rt = ctx.pfn('Endpoint::retry')
    rc = [c for c in constructions(F, 'token::TokenPayload', 'Retry', crate='quinn_proto') if F.root_of(c.body).id == rt.id]
    ctx.floor('c', 'retry_token_payload_sites', len(rc), 1)
    for c in rc:
        if True:
            dd = describer(F, c.body)
            v = dd.operand(c.field_op('issued'), c.bb, c.idx)
            a = dd.operand(c.field_op('address'), c.bb, c.idx)
            o = dd.operand(c.field_op('orig_dst_cid'), c.bb, c.idx)
            ctx.check(_is_call(v, 'TimeSource::now'), 'c', 'retry_token_issue_time', rt, c.where(), D.render(v)[:80], 'Retry token issue time is not exactly the TimeSource reading (post-/pre-dated): ' + D.render(v)[:120])
            ctx.check(D.has_field(a, 'remote') and D.has_field(o, 'dst_cid'), 'c', 'retry_token_binds_address_and_odcid', rt, c.where(), 'address: incoming.addresses.remote, orig_dst_cid: header.dst_cid', 'Retry token payload no longer binds the client address and original DCID')


def rule_d(ctx):
    F = ctx.facts
    hpp = ctx.pfn('Connection::handle_peer_params')
    sp = [c.bb for c in hpp.calls_to('Connection::set_peer_params')]
    ctx.floor('d', 'set_peer_params_site', len(sp), 1)

    def cidcmp(fa, fb):
        return lambda o, a, b: o == 'Ne' and ((D.has_field(a, fa) and D.has_field(b, fb)) or (D.has_field(b, fa) and D.has_field(a, fb)))
    for name, fa, fb in (('initial_src_cid', 'orig_rem_cid', 'initial_src_cid'), ('original_dst_cid', 'initial_dst_cid', 'original_dst_cid'), ('retry_src_cid', 'retry_src_cid', 'retry_src_cid')):
        es = guard_edges(ctx, hpp, cidcmp(fa, fb))
        ok = bool(es) and bool(sp)
        for br, truth, tgt in es:
            # the comparison lies on every path to set_peer_params; the two server-only parameters may be skipped only over
            # the is_client() == false edge (a server never receives them)
            skip = set()
            if name != 'initial_src_cid':
                skip = {(cb.bb, t) for cb, tr, t in bool_edges(ctx, hpp, lambda x: x[0] == 'call' and x[1] == 'ConnectionSide::is_client' and D.has_field(x, 'side') and D.has_param(x, name='self')) if not tr}
            if set(sp) & hpp.reachable_from(0, avoid=[br.bb], avoid_edges=skip):
                ok = False
            eff = err_code_calls(ctx, hpp, 'TRANSPORT_PARAMETER_ERROR')
            if path_avoiding(hpp, [tgt], set(hpp.return_blocks()) | set(sp), eff) is not None:
                ok = False
            # the comparison must be a plain inequality of the two values (not conditional on the parameter being present)
            rel = relation_on(br.desc, truth)
            if any(x[0] == 'call' and x[1] in ('Option::is_some_and', 'Option::map_or', 'Option::is_none_or') for x in walk(br.desc)):
                ok = False
        ctx.check(ok, 'd', 'cid_echo_checked_' + name, hpp, hpp.where(), '%s != params.%s -> TRANSPORT_PARAMETER_ERROR before set_peer_params' % (fa, fb),
                  'the %s echo is no longer compared unconditionally (a missing parameter must fail the check): a forged Retry / spoofed Initial would go undetected' % name)
    # server fills the echo parameters from the token
    ac = ctx.pfn('Endpoint::accept')
    for fld, src in (('original_dst_cid', 'orig_dst_cid'), ('retry_src_cid', 'retry_src_cid')):
        st = [(w, v) for w, v in store_values(ctx, 'TransportParameters', fld, in_fn=ac)]
        ok = bool(st) and all(D.has_field(v, 'token') and D.has_field(v, src) for w, v in st)
        ctx.check(ok, 'd', 'server_echoes_' + fld, ac, st[0][0].where() if st else ac.where(), 'params.%s = incoming.token.%s' % (fld, src), 'the server no longer echoes %s from the validated token' % fld)
    who_may_call(ctx, 'd', 'set_peer_params_callers', ['Connection::set_peer_params'], ['Connection::handle_peer_params', 'Connection::init_0rtt'], floor=2)


def rule_e(ctx):
    F = ctx.facts
    tk = ctx.pfn('token_memory_cache::State::take')
    rd = [y for _, x in ret_descs(F, tk) for y in flat(x)]
    ok = any(D.has_call(y, 'VecDeque::pop_front') for y in rd) and not any(D.has_call(y, 'VecDeque::front') or D.has_call(y, 'VecDeque::get') for y in rd)
    ctx.check(ok, 'e', 'token_cache_take_removes', tk, tk.where(), 'returns tokens.pop_front()', 'TokenMemoryCache::take hands out a token without removing it')
    cs = ctx.pfn('<ConnectionSide as From>::from')
    ctx.check(bool(cs.calls_to('TokenStore::take')), 'e', 'client_token_obtained_by_take', cs, cs.where(), 'token_store.take(server_name)', 'the client no longer obtains its token through TokenStore::take')
    nt = ctx.pfn('<NoneTokenStore as TokenStore>::take')
    rd = [y for _, x in ret_descs(F, nt) for y in flat(x)]
    ctx.check(all(y[0] == 'agg' and y[2].endswith('None') for y in rd), 'e', 'none_store_returns_none', nt, nt.where(), 'None', 'NoneTokenStore::take returns a token')


def rule_f(ctx):
    F = ctx.facts
    bl = ctx.pfn('<BloomTokenLog as TokenLog>::check_and_insert')
    fc = bl.calls_to('Filter::check_and_insert')
    ok = bool(fc)
    if ok:
        rd = [y for _, x in ret_descs(F, bl) for y in flat(x)]
        ok = bool(rd) and all((y[0] == 'agg' and y[2].endswith('Err')) or _is_call(y, 'Filter::check_and_insert') for y in rd) and any(_is_call(y, 'Filter::check_and_insert') for y in rd)
    ctx.check(ok, 'f', 'log_always_consults_filter', bl, bl.where(), 'the verdict returned is an Err literal or exactly the result of Filter::check_and_insert', 'BloomTokenLog can accept a token without consulting a filter')
    # expiry-based period selection uses issued + lifetime
    d = describer(F, bl)
    ea = local_defs_desc(ctx, bl, 'expires_at')
    ctx.check(any(D.has_param(x, name='issued') and D.has_param(x, name='lifetime') for x in ea), 'f', 'period_from_issue_time', bl, bl.where(), 'expires_at = issued + lifetime', 'the log period is no longer derived from issued + lifetime')
    nl = ctx.pfn('<NoneTokenLog as TokenLog>::check_and_insert')
    rd = [y for _, x in ret_descs(F, nl) for y in flat(x)]
    ctx.check(all(y[0] == 'agg' and y[2].endswith('Err') for y in rd), 'f', 'none_log_rejects', nl, nl.where(), 'Err(TokenReuseError)', 'NoneTokenLog accepts tokens')
    pp = ctx.pfn('Connection::populate_packet')
    tn = pp.calls_to('Token::new')
    en = pp.calls_to('Token::encode')
    # the token encoded is made for this very frame: its Token::new site dominates the encode and is re-executed before the
    # encode can run again (no cycle through the encode avoids it)
    ok = bool(tn) and bool(en) and all(any(contains_site(arg_desc(F, e, 0), t) and pp.dominates(t.bb, e.bb) and e.bb not in pp.reachable_strict(e.bb, avoid=[t.bb]) for t in tn)
                                       and all(any(contains_site(y, t) for t in tn) for y in flat(arg_desc(F, e, 0))) for e in en)
    ctx.check(ok, 'f', 'new_token_fresh_per_transmission', pp, pp.where(), 'Token::new(..).encode(..) per NEW_TOKEN frame', 'NEW_TOKEN frames no longer carry a freshly generated token')
    tnw = ctx.pfn('Token::new')
    nc = [c for c in constructions(F, 'token::Token', 'Token', crate='quinn_proto') if c.body.id == tnw.id]
    ctx.floor('f', 'token_new_constructions', len(nc), 1)
    for c in nc:
        if True:
            v = describer(F, tnw).operand(c.field_op('nonce'), c.bb, c.idx)
            ctx.check(D.has_param(v, name='rng') or 'random' in D.render(v), 'f', 'token_nonce_random', tnw, c.where(), D.render(v)[:80], 'token nonce is not drawn from the rng')


def run(ctx):
    from rules.shared_rules import every_processed_packet_is_counted
    every_processed_packet_is_counted(ctx, 'c', 'every_processed_packet_is_counted')
    rule_a(ctx)
    rule_b(ctx)
    rule_c(ctx)
    rule_d(ctx)
    rule_e(ctx)
    rule_f(ctx)
    ctx.assume('HandshakeTokenKey / AeadKey / TimeSource / TokenLog / TokenStore implementations other than the built-in ones are component boundaries')
