"""C08 — every connection terminates cleanly and exactly once (structural part)."""
from engine.rulelib import *
from engine import desc as D

EXPLANATION = ("Static rules over quinn-proto/quinn MIR: (a) State::Drained is set only in handle_timeout(Close), kill and handle_packet's error mapping; each is "
               "paired with exactly one EndpointEventInner::Drained push, and the Close timer is stopped at every such site so the notification cannot repeat; "
               "(b) every transition into a closed state reaches close_common (stops all timers) and arms the Close timer unless drained; timers are not re-armed on "
               "closed connections; (c) under close == true the congestion/pacing gate of poll_transmit is unreachable (a local close is announced whatever the window); "
               "(d) who-may-write Connection.error, reported once via take(); pre-1-RTT application close is masked as APPLICATION_ERROR; (e) Endpoint::handle_event(Drained) "
               "removes the slab entry and ConnectionIndex::remove touches every routing table; the reset-token route is removed under the address it was registered with; every CID routed by new_cid is recorded in ConnectionMeta.loc_cids (the set remove() purges); "
               "(f) idle timer arm kills with TimedOut; reset_idle_timeout uses max(timeout, 3*pto); (g) async driver termination shape; Drop for State sends its fallback Drained only over !inner.is_drained(). Timing bounds are NOT decided.")
RULE = "rule instances = (rule, site) pairs over MIR constructions / call sites / branches; non-trivial = bound to at least one real site"
CONN = 'connection::Connection'


def state_sets(ctx, variant):
    F = ctx.facts
    return [c for c in constructions(F, 'connection::State', variant, crate='quinn_proto')]


def timer_const(desc, name):
    return any(n[0] == 'agg' and n[2].endswith('Timer::' + name) for n in walk(desc))


STATE = 'quinn_proto::connection::State'


def state_values(ctx, *names):
    """discriminant values of connection::State variants (fails closed: a missing variant raises)"""
    m = {v['name']: int(v['discr']) for v in ctx.facts.adt(STATE)['variants']}
    return [m[n] for n in names]


def is_field(d, name):
    """the descriptor IS the field (not merely mentions it)"""
    return isinstance(d, tuple) and d[0] == 'field' and d[2] == name


def field_tests(F, body, name, taken=()):
    """(Branch, target taken when the field is false, target taken when it is true) for every branch whose (Not-peeled)
    discriminant is exactly field `name` (or mem::take/replace of it, the consume-and-test idiom)"""
    out = []
    for br in branches(F, body):
        inner, neg = peel_not(br.desc)
        hit = is_field(inner, name)
        if not hit and inner[0] == 'call' and inner[1].rsplit('::', 1)[-1] in taken and inner[3] and is_field(inner[3][0], name):
            hit = True
        if hit:
            out.append((br, br.target(1 if neg else 0), br.target(0 if neg else 1)))
    return out


def only_over(body, br, bad_targets, site_bb):
    """br dominates the site and the site cannot be reached from any of bad_targets without re-evaluating br"""
    return body.dominates(br.bb, site_bb) and all(site_bb not in body.reachable_from(t, avoid=[br.bb]) for t in bad_targets)


def state_switches(F, body):
    return [br for br in branches(F, body) if br.desc[0] == 'discr' and is_field(br.desc[1], 'state')]


def loop_item_source(d):
    """d is the item bound by `for x in <src>` (payload of Iterator::next on <src>): returns (src descriptor, block of
    the next() call) or None"""
    if d[0] == 'field' and d[2] == '0' and d[1][0] == 'variant' and d[1][2] == 'Some':
        c = d[1][1]
        if c[0] == 'call' and c[1].rsplit('::', 1)[-1] == 'next' and len(c[3]) == 1:
            return c[3][0], c[4]
    return None


def is_timer_values(d):
    """exactly the constant Timer::VALUES (whole table: no index / range / adapter in between); `.iter()` accepted"""
    if d[0] == 'call' and d[1].rsplit('::', 1)[-1] == 'iter' and len(d[3]) == 1:
        d = d[3][0]
    return d[0] == 'const' and bool(d[3]) and (d[3] == 'Timer::VALUES' or d[3].endswith('::Timer::VALUES'))


def named_local_defs(ctx, body, name):
    """(block, value descriptor) of every whole definition of the user-named local"""
    out = []
    d = describer(ctx.facts, body)
    live = body.live_blocks()
    for l, (ty, nm) in enumerate(body.locals):
        if nm != name:
            continue
        for df in body.defs_of(l):
            if df[0] == 'stmt' and df[1] in live:
                out.append((df[1], d.rvalue(df[3], df[1], df[2], 0)))
            elif df[0] == 'call' and df[1] in live:
                out.append((df[1], d.call_desc(df[2], 0)))
    return out


def all_timers_stopped_before(F, body, goals):
    """(ok, why): `body` contains the loop `for timer in Timer::VALUES { timers.stop(timer) }` (the structural statement of
    close_common's effect) and none of the `goals` blocks can be reached without running it to exhaustion: the stop argument
    IS the item of a loop over exactly the constant Timer::VALUES, every iteration reaches the stop, the loop is left towards
    a goal only over the None edge of its next(), and no goal is reachable from the entry around the loop."""
    ok, why = False, 'no TimerTable::stop call whose argument is the item of a loop over Timer::VALUES'
    goals = list(goals)
    for c in body.calls_to('TimerTable::stop'):
        src = loop_item_source(arg_desc(F, c, 1))
        if src is None:
            continue
        if not is_timer_values(src[0]):
            why = 'the loop stopping the timers iterates %s, not the whole Timer::VALUES' % D.render(src[0])[:120]
            continue
        head = src[1]
        hb = [br for br in branches(F, body) if br.bb != c.bb and br.desc[0] == 'discr' and br.desc[1][0] == 'call' and len(br.desc[1]) > 4 and br.desc[1][4] == head]
        if not hb:
            why = 'the Some/None test of the loop over Timer::VALUES was not found'
            continue
        some = hb[0].target(1)
        # every iteration stops its timer, the loop is left only when the table is exhausted, and the loop is always entered
        if path_avoiding(body, [some], [head], {c.bb}) is not None:
            why = 'an iteration of the loop over Timer::VALUES can skip timers.stop'
        elif path_avoiding(body, [some], goals, {head}) is not None:
            why = 'the loop over Timer::VALUES can be left before the table is exhausted'
        elif path_avoiding(body, [0], goals, {head}) is not None:
            why = 'the loop over Timer::VALUES can be bypassed'
        else:
            return True, ''
    return ok, why


def arith_operands(d, op):
    """operands of `a <op> b` in primitive ('bin') or operator-trait call form (`<Instant as Add>::add(a, b)`), else None"""
    if d[0] == 'bin' and d[1] == op:
        return [d[2], d[3]]
    if d[0] == 'call' and len(d[3]) == 2 and d[1].rsplit('::', 1)[-1] == op.lower() and ('as %s>' % op) in d[1]:
        return list(d[3])
    return None


def is_close_deadline(d):
    """exactly `now + 3 * self.pto(..)` (either operand order): the deadline set_close_timer arms"""
    ab = arith_operands(d, 'Add')
    if ab is None:
        return False
    for now, rest in (ab, ab[::-1]):
        if now[0] == 'param' and now[2] == 'now':
            xy = arith_operands(rest, 'Mul')
            if xy is not None and any(k[0] == 'const' and str(k[2]) == '3' and p[0] == 'call' and p[1] == 'Connection::pto' for k, p in (xy, xy[::-1])):
                return True
    return False


def close_timer_armed_before(F, body, site_bb):
    """the structural statement of set_close_timer's effect, for a caller that has the helper's body inlined: every path
    entry -> site passes `timers.set(Timer::Close, now + 3 * pto(..))` (literally Timer::Close, exactly that deadline)"""
    arms = {c.bb for c in body.calls_to('TimerTable::set')
            if c.bb != site_bb and arg_desc(F, c, 1) == ('agg', 'adt', 'timer::Timer::Close', (), ()) and is_close_deadline(arg_desc(F, c, 2))}
    return bool(arms) and site_bb in body.live_blocks() and path_avoiding(body, [0], [site_bb], arms) is None


def closed_transition_escapes(F, body, starts, sinks):
    """`starts` = [(block, is_statement)] sites that may move self.state into a closed state; `sinks` = blocks of the
    close_common calls.  Returns the starts from which a normal return is reachable without a sink, when the edges that are
    infeasible for "open before the site, closed after it" are removed: the FALSE edge of every test of exactly
    self.state.is_closed() evaluated after the site (closed states are absorbing) and the TRUE edge of every such test
    evaluated before it (the call dominates the site and is not reachable from it: `was_closed`, under any name).  Operand
    order of `!was_closed && is_closed()` and temporaries holding either value are irrelevant: only where the call is
    evaluated counts."""
    tests = []
    for br, f, t in call_tests(F, body, 'State::is_closed', 'state'):
        inner = peel_not(br.desc)[0]
        if f != t and len(inner) > 4 and isinstance(inner[4], int):
            tests.append((br, inner[4], f, t))
    bad = []
    rets = set(body.return_blocks())
    for sb, is_stmt in starts:
        after = body.reachable_strict(sb) | ({sb} if is_stmt else set())
        cut = set()
        for br, cb, f, t in tests:
            fresh = cb in after
            stale = cb != sb and body.dominates(cb, sb)
            if fresh and not stale:
                cut.add((br.bb, f))
            elif stale and not fresh:
                cut.add((br.bb, t))
        if body.reachable_strict(sb, avoid=sinks, avoid_edges=cut) & rets:
            bad.append(sb)
    return bad


def feasible_reach(body, cut=()):
    """blocks reachable from the entry without the edges in `cut`, where a switch on the discriminant of a Result-typed
    local follows only the edge of the variant the local is known to hold on that path: it was assigned a Result::Ok / Err
    literal, moved from a local of known variant, or selected by an earlier switch (`let r = match r { Err(e) if c => Ok(()),
    x => x }; if let Err(e) = r {..}` - the second test is not independent of the first).  Locals whose address is taken
    mutably are not tracked.  Removes infeasible paths only."""
    tracked = {l for l, (ty, nm) in enumerate(body.locals) if ty.split('<')[0].endswith('result::Result')}
    for i, j, s in body.stmts():
        if s[0] == '=' and s[2][0] in ('ref', 'ptr') and s[2][1] and s[2][2][0] in tracked and '*' not in s[2][2][1]:
            tracked.discard(s[2][2][0])
    cut = set(cut)
    seen, reach, stack = set(), set(), [(0, frozenset())]
    while stack:
        st = stack.pop()
        if st in seen:
            continue
        seen.add(st)
        bb, kn = st
        reach.add(bb)
        know = dict(kn)
        blk = body.blocks[bb]
        discr_of = {}
        for s in blk['s']:
            if s[0] == 'sd' and s[1][0] in tracked:
                know.pop(s[1][0], None)
            if s[0] != '=':
                continue
            (l, proj), rv = s[1], s[2]
            if rv[0] == 'discr' and not proj and not rv[1][1]:
                discr_of[l] = rv[1][0]
            if l not in tracked:
                continue
            if proj:
                if proj[0] != '*':
                    know.pop(l, None)
            elif rv[0] == 'agg' and rv[1][0] == 'adt' and rv[1][1].endswith('result::Result') and rv[1][2] in STD_VARIANTS['Result']:
                know[l] = STD_VARIANTS['Result'][rv[1][2]]
            elif rv[0] == 'use' and rv[1][0] in ('c', 'm') and not rv[1][1][1] and rv[1][1][0] in know:
                know[l] = know[rv[1][1][0]]
            else:
                know.pop(l, None)
        t = blk['t']
        nxt = [(s, None) for s in body.succ[bb]]
        if t[0] == 'call' and t[1]['dst'][0] in tracked:
            know.pop(t[1]['dst'][0], None)
        elif t[0] == 'switch' and t[1][0] in ('c', 'm') and not t[1][1][1] and discr_of.get(t[1][1][0]) in tracked:
            l = discr_of[t[1][1][0]]
            vals = {int(v): tgt for v, tgt in t[2]}
            rest = [v for v in (0, 1) if v not in vals]
            if len(rest) == 1:
                vals[rest[0]] = t[3]
            if set(vals) == {0, 1}:
                nxt = [(tgt, (l, v)) for v, tgt in vals.items() if tgt in body.succ[bb] and know.get(l, v) == v]
        for s, fact in nxt:
            if (bb, s) in cut:
                continue
            k2 = dict(know)
            if fact is not None:
                k2[fact[0]] = fact[1]
            stack.append((s, frozenset(k2.items())))
    return reach


def state_known_not(ctx, body, variant, stale=()):
    """branch edges of `body` on which self.state is known NOT to be `variant`: the edges of a switch on the discriminant
    of self.state that the variant's value does not select (the otherwise edge stands for every value not listed), and the
    false edge of a test of exactly self.state.is_drained() for Drained.  Tests evaluated in a block of `stale` (behind a
    site that may have changed the state) say nothing about the state on entry and are left out."""
    F = ctx.facts
    val, = state_values(ctx, variant)
    out = set()
    for sw in state_switches(F, body):
        if sw.bb not in stale:
            out |= {(sw.bb, t) for v, t in sw.edges if t != sw.target(val)}
    if variant == 'Drained':
        for br, f, t in call_tests(F, body, 'State::is_drained', 'state'):
            inner = peel_not(br.desc)[0]
            if f != t and len(inner) > 4 and isinstance(inner[4], int) and inner[4] not in stale:
                out.add((br.bb, f))
    return out


def packet_state_sites(ctx, hp):
    """{block: description} of the sites of handle_packet that act on a packet: processing it, storing self.error /
    self.state, emitting the Drained endpoint event"""
    F = ctx.facts
    sites = {c.bb: 'process_decrypted_packet' for c in hp.calls_to('Connection::process_decrypted_packet')}
    for fld in ('error', 'state'):
        for w in field_writes(F, CONN, fld, crate='quinn_proto'):
            if w.body.id == hp.id and w.bb in hp.live_blocks() and not (w.kind == 'mutborrow' and w.call is not None and is_noise(w.call)):
                sites[w.bb] = 'store to self.' + fld
    return sites


def settled_once_closed(ctx):
    """a/nothing_handled_once_draining, d/error_on_closed_connection_ignored (repair 467a010).
    (1) Draining / Drained are final for handle_packet: for each of the two states, once the branch edges on which
    self.state is known to be a different state are removed, no site that processes the packet, stores self.error /
    self.state or emits Drained is reachable from the entry.
    (2) While Closed, an error other than a stateless reset settles nothing anew: the stores to self.error and self.state in
    handle_packet are unreachable from the entry once the edges `connection was open on entry` (false edge of a test of
    self.state.is_closed() evaluated before anything can change the state) and `the error is ConnectionError::Reset` are
    removed - with the variant of Result locals followed along the path (feasible_reach), so rewriting the result to Ok(())
    counts as not reaching the error mapping."""
    F = ctx.facts
    hp = ctx.pfn('Connection::handle_packet')
    sites = packet_state_sites(ctx, hp)
    for c in constructions(F, 'EndpointEventInner', 'Drained', crate='quinn_proto'):
        if c.body.id == hp.id:
            sites.setdefault(c.bb, 'Drained endpoint event')
    ctx.floor('a', 'packet_handling_sites', len(sites), 4)
    changers = [b for b, what in sites.items() if what != 'Drained endpoint event']
    later = set()
    for b in changers:
        later |= hp.reachable_strict(b)
    for v in ('Draining', 'Drained'):
        cut = state_known_not(ctx, hp, v, later)
        hit = sorted({sites[b] for b in hp.reachable_from(0, avoid_edges=cut) if b in sites}) if cut else sorted(set(sites.values()))
        ctx.check(not hit, 'a', 'nothing_handled_once_' + v.lower(), hp, hp.where(), 'with self.state == %s no packet is processed and neither self.error, self.state nor the Drained event is touched (%d sites)' % (v, len(sites)),
                  'handle_packet still acts on a packet (stateless reset, illegal or authentic packet) while the connection is %s: reachable with self.state == %s: %s - '
                  'the settled state / reason can change and Drained or ConnectionLost be emitted again' % (v, v, ', '.join(hit)))
    # (2)
    open_edges = set()
    for br, f, t in call_tests(F, hp, 'State::is_closed', 'state'):
        inner = peel_not(br.desc)[0]
        if f != t and len(inner) > 4 and isinstance(inner[4], int) and inner[4] not in later:
            open_edges.add((br.bb, f))
    reset_edges = set()
    reset_i = [int(v['discr']) for v in F.adt('quinn_proto::connection::ConnectionError')['variants'] if v['name'] == 'Reset']
    is_reset = lambda x: x[0] == 'agg' and x[2].endswith('ConnectionError::Reset')
    for br in branches(F, hp):
        for truth in (True, False):
            rel = relation_on(br.desc, truth)
            if rel is not None and rel[0] == 'Eq' and sum(1 for x in rel[1:3] if is_reset(x)) == 1:
                reset_edges.add((br.bb, br.target(1 if truth else 0)))
        if br.desc[0] == 'discr' and reset_i:
            st = [s for s in hp.blocks[br.bb]['s'] if s[0] == '=' and s[2][0] == 'discr']
            ty = place_type(F, hp, st[-1][2][1]) if st else None
            tr = br.target(reset_i[0])
            if ty is not None and ty.endswith('connection::ConnectionError') and {v for v, t in br.edges if t == tr} == {reset_i[0]}:
                reset_edges.add((br.bb, tr))
    stores = {b: w for b, w in sites.items() if w.startswith('store to')}
    reach = feasible_reach(hp, open_edges | reset_edges)
    hit = sorted({stores[b] for b in reach if b in stores})
    why = []
    if not open_edges:
        why.append('no test of self.state.is_closed() captured on entry')
    if not reset_edges:
        why.append('no test of the error against ConnectionError::Reset')
    if hit:
        why.append('reachable with the connection closed on entry and an error other than Reset: ' + ', '.join(hit))
    ctx.check(bool(stores) and not why, 'd', 'error_on_closed_connection_ignored', hp, hp.where(),
              'self.error / self.state are stored only if the connection was open on entry or the error is a stateless reset (%d stores)' % len(stores),
              'an error raised by a packet on an already closed connection still replaces the terminal reason / state (%s): the application is told ConnectionLost a second time '
              'and an authentic-but-illegal packet can cut the closing period short' % '; '.join(why or ['no store found']))


def rule_a(ctx):
    F = ctx.facts
    settled_once_closed(ctx)
    dr = state_sets(ctx, 'Drained')
    allowed = ['Connection::handle_timeout', 'Connection::kill', 'Connection::handle_packet']
    for c in dr:
        r = F.root_of(c.body)
        ctx.check(any(path_matches(r.id, a) for a in allowed), 'a', 'drained_state_sites', r, c.where(), 'State::Drained set in %s' % r.short, 'State::Drained is set in an unexpected function %s' % r.short)
    ctx.floor('a', 'drained_state_sites', len(dr), 3)
    ev = [c for c in constructions(F, 'EndpointEventInner', 'Drained', crate='quinn_proto') if F.root_of(c.body).self_ty.endswith('connection::Connection')]
    roots_ = sorted(F.root_of(c.body).short for c in ev)
    ctx.check(roots_ == sorted(['Connection::handle_timeout', 'Connection::kill', 'Connection::handle_packet']), 'a', 'drained_event_sites', 'EndpointEventInner::Drained', '',
              'constructed in %s' % roots_, 'EndpointEventInner::Drained construction sites changed: %s (exactly one per draining function expected)' % roots_)
    # handle_timeout / kill: state store followed by the push on every path
    for fn in ('Connection::handle_timeout', 'Connection::kill'):
        b = ctx.pfn(fn)
        sts = [c for c in dr if F.root_of(c.body).id == b.id]
        evs = [c for c in ev if F.root_of(c.body).id == b.id]
        ok = bool(sts) and bool(evs)
        for s in sts:
            p = path_avoiding(b, b.succ[s.bb] if s.bb not in {e.bb for e in evs} else [], b.return_blocks() + ([loop_back(b, s.bb)] if loop_back(b, s.bb) is not None else []), {e.bb for e in evs})
            if s.bb not in {e.bb for e in evs} and p is not None:
                ok = False
        ctx.check(ok, 'a', 'drained_state_paired_with_event', b, b.where(), 'state = Drained is followed by push_back(Drained)', '%s sets State::Drained without always emitting the Drained endpoint event' % fn)
    # handle_packet: the push is guarded by !was_drained && is_drained(), and the Close timer is stopped after it
    hp = ctx.pfn('Connection::handle_packet')
    evs = [c for c in ev if F.root_of(c.body).id == hp.id]
    nbr = branches(F, hp, stop_named=True)
    wd = [br for br in nbr if peel_not(br.desc)[0][0] == 'local' and peel_not(br.desc)[0][2] == 'was_drained']
    isd = [br for br in branches(F, hp) if br.desc[0] == 'call' and br.desc[1] == 'State::is_drained']
    for e in evs:
        ok1 = any(hp.dominates(br.bb, e.bb) and e.bb not in reach_under(F, hp, {'was_drained': True}, start=br.bb) for br in wd)
        ok2 = any(hp.dominates(br.bb, e.bb) and e.bb not in hp.reachable_from(br.target(0), avoid=[br.bb]) for br in isd)
        ctx.check(ok1 and ok2, 'a', 'drained_event_only_on_transition', hp, e.where(), 'push only if !was_drained && is_drained()', 'handle_packet can emit Drained when the connection was already drained / is not drained')
        st = [c for c in hp.calls_to('TimerTable::stop') if timer_const(arg_desc(F, c, 1), 'Close')]
        # the push and the stop are independent statements: either every path from the push to a return passes
        # stop(Timer::Close), or every path to the push does, with nothing that can arm a timer in between (every path from
        # the entry AND from behind every call that may reach TimerTable::set passes the stop before the push)
        stb = {c.bb for c in st}
        rearm = may_sites(F, hp, ['TimerTable::set'], 3)
        after_ok = path_avoiding(hp, hp.succ[e.bb], hp.return_blocks(), stb) is None
        before_ok = path_avoiding(hp, [0] + [x for r in rearm for x in hp.succ[r]], [e.bb], stb) is None
        okc = bool(st) and (after_ok or before_ok)
        ctx.check(okc, 'a', 'close_timer_stopped_when_drained_by_packet', hp, e.where(), 'timers.stop(Timer::Close) %s the Drained push' % ('follows' if after_ok else 'immediately precedes'),
                  'after draining from handle_packet (stateless reset on a closed connection) the Close timer stays armed: it would emit Drained a second time')
    # kill stops all timers first; handle_timeout stops the expired timer before its arm
    k = ctx.pfn('Connection::kill')
    for e in [c for c in ev if F.root_of(c.body).id == k.id]:
        p = must_precede(F, k, e.bb, ['Connection::close_common'], depth=0)
        # close_common inlined: its effect is "every element of Timer::VALUES is stopped" (same test as b/close_common_stops_all_timers)
        inl, whyk = (True, '') if p is None else all_timers_stopped_before(F, k, [e.bb])
        ctx.check(p is None or inl, 'a', 'kill_stops_timers_first', k, e.where(), 'close_common (or its loop stopping every Timer::VALUES element) dominates the Drained push',
                  'kill emits Drained without stopping the timers (no close_common call in front of the push; inlined form: %s)' % whyk)
    ht = ctx.pfn('Connection::handle_timeout')
    for e in [c for c in ev if F.root_of(c.body).id == ht.id]:
        p = must_precede(F, ht, e.bb, ['TimerTable::stop'], depth=0)
        # the timer stopped is the one the arm was selected on: the argument IS the scrutinee of a discriminant switch
        # dominating the arm (`match timer`), or the literal Timer::Close
        scrut = [br.desc[1] for br in branches(F, ht) if br.desc[0] == 'discr' and br.bb != e.bb and ht.dominates(br.bb, e.bb)]
        stops = [c for c in ht.calls_to('TimerTable::stop') if c.bb != e.bb]
        same = [c for c in stops if arg_desc(F, c, 1) in scrut or arg_desc(F, c, 1) == ('agg', 'adt', 'timer::Timer::Close', (), ())]
        # ... on every path of the current iteration (from the next() that produced the scrutinee) to the arm
        heads = [loop_item_source(x)[1] for x in scrut if loop_item_source(x) is not None]
        start = ht.succ[heads[-1]] if heads else [0]
        same = same if same and path_avoiding(ht, start, [e.bb], {c.bb for c in same}) is None else []
        ctx.check(p is None and bool(same), 'a', 'expired_timer_stopped_before_arm', ht, e.where(), 'timers.stop(timer) dominates the Close arm',
                  'the Close timer arm runs without stopping the expired timer first (stop arguments: %s): the Close arm would run again' % [D.render(arg_desc(F, c, 1))[:80] for c in stops])


def loop_back(body, bb):
    return None


def rule_b(ctx):
    F = ctx.facts
    closed_variants = ('Closed', 'Draining', 'Drained')
    allowed = ['Connection::close_inner', 'Connection::kill', 'Connection::handle_packet', 'Connection::process_payload', 'Connection::process_early_payload',
               'Connection::process_decrypted_packet', 'Connection::handle_timeout', 'State::closed']
    n = 0
    for v in closed_variants:
        for c in state_sets(ctx, v):
            r = F.root_of(c.body)
            n += 1
            ctx.check(any(path_matches(r.id, a) for a in allowed), 'b', 'closed_state_sites', r, c.where(), 'State::%s in %s' % (v, r.short), 'closed state %s constructed in unexpected function %s' % (v, r.short))
    ctx.floor('b', 'closed_state_sites', n, 7)
    ci = ctx.pfn('Connection::close_inner')
    for c in [x for x in state_sets(ctx, 'Closed') if F.root_of(x.body).id == ci.id]:
        # either helper may be inlined: close_common = every Timer::VALUES element stopped, set_close_timer = timers.set(Timer::Close, now + 3 * pto)
        stops = must_precede(F, ci, c.bb, ['Connection::close_common'], 0) is None or all_timers_stopped_before(F, ci, [c.bb])[0]
        arms = must_precede(F, ci, c.bb, ['Connection::set_close_timer'], 0) is None or close_timer_armed_before(F, ci, c.bb)
        ctx.check(stops and arms, 'b', 'local_close_stops_timers_and_arms_close', ci, c.where(),
                  'close_common + set_close_timer (or their inlined bodies) dominate state = Closed', 'close_inner enters Closed without %s' % ' / '.join(
                      ([] if stops else ['close_common (all timers stopped)']) + ([] if arms else ['set_close_timer (Close timer armed at now + 3 * pto)'])))
    cl = [w for w in field_writes(F, CONN, 'close', crate='quinn_proto') if F.root_of(w.body).id == ci.id and w.kind == 'assign']
    ctx.check(bool(cl), 'b', 'local_close_requests_close_packet', ci, ci.where(), 'self.close = true', 'close_inner no longer requests a close packet')
    # handle_packet tail: every path after processing passes the !was_closed && is_closed() test which reaches close_common
    hp = ctx.pfn('Connection::handle_packet')
    cc = hp.calls_to('Connection::close_common')
    proc = hp.calls_to('Connection::process_decrypted_packet')
    starts = [(s.bb, False) for s in proc]
    for w in field_writes(F, CONN, 'state', crate='quinn_proto'):
        if w.body.id == hp.id and w.kind in ('assign', 'callresult'):
            starts.append((w.bb, w.kind == 'assign'))
    esc = closed_transition_escapes(F, hp, starts, {c.bb for c in cc})
    ok = bool(proc) and bool(cc) and not esc
    ctx.check(ok, 'b', 'packet_induced_close_stops_timers', hp, hp.where(), '!was_closed && is_closed() -> close_common on every path after processing (%d state-changing sites)' % len(starts),
              'a close caused by a packet/error does not always reach close_common: with the connection open before and closed after the site in block(s) %s a return is reachable without it' % sorted(set(esc)))
    sct = hp.calls_to('Connection::set_close_timer')
    ctx.check(bool(sct) and all(any(hp.dominates(c.bb, s.bb) for c in cc) for s in sct), 'b', 'packet_induced_close_arms_close_timer', hp, hp.where(), 'set_close_timer after close_common unless drained', 'set_close_timer missing from the packet-induced close')
    # close_common stops every timer: iterates Timer::VALUES and calls stop
    ccb = ctx.pfn('Connection::close_common')
    okc, whyc = all_timers_stopped_before(F, ccb, ccb.return_blocks())
    ctx.check(okc, 'b', 'close_common_stops_all_timers', ccb, ccb.where(), 'for timer in Timer::VALUES { stop(timer) }', 'close_common no longer stops every timer in Timer::VALUES: ' + whyc)
    # no re-arming on closed connections
    for fn, fld in (('Connection::set_loss_detection_timer', 'LossDetection'), ('Connection::reset_idle_timeout', 'Idle')):
        b = ctx.pfn(fn)
        sets = [c for c in b.calls_to('TimerTable::set')]
        isc = [br for br in branches(F, b) if br.desc[0] == 'call' and br.desc[1] == 'State::is_closed']
        ok = bool(sets) and bool(isc) and all(all(s.bb not in b.reachable_from(br.target(1)) for s in sets) for br in isc)
        ctx.check(ok, 'b', 'no_rearm_when_closed_' + fld, b, b.where(), 'is_closed() edge reaches no timers.set', '%s can re-arm its timer on a closed connection' % fn)
    # the CID-retirement timer (armed from packet handling: NEW_CONNECTION_ID / RETIRE_CONNECTION_ID of a packet that arrives
    # while closing) is not armed once closed: every site that may arm a timer lies behind the FALSE edge of a test of
    # exactly self.state.is_closed()
    rc = ctx.pfn('Connection::reset_cid_retirement')
    arm = may_sites(F, rc, ['TimerTable::set'], 2)
    open_edges = {(br.bb, f) for br, f, t in call_tests(F, rc, 'State::is_closed', 'state') if f != t}
    ok = bool(arm) and bool(open_edges) and not (rc.reachable_from(0, avoid_edges=open_edges) & arm)
    ctx.check(ok, 'b', 'no_rearm_when_closed_PushNewCid', rc, rc.where(), 'timers.set only over !self.state.is_closed() (%d arming site(s))' % len(arm),
              'reset_cid_retirement can arm Timer::PushNewCid on a closed connection (close_common stopped it; a closed connection would wake up and issue CIDs while closing)'
              if arm else 'reset_cid_retirement no longer arms a timer: anchor lost')
    rk = ctx.pfn('Connection::reset_keep_alive')
    sets = rk.calls_to('TimerTable::set')
    est = [br for br in branches(F, rk) if D.has_call(br.desc, 'State::is_established')]
    ok = bool(sets) and bool(est) and all(all(s.bb not in rk.reachable_from(br.target(0)) for s in sets) for br in est)
    ctx.check(ok, 'b', 'keep_alive_only_when_established', rk, rk.where(), 'timers.set(KeepAlive) only if is_established()', 'keep-alive can be armed on a non-established connection')


def reach_cut(F, body, assume, avoid=(), cut=()):
    """prims.reach_under from the entry, additionally never using the edges in `cut`"""
    brs = {br.bb: br for br in branches(F, body, stop_named=True)}
    avoid, cut, seen, stack = set(avoid), set(cut), set(), [0]
    while stack:
        b = stack.pop()
        if b in seen or b in avoid:
            continue
        seen.add(b)
        succ = body.succ[b]
        br = brs.get(b)
        if br is not None:
            inner, neg = peel_not(br.desc)
            if inner[0] in ('local', 'param') and inner[2] in assume:
                t = br.target(1 if (assume[inner[2]] != neg) else 0)
                succ = [t] if t in succ else succ
        stack.extend(x for x in succ if x not in seen and (b, x) not in cut)
    return seen


def call_tests(F, body, callee, arg_field):
    """(Branch, false target, true target) of branches whose (Not-peeled) discriminant is exactly callee(self.<arg_field>)"""
    out = []
    for br in branches(F, body):
        inner, neg = peel_not(br.desc)
        if inner[0] == 'call' and (inner[1] == callee or path_matches(inner[2], callee)) and len(inner[3]) == 1 and is_field(inner[3][0], arg_field):
            out.append((br, br.target(1 if neg else 0), br.target(0 if neg else 1)))
    return out


def close_flag_derivation(ctx, pt, defs, sites):
    """reasons why the bool local `close` of poll_transmit is not derived as
         Closed | Draining if self.close => true ;  Drained (or close not requested) => return ;  open states => false.
    Every condition is an edge cut: "X only over edges E" = X is unreachable from the entry once the edges E are removed
    (a match guard repeats its test per or-pattern, so no single branch need dominate).  `sites` = where a packet is
    started or a CONNECTION_CLOSE is encoded."""
    F = ctx.facts
    closed, draining, drained = state_values(ctx, 'Closed', 'Draining', 'Drained')
    why = []
    sws = state_switches(F, pt)

    def sw_edges(pred):
        """edges (switch block, target) such that the set of State values selecting the target satisfies pred"""
        out = set()
        for sw in sws:
            for t in {t for v, t in sw.edges}:
                if pred({v for v, t2 in sw.edges if t2 == t}):
                    out.add((sw.bb, t))
        return out

    def only_via(edges, bb):
        return bool(edges) and bb not in pt.reachable_from(0, avoid_edges=edges)
    isc = call_tests(F, pt, 'State::is_closed', 'state')
    isd = call_tests(F, pt, 'State::is_drained', 'state')
    closed_edges = sw_edges(lambda vs: vs <= {closed, draining}) | {(br.bb, t) for br, f, t in isc if t != f}
    open_edges = sw_edges(lambda vs: not (vs & {closed, draining, drained})) | {(br.bb, f) for br, f, t in isc if t != f}
    live_edges = {(br.bb, f) for br, f, t in isd if t != f}   # edges on which the connection is known not to be Drained
    for sw in sws:
        td = sw.target(drained)
        if {v for v, t in sw.edges if t == td} == {drained}:
            live_edges |= {(sw.bb, t) for v, t in sw.edges if t != td}
    false_defs = set()
    for bb, v in defs:
        if v[0] == 'const' and str(v[2]) in ('1', 'true'):
            if not only_via(closed_edges, bb):
                why.append('`close = true` is not confined to the Closed/Draining edges of a test of self.state')
        elif v[0] == 'const' and str(v[2]) in ('0', 'false'):
            false_defs.add(bb)
            if not only_via(open_edges, bb):
                why.append('`close = false` is reachable in a closed state')
        elif not (v[0] == 'call' and v[1] == 'State::is_closed' and len(v[3]) == 1 and is_field(v[3][0], 'state')):
            why.append('`close` is computed as %s: expected constants selected by a match on self.state, or self.state.is_closed()' % D.render(v)[:80])
    sb = {c.bb for c in sites}
    # one close packet per request: with close == true nothing is built unless self.close was tested true
    tests = field_tests(F, pt, 'close')
    r = reach_cut(F, pt, {'close': True}, avoid=false_defs, cut={(br.bb, t) for br, f, t in tests if t != f})
    if not sb or (r & sb):
        why.append('`close = true` is not conditional on self.close: a close packet is built on every poll instead of once per request')
    # drained: nothing is built
    if not live_edges or (pt.reachable_from(0, avoid_edges=live_edges) & sb):
        why.append('a Drained connection goes on to build packets')
    return why


def close_arms_without_frame(ctx, pt, enc):
    """the innermost switch on self.state in front of the CONNECTION_CLOSE encode sites: from its Closed edge and from its
    Draining edge an encode site is reachable and no path leaves the match (return / next round) without encoding"""
    F = ctx.facts
    closed, draining = state_values(ctx, 'Closed', 'Draining')
    encb = {e.bb for e in enc}
    sws = [sw for sw in state_switches(F, pt) if any(pt.dominates(sw.bb, b) and sw.bb != b for b in encb)]
    inner = [sw for sw in sws if all(pt.dominates(o.bb, sw.bb) for o in sws)]
    if not inner:
        return ['no match on self.state selects the close frame']
    why = []
    for sw in inner:
        for nm, v in (('Closed', closed), ('Draining', draining)):
            t = sw.target(v)
            if not (pt.reachable_from(t, avoid=[sw.bb]) & encb):
                why.append('the %s arm reaches no CONNECTION_CLOSE encode' % nm)
            elif path_avoiding(pt, [t], set(pt.return_blocks()) | {sw.bb}, encb) is not None:
                why.append('a path through the %s arm encodes no CONNECTION_CLOSE' % nm)
    return why


def flag_may_be_cleared(F, body, bb, idx, rv, field):
    """reasons why storing the rvalue `rv` (statement idx of block bb) into the bool field `field` may turn the field from
    true to false.  The stored value keeps a set flag when it is the constant true, the field itself, `field | x` (either
    operand order), or a temporary all of whose reaching definitions are such values; any other value is accepted only
    where it is produced behind the FALSE edge of a test of exactly the field (`if !self.f { self.f = x }`, `self.f || x`:
    the flag is known to be clear there)."""
    d = describer(F, body)
    cut = {(br.bb, f) for br, f, t in field_tests(F, body, field) if f != t}
    may_be_set = body.reachable_from(0, avoid_edges=cut) if cut else body.live_blocks()

    def op_bad(o, b, i, depth):
        if o[0] not in ('c', 'm'):
            return [] if str(o[2]) in ('1', 'true') else ['the constant %s' % o[2]]
        place = o[1]
        if place[1]:
            v = d.operand(o, b, i)
            return [] if is_field(v, field) else [D.render(v)[:80]]
        if depth > 8:
            return ['a value defined too indirectly']
        out = []
        for df in d.reaching_defs(place[0], b, i):
            if df[0] == 'stmt':
                out += rv_bad(df[3], df[1], df[2], depth + 1)
            elif df[0] == 'call' and df[1] not in may_be_set:
                pass
            elif df[0] == 'call':
                out.append(D.render(d.call_desc(df[2], 0))[:80])
            else:
                out.append('a value that is not a plain assignment (%s)' % df[0])
        return out

    def rv_bad(r, b, i, depth):
        if b not in may_be_set:
            return []
        if r[0] == 'use':
            return op_bad(r[1], b, i, depth)
        if r[0] == 'bin' and r[1] == 'BitOr':
            ba, bc = op_bad(r[2], b, i, depth), op_bad(r[3], b, i, depth)
            return [] if not ba or not bc else ['(%s | %s)' % (ba[0], bc[0])]
        return [D.render(d.rvalue(r, b, i, 0))[:80]]
    return rv_bad(rv, bb, idx, 0)


def pending_close_kept(ctx):
    """c/pending_close_never_cancelled: a requested CONNECTION_CLOSE (Connection.close == true) stays requested until
    poll_transmit has built the packet: outside poll_transmit (which clears the flag behind the encode) and the constructor,
    every store to the flag can only set it or keep it."""
    F = ctx.facts
    clearers = ['Connection::poll_transmit', 'Connection::new']
    n = 0
    for w in field_writes(F, CONN, 'close', crate='quinn_proto'):
        r = F.root_of(w.body)
        if any(path_matches(r.id, a) for a in clearers) or (w.kind == 'mutborrow' and w.call is not None and is_noise(w.call)):
            continue
        n += 1
        if w.kind == 'assign' and w.rv and w.rv[0] != 'sd':
            why = flag_may_be_cleared(F, w.body, w.bb, w.idx, w.rv, 'close')
        else:
            why = ['the flag is written through a %s' % w.kind]
        ctx.check(not why, 'c', 'pending_close_never_cancelled', r, w.where(), 'the store to Connection.close only sets or keeps the flag',
                  '%s can clear a pending close request (stores %s into Connection.close while it may be set): the CONNECTION_CLOSE owed to the peer is never sent; '
                  'only poll_transmit may clear the flag, once the close packet is built' % (r.short, '; '.join(why)))
    ctx.floor('c', 'close_flag_setters', n, 3)


def rule_c(ctx):
    F = ctx.facts
    pending_close_kept(ctx)
    pt = ctx.pfn('Connection::poll_transmit')
    from rules import C12
    gs = C12.gate_branch(ctx, pt)
    pace = pt.calls_to('Pacer::delay')
    if not ctx.check(len(gs) == 1 and bool(pace), 'c', 'gates_present', pt, pt.where(), 'congestion gate and pacing gate found', 'cannot locate the congestion/pacing gates'):
        return
    g = gs[0]
    reach = reach_under(F, pt, {'close': True})
    ctx.check(g.bb not in reach and all(p.bb not in reach for p in pace), 'c', 'close_gated_by_congestion', pt, g.where(),
              'under close == true neither the congestion test nor Pacer::delay is reachable',
              'with a close pending the congestion/pacing gate of poll_transmit is still evaluated: a window-limited closer never sends its CONNECTION_CLOSE')
    # the close flag is derived from State::Closed/Draining with self.close set; Drained returns None
    cd = named_local_defs(ctx, pt, 'close')
    why = close_flag_derivation(ctx, pt, cd, pt.calls_to('Close::encode', 'ConnectionClose::encode', 'PacketBuilder::new'))
    ctx.check(bool(cd) and not why, 'c', 'close_flag_defined', pt, pt.where(), '%d definitions of `close`: true only in Closed/Draining with self.close set, nothing defined once Drained' % len(cd),
              'the close flag of poll_transmit is not derived as `Closed|Draining if self.close => true, Drained => return, _ => false`: ' + ('; '.join(why) or 'local `close` not found'))
    enc = pt.calls_to('Close::encode', 'ConnectionClose::encode')
    why = close_arms_without_frame(ctx, pt, enc)
    ctx.check(len(enc) >= 2 and all(e.bb in reach for e in enc) and not why, 'c', 'close_frame_encoded_under_close', pt, pt.where(), '%d encode sites reachable under close; the Closed and the Draining arm both encode' % len(enc),
              'CONNECTION_CLOSE encoding not reachable under close == true' if not why else 'a close packet can be built without a CONNECTION_CLOSE frame: ' + '; '.join(why))


def early_close_polarity(ctx, pt, cons, d):
    """the masked ConnectionClose{APPLICATION_ERROR} is built only when the reason that would otherwise be encoded is NOT
    transport-layer and the space is NOT Data; on that edge the stored reason is not encoded verbatim"""
    F = ctx.facts
    masked = [c for c in cons if D.has_const(d.operand(c.field_op('error_code'), c.bb, c.idx), named='APPLICATION_ERROR')]
    verb = [c for c in pt.calls_to('Close::encode')]
    if not masked or not verb:
        return ['masked construction / verbatim Close::encode not found']
    reasons = [arg_desc(F, c, 0) for c in verb]
    tl = []
    for br in branches(F, pt):
        inner, neg = peel_not(br.desc)
        if inner[0] == 'call' and (inner[1] == 'Close::is_transport_layer' or path_matches(inner[2], 'Close::is_transport_layer')) and inner[3] and inner[3][0] in reasons:
            tl.append((br, br.target(0 if neg else 1), br.target(1 if neg else 0)))   # (branch, transport edge, application edge)
    sp = []
    for br in branches(F, pt):
        for truth in (True, False):
            rel = relation_on(br.desc, truth)
            if rel is not None and rel[0] == 'Eq' and any(x[0] == 'agg' and x[2].endswith('SpaceId::Data') for x in rel[1:3]) and not all(x[0] == 'agg' for x in rel[1:3]):
                sp.append((br, br.target(1 if truth else 0)))   # (branch, edge on which space == Data)
    data_i = [int(v['discr']) for v in F.adt('quinn_proto::packet::SpaceId')['variants'] if v['name'] == 'Data']
    for br in branches(F, pt):
        if br.desc[0] == 'discr' and not D.has_field(br.desc, 'state') and any(x[0] == 'agg' and 'SpaceId::' in x[2] for x in walk(br.desc)) and any(v == data_i[0] for v, t in br.edges):
            sp.append((br, br.target(data_i[0])))
    why = []
    if not tl:
        why.append('no branch on is_transport_layer() of the encoded reason')
    for c in masked:
        if tl and not any(only_over(pt, br, [t_edge], c.bb) for br, t_edge, a_edge in tl):
            why.append('the masked frame is built for transport-layer reasons (test inverted or not dominating)')
        if not any(only_over(pt, br, [data_edge], c.bb) for br, data_edge in sp):
            why.append('the masked frame can be built in the Data space')
    for br, t_edge, a_edge in tl:
        if any(pt.dominates(br.bb, c.bb) for c in masked):
            p = path_avoiding(pt, [a_edge], {c.bb for c in verb} | set(pt.return_blocks()) | {br.bb}, {c.bb for c in masked})
            if p is not None:
                why.append('an application-layer reason in an Initial/Handshake packet is not masked')
    return why


def rule_d(ctx):
    F = ctx.facts
    who_may_write(ctx, 'd', 'error_writers', CONN, 'error', ['Connection::handle_packet', 'Connection::process_payload', 'Connection::process_early_payload', 'Connection::kill', 'Connection::poll', 'Connection::new'], floor=4,
                  why='the reason reported to the application is fixed where the connection is lost; a local close reports nothing')
    po = ctx.pfn('Connection::poll')
    tk = [c for c in po.calls_to('Option::take') if D.has_field(arg_desc(F, c, 0), 'error')]
    ctx.check(bool(tk), 'd', 'reason_reported_once', po, po.where(), 'self.error.take()', 'poll() no longer consumes the stored error (could be reported more than once)')
    cl = [c for c in constructions(F, 'Event', 'ConnectionLost', crate='quinn_proto')]
    ctx.check(all(F.root_of(c.body).short == 'Connection::poll' for c in cl) and bool(cl), 'd', 'connection_lost_event_sites', 'Event::ConnectionLost', '', 'only in poll()', 'ConnectionLost constructed outside poll()')
    # peer close: error = Some(reason.into()) from the received frame
    for fn in ('Connection::process_payload', 'Connection::process_early_payload'):
        b = ctx.pfn(fn)
        st = [(w, v) for w, v in store_values(ctx, CONN, 'error', in_fn=b)]
        ok = bool(st) and all(('reason' in D.render(v) or 'close' in D.render(v).lower() or 'Frame' in D.render(v)) for w, v in st)
        ctx.check(ok, 'd', 'peer_close_reason_recorded', b, st[0][0].where() if st else b.where(), 'error = Some(reason.into())', 'peer close no longer records the received reason')
    # pre-1-RTT application close is encoded as APPLICATION_ERROR
    pt = ctx.pfn('Connection::poll_transmit')
    cons = [c for c in constructions(F, 'ConnectionClose', 'ConnectionClose', crate='quinn_proto') if F.root_of(c.body).id == pt.id]
    d = describer(F, pt)
    ok = any(D.has_const(d.operand(c.field_op('error_code'), c.bb, c.idx), named='APPLICATION_ERROR') or 'APPLICATION_ERROR' in D.render(d.operand(c.field_op('error_code'), c.bb, c.idx)) for c in cons)
    ctx.check(ok, 'd', 'early_app_close_masked', pt, pt.where(), 'ConnectionClose{APPLICATION_ERROR} for pre-1-RTT application close', 'application close reasons can leak into Initial/Handshake packets')
    why = early_close_polarity(ctx, pt, cons, d)
    ctx.check(not why, 'd', 'early_app_close_test', pt, pt.where(), 'space == Data || reason.is_transport_layer() -> verbatim reason, else masked', 'the transport-layer test for early close frames is gone or has the wrong polarity: ' + '; '.join(why))


CID = 'ConnectionId'


def place_type(F, body, place):
    """type string of a MIR place (local + deref / variant / field projections), or None when it cannot be resolved"""
    ty = body.local_ty(place[0])
    var = None
    for e in place[1]:
        if ty is None:
            return None
        if e == '*':
            ty = ty.lstrip('&').strip()
            ty = ty[4:] if ty.startswith('mut ') else ty
        elif isinstance(e, list) and e[0] == 'v':
            var = e[1]
        elif isinstance(e, list) and e[0] == 'f':
            nxt = None
            if ty.split('<')[0].endswith('option::Option') and var == 'Some' and e[1] == '0':
                nxt = ty[ty.index('<') + 1:-1]
            elif ty.split('<')[0].endswith('result::Result') and var in ('Ok', 'Err') and e[1] == '0':
                # top-level split of `Result<T, E>`
                inner, depth, parts, cur = ty[ty.index('<') + 1:-1], 0, [], ''
                for ch in inner:
                    depth += ch in '<(['
                    depth -= ch in '>)]'
                    if ch == ',' and depth == 0:
                        parts.append(cur.strip())
                        cur = ''
                    else:
                        cur += ch
                parts.append(cur.strip())
                nxt = parts[0 if var == 'Ok' else 1] if len(parts) == 2 else None
            else:
                try:
                    a = F.adt(e[2]) if e[2] else None
                except CheckBroken:
                    a = None
                for v in (a['variants'] if a else []):
                    if var is None or v['name'] == var:
                        nxt = next((f[1] for f in v['fields'] if f[0] == e[1]), nxt)
            ty, var = nxt, None
        else:
            return None
    return ty


def carries(d, x, through_calls):
    """descriptor d is the value x (a descriptor, or a predicate over descriptors) or holds it: x itself, a phi alternative, an aggregate operand, a projection of a holder;
    with through_calls='accessor' also a one-argument call on a holder (`side_args.pref_addr_cid()`), with 'any' any call
    with a holder among its arguments (`.copied()`, `.map(..)`, `.unwrap()`)"""
    if not isinstance(d, tuple) or not d:
        return False
    if x(d) if callable(x) else d == x:
        return True
    if d[0] == 'phi':
        return any(carries(a, x, through_calls) for a in d[1])
    if d[0] == 'agg':
        return any(carries(a, x, through_calls) for a in d[3])
    if d[0] in ('field', 'variant'):
        return carries(d[1], x, through_calls)
    if d[0] == 'call' and through_calls and (through_calls == 'any' or len(d[3]) == 1):
        return any(carries(a, x, through_calls) for a in d[3])
    return False


def cid_free_edges(F, body, x):
    """branch edges on which a CID-carrying value derived from parameter descriptor x is known to carry no ConnectionId:
    the None edge of a test (match / is_some / is_none) of exactly an Option<..ConnectionId..> projected from x, and the
    edges of a match on an enum derived from x that select a variant without any ConnectionId-typed field"""
    cut = set()
    for br in branches(F, body):
        inner, neg = peel_not(br.desc)
        if inner[0] == 'discr' and carries(inner[1], x, 'accessor'):
            st = [s for s in body.blocks[br.bb]['s'] if s[0] == '=' and s[2][0] == 'discr']
            ty = place_type(F, body, st[-1][2][1]) if st else None
            if ty is None or CID not in ty:
                continue
            if ty.split('<')[0].endswith('option::Option'):
                cut.add((br.bb, br.target(0)))
                continue
            try:
                a = F.adt(ty.split('<')[0])
            except CheckBroken:
                continue
            for v in a['variants']:
                if not any(CID in f[1] for f in v['fields']) and br.target(int(v['discr'])) not in [br.target(int(w['discr'])) for w in a['variants'] if any(CID in f[1] for f in w['fields'])]:
                    cut.add((br.bb, br.target(int(v['discr']))))
        elif inner[0] == 'call' and inner[1] in ('Option::is_some', 'Option::is_none') and len(inner[3]) == 1 and carries(inner[3][0], x, 'accessor') and len(inner) > 4:
            cs = [c for c in body.calls() if c.bb == inner[4]]
            if cs and cs[0].ga and all(CID in g for g in cs[0].ga):
                some_is_true = (inner[1] == 'Option::is_some') != neg
                cut.add((br.bb, br.target(0 if some_is_true else 1)))
    return cut


def routed_cids_recorded(ctx):
    """e/routed_cid_*: every connection ID entered into the routing map for a connection (Endpoint::new_cid) is recorded
    in that connection's ConnectionMeta.loc_cids, the set ConnectionIndex::remove purges when the connection is forgotten.
    Producer side: the result of every new_cid call is handed, as the value itself (possibly wrapped in Some / a struct
    literal), to an insertion into `..loc_cids` or to an argument of add_connection.  Consumer side (add_connection): for
    every parameter through which such a CID arrives, no path to a normal return avoids an insertion of (a value carried
    by) that parameter into the map stored as ConnectionMeta.loc_cids - except over edges on which the parameter is known
    to carry no CID (None / a variant without ConnectionId)."""
    F = ctx.facts
    ac = ctx.pfn('Endpoint::add_connection')
    nc = ctx.pfn('Endpoint::new_cid')
    prods = [c for c in F.callers_of('Endpoint::new_cid', crate='quinn_proto') if c.bb in c.body.live_blocks() and F.root_of(c.body).id != ac.id]
    via = {}
    for p in prods:
        b = p.body
        site = lambda n, p=p: n[0] == 'call' and len(n) > 4 and n[4] == p.bb and n[1] == short(p.f)
        sinks = []
        for c in b.calls():
            if c.bb not in b.live_blocks() or c.bb == p.bb:
                continue
            ads = [arg_desc(F, c, i) for i in range(len(c.args))]
            if c.is_('Endpoint::add_connection'):
                for i, a in enumerate(ads):
                    if carries(a, site, None):
                        via.setdefault(i, []).append(p)
                        sinks.append(c)
            elif ads and D.has_field(ads[0], 'loc_cids') and any(carries(a, site, None) for a in ads[1:]):
                sinks.append(c)
        ctx.check(bool(sinks), 'e', 'routed_cid_recorded_for_removal', F.root_of(b), p.where(), 'the CID routed by new_cid is handed to %s' % sorted({short(c.f) for c in sinks}),
                  'a CID entered into the routing map by new_cid is neither inserted into ConnectionMeta.loc_cids nor passed on to add_connection: ConnectionIndex::remove will never forget it')
    ctx.floor('e', 'routed_cid_producers', len(prods), 2)
    metas = [c for c in constructions(F, 'endpoint::ConnectionMeta', None, crate='quinn_proto') if F.root_of(c.body).id == ac.id and c.body.id == ac.id]
    if not ctx.check(bool(metas) and bool(via), 'e', 'routed_cid_record_anchor', ac, ac.where(), 'add_connection builds the ConnectionMeta; CIDs arrive through argument(s) %s' % sorted(via),
                     'cannot relate the CIDs produced by new_cid to the ConnectionMeta built in add_connection (%d constructions, CID-carrying arguments %s)' % (len(metas), sorted(via))):
        return
    d = describer(F, ac)
    maps = [d.operand(m.field_op('loc_cids'), m.bb, m.idx) for m in metas if m.field_op('loc_cids') is not None]
    rets = set(ac.return_blocks())
    for i in sorted(via):
        l = i + 1
        x = ('param', l, ac.local_name(l))
        plain = CID in ac.local_ty(l).split('<')[0]
        recs = set()
        for c in ac.calls():
            if c.bb not in ac.live_blocks() or not c.args or is_noise(c):
                continue
            ads = [arg_desc(F, c, k) for k in range(len(c.args))]
            if (ads[0] in maps or D.has_field(ads[0], 'loc_cids')) and any(carries(a, x, None if plain else 'any') for a in ads[1:]):
                recs.add(c.bb)
        whole = bool(maps) and all(any(n == x for n in walk(m)) for m in maps)    # map built from the value (from_iter / from([..]))
        cut = set() if plain else cid_free_edges(F, ac, x)
        open_ = ac.reachable_from(0, avoid=recs, avoid_edges=cut) & rets
        ctx.check(bool(maps) and (whole or (bool(recs) and not open_)), 'e', 'routed_cid_kept_in_loc_cids', ac, ac.where(),
                  'the CID arriving in `%s` is inserted into ConnectionMeta.loc_cids on every path on which it exists (%d insertion site(s))' % (x[2], len(recs)),
                  'a CID that new_cid routed to the connection arrives in add_connection through `%s` but is not recorded in ConnectionMeta.loc_cids on every path on which it exists: '
                  'ConnectionIndex::remove never purges it, so it keeps routing to the forgotten (later reused) handle' % x[2])


def fold_int(d):
    """integer value of a descriptor made of literals, `+` and `-` only, else None"""
    if d[0] == 'const' and d[1] == 'int':
        try:
            return int(d[2])
        except ValueError:
            return None
    if d[0] == 'bin' and d[1] in ('Add', 'Sub'):
        a, b = fold_int(d[2]), fold_int(d[3])
        return None if a is None or b is None else (a + b if d[1] == 'Add' else a - b)
    return None


def copy_origin(body, d, op, at):
    """follow a read operand back over value-preserving moves to the place it was copied from: `x = copy y`, and the
    round trip through an aggregate literal that is only built to carry the value (`t = (a, b); x = t.0`, the return
    tuple / struct of a helper whose body was inlined, a literal bound to a temporary).  Every local on the way has
    exactly one definition (a whole-local statement: no partial write, no call result) and is never mutably borrowed,
    so the value read at the end is the value `op` has at `at`.  Returns (operand, (bb, idx) at which it is read)."""
    while op[0] in ('c', 'm'):
        l, proj = op[1][0], list(op[1][1])
        if any(not (isinstance(e, list) and e and e[0] == 'f') for e in proj):
            break
        ds = body.defs_of(l)
        if len(ds) != 1 or ds[0][0] != 'stmt' or l in d.mut_borrowed:
            break
        rv, here = ds[0][3], (ds[0][1], ds[0][2])
        if rv[0] == 'use' and rv[1][0] in ('c', 'm'):
            src = rv[1]
            op, at = [src[0], [src[1][0], list(src[1][1]) + proj]], here
        elif rv[0] == 'agg' and proj and rv[1][0] in ('tuple', 'adt'):
            name = proj[0][1]
            if rv[1][0] == 'tuple':
                k = int(name) if name.isdigit() else None
            else:
                k = list(rv[1][3]).index(name) if len(rv[1]) > 3 and name in rv[1][3] else None
            if k is None or k >= len(rv[2]):
                break
            src = rv[2][k]
            if src[0] in ('c', 'm'):
                op, at = [src[0], [src[1][0], list(src[1][1]) + proj[1:]]], here
            elif not proj[1:]:
                return src, here
            else:
                break
        else:
            break
    return op, at


def recorded_cids_not_displaced(ctx):
    """e/recorded_cid_not_displaced: a CID recorded in ConnectionMeta.loc_cids stays recorded until ConnectionIndex::remove
    walks the map.  loc_cids is keyed by sequence number and every later issuance (send_new_identifiers) records its CID
    under the then current ConnectionMeta.cids_issued, so a CID recorded by add_connection survives only if (1) its key is
    strictly below the cids_issued value stored in the ConnectionMeta on every path through its insertion, and (2) two
    insertions on a common path use different keys.  Paths are related through the definitions of the counter: a
    definition of the stored counter value lies on a common path with an insertion if it is made behind the insertion, or
    reaches the insertion and is still the current one when the counter is read for the record.  The stored counter is
    followed back to that read over plain copies and over aggregates that only carry it (copy_origin: the return tuple
    of an extracted helper keeps the per-path definitions apart instead of merging them into one value set)."""
    F = ctx.facts
    ac = ctx.pfn('Endpoint::add_connection')
    d = describer(F, ac)
    metas = [c for c in constructions(F, 'endpoint::ConnectionMeta', None, crate='quinn_proto') if c.body.id == ac.id
             and c.field_op('loc_cids') is not None and c.field_op('cids_issued') is not None]
    n = 0
    for m in metas:
        mp = d.operand(m.field_op('loc_cids'), m.bb, m.idx)
        ins = [c for c in ac.calls() if c.bb in ac.live_blocks() and c.bb != m.bb and len(c.args) == 3 and short(c.f).endswith('::insert')
               and (arg_desc(F, c, 0) == mp or D.has_field(arg_desc(F, c, 0), 'loc_cids')) and m.bb in ac.reachable_strict(c.bb)]
        keys = {c.bb: [fold_int(x) for x in flat(arg_desc(F, c, 1))] for c in ins}
        # the counter: follow plain copies back to the variable, then its definitions reaching the record
        op, at = copy_origin(ac, d, m.field_op('cids_issued'), (m.bb, m.idx))
        why = []
        defs = []     # (block or None, [values])
        if op[0] in ('c', 'm') and not op[1][1]:
            var = op[1][0]
            for df in d.reaching_defs(var, at[0], at[1]):
                if df[0] == 'stmt':
                    defs.append((df[1], [fold_int(x) for x in flat(d.rvalue(df[3], df[1], df[2], 0))], df))
                else:
                    defs.append((None, [None], df))
            all_def_blocks = {x[1] for x in ac.defs_of(var) if x[0] in ('stmt', 'call', 'field', 'callfield', 'sd')}
        else:
            var = None
            defs.append((None, [fold_int(x) for x in flat(d.operand(op, at[0], at[1]))], None))
            all_def_blocks = set()
        if not ins:
            why.append('no insertion into the map stored as loc_cids found')
        if any(v is None for _, vs, _ in defs for v in vs) or not defs:
            why.append('the stored cids_issued is not a sum of literals on every path')
        if any(k is None for ks in keys.values() for k in ks):
            why.append('a CID is recorded under a key that is not a sum of literals')
        if not why:
            for s in ins:
                here = d.reaching_defs(var, s.bb, term_idx(ac, s.bb)) if var is not None else []
                for dbb, vs, df in defs:
                    if df is None:
                        common = True
                    elif dbb in ac.reachable_strict(s.bb):
                        common = True
                    elif s.bb == at[0] or s.bb in ac.reachable_strict(at[0]):
                        common = True      # the insertion lies behind the point at which the counter is read for the record
                    else:
                        common = df in here and path_avoiding(ac, ac.succ[s.bb], [at[0]], all_def_blocks - {at[0]}) is not None
                    if common and any(k >= v for k in keys[s.bb] for v in vs):
                        why.append('a CID is recorded under sequence number %s on a path on which the connection starts with cids_issued = %s: the next CID issued is recorded under '
                                   'that number again and displaces it' % (sorted(set(keys[s.bb])), sorted(set(vs))))
            for a in ins:
                for b in ins:
                    if a.bb != b.bb and b.bb in ac.reachable_strict(a.bb) and set(keys[a.bb]) & set(keys[b.bb]):
                        why.append('two CIDs are recorded under the same sequence number %s' % sorted(set(keys[a.bb]) & set(keys[b.bb])))
        n += 1
        ctx.check(not why, 'e', 'recorded_cid_not_displaced', ac, m.where(), '%d recorded CID(s), each under a distinct sequence number below the stored cids_issued' % len(ins),
                  'a CID recorded in ConnectionMeta.loc_cids by add_connection does not stay recorded (%s): once displaced it is still routed by ConnectionIndex.connection_ids '
                  'but ConnectionIndex::remove, which walks loc_cids, never forgets it' % '; '.join(sorted(set(why))))
    ctx.floor('e', 'connection_meta_records', n, 1)


def rule_e(ctx):
    F = ctx.facts
    recorded_cids_not_displaced(ctx)
    he = ctx.pfn('Endpoint::handle_event')
    tr = he.calls_to('Slab::try_remove')
    rm = he.calls_to('ConnectionIndex::remove')
    ok = bool(tr) and bool(rm) and all(any(contains_site(arg_desc(F, r, i), t) for t in tr for i in range(1, len(r.args))) for r in rm)
    ctx.check(ok, 'e', 'drained_forgets_connection', he, he.where(), 'connections.try_remove(ch) -> index.remove(&conn)', 'Drained no longer removes the connection from the slab and the routing index')
    rem = ctx.pfn('ConnectionIndex::remove')
    idx = F.adt('endpoint::ConnectionIndex')
    fields = [f[0] for f in idx['variants'][0]['fields']]
    touched = set()
    for w in field_writes(F, 'endpoint::ConnectionIndex', None and '' or '', crate='quinn_proto') if False else []:
        pass
    for f in fields:
        ws = [w for w in field_writes(F, 'endpoint::ConnectionIndex', f, crate='quinn_proto') if F.root_of(w.body).id == rem.id or (w.body.id == rem.id)]
        # remove_initial is a helper: look through one level
        via = False
        for c in rem.calls():
            if c.k == 'item' and c.f in F.bodies and F.bodies[c.f].self_ty.endswith('ConnectionIndex'):
                if any(w2.body.id == c.f for w2 in field_writes(F, 'endpoint::ConnectionIndex', f, crate='quinn_proto')):
                    via = True
        ctx.check(bool(ws) or via, 'e', 'index_remove_purges_' + f, rem, rem.where(), 'ConnectionIndex.%s is purged in remove()' % f,
                  'ConnectionIndex::remove does not touch routing table `%s`: a drained connection stays routable' % f)
    ctx.floor('e', 'routing_tables', len(fields), 5)
    # reset-token route removed under the address it was registered with
    rts = he.calls_to('ResetTokenTable::remove')
    for c in rts:
        a1 = arg_desc(F, c, 1)
        a2 = arg_desc(F, c, 2)
        ok = D.has_call(a1, 'Option::replace') and D.has_call(a2, 'Option::replace')
        ctx.check(ok, 'e', 'old_reset_route_removed_by_its_own_key', he, c.where(), 'remove(old.0, old.1)', 'the previous reset-token route is removed under a key not taken from the stored (remote, token): stale route survives an address change (%s, %s)' % (D.render(a1)[:60], D.render(a2)[:60]))
    ctx.floor('e', 'reset_route_replace_sites', len(rts), 1)
    for c in rem.calls_to('ResetTokenTable::remove'):
        a1 = arg_desc(F, c, 1)
        ctx.check(D.has_field(a1, 'reset_token'), 'e', 'drain_removes_registered_reset_route', rem, c.where(), 'remove(conn.reset_token)', 'remove() does not purge the registered reset-token route')
    routed_cids_recorded(ctx)


def rule_f(ctx):
    F = ctx.facts
    ht = ctx.pfn('Connection::handle_timeout')
    ks = ht.calls_to('Connection::kill')
    ok = bool(ks) and all(any(n[0] == 'agg' and n[2].endswith('ConnectionError::TimedOut') for n in walk(arg_desc(F, c, 1))) for c in ks)
    ctx.check(ok, 'f', 'idle_expiry_kills_with_timed_out', ht, ht.where(), 'kill(ConnectionError::TimedOut)', 'idle expiry no longer kills the connection with TimedOut')
    who_may_construct(ctx, 'f', 'timed_out_sites', 'ConnectionError', 'TimedOut', ['Connection::handle_timeout', 'Endpoint::accept'], floor=2)
    ri = ctx.pfn('Connection::reset_idle_timeout')
    for c in ri.calls_to('TimerTable::set'):
        a = arg_desc(F, c, 2)
        ok = D.has_param(a, name='now') and (D.has_call(a, 'cmp::max') or D.has_call(a, 'Ord::max')) and D.has_call(a, 'Connection::pto') and D.has_const(a, 3) and D.has_field(a, 'idle_timeout')
        ctx.check(ok, 'f', 'idle_deadline_expression', ri, c.where(), 'now + max(idle_timeout, 3*pto)', 'idle deadline is not now + max(timeout, 3*pto): ' + D.render(a)[:200])
    opa = ctx.pfn('Connection::on_packet_authenticated')
    ctx.check(must_call(F, opa, ['Connection::reset_idle_timeout'], 0), 'f', 'authenticated_packet_restarts_idle_timer', opa, opa.where(), 'must-calls reset_idle_timeout', 'an authenticated packet does not always restart the idle timer')
    who_may_call(ctx, 'f', 'reset_idle_timeout_callers', ['Connection::reset_idle_timeout'], ['Connection::on_packet_authenticated', 'PacketBuilder::finish_and_track'], floor=2)
    ft = ctx.pfn('PacketBuilder::finish_and_track')
    for c in ft.calls_to('Connection::reset_idle_timeout'):
        # the call lies on the TRUE edge of a dominating test of exactly conn.permit_idle_reset
        brs = [br for br, f_tgt, t_tgt in field_tests(F, ft, 'permit_idle_reset', taken=('take', 'replace')) if only_over(ft, br, [f_tgt], c.bb)]
        ctx.check(bool(brs), 'f', 'send_restarts_idle_only_when_permitted', ft, c.where(), 'reached only over permit_idle_reset == true',
                  'sending restarts the idle timer although permit_idle_reset is false / untested (a one-sided sender would never time out)')
    # the permission is re-armed only by an authenticated packet from the peer and consumed by the next ack-eliciting send
    n_true = n_false = 0
    for w, v in store_values(ctx, 'connection::Connection', 'permit_idle_reset'):
        r = F.root_of(w.body)
        if v[0] != 'const':
            ctx.bad('f', 'idle_reset_permission_writers/non_constant', r, w.where(), 'permit_idle_reset stored from a computed value: ' + D.render(v)[:120])
            continue
        truth = str(v[2]) in ('1', 'true')
        if truth:
            n_true += 1
            ctx.check(r.short in ('Connection::on_packet_authenticated', 'Connection::new'), 'f', 'idle_reset_permission_rearmed_only_by_peer_packet', r, w.where(), 'permit_idle_reset = true in %s' % r.short,
                      'permit_idle_reset is re-armed in %s without an authenticated packet from the peer (own sends would keep a dead connection alive)' % r.short)
        else:
            n_false += 1
            ctx.check(r.short == 'PacketBuilder::finish_and_track', 'f', 'idle_reset_permission_consumed_by_send', r, w.where(), 'permit_idle_reset = false in %s' % r.short, 'unexpected writer %s' % r.short)
    ctx.floor('f', 'idle_reset_permission_true_stores', n_true, 1)
    ctx.floor('f', 'idle_reset_permission_false_stores', n_false, 1)
    who_may_write(ctx, 'f', 'idle_reset_permission_writers', 'connection::Connection', 'permit_idle_reset', ['Connection::on_packet_authenticated', 'Connection::new', 'PacketBuilder::finish_and_track'], floor=2)


def rule_g(ctx):
    F = ctx.facts
    dp = ctx.qfn('<ConnectionDriver as Future>::poll')
    brs = [br for br in branches(F, dp) if D.has_call(br.desc, 'Connection::is_drained')]
    ctx.check(bool(brs), 'g', 'driver_completes_on_drained', dp, dp.where(), 'is_drained() test', 'ConnectionDriver no longer tests is_drained()')
    st = ctx.qfn('<connection::State as Drop>::drop')
    ctx.check(may_reach(F, st, ['EndpointEvent::drained'], 1), 'g', 'state_drop_notifies_endpoint', st, st.where(), 'Drop for State sends EndpointEvent::drained()', 'dropping the connection state no longer notifies the endpoint')
    # ... exactly once: the fallback notification is sent only if the proto connection has not emitted its own final Drained
    # (a second Drained(handle) would make the endpoint forget whichever connection has reused the slot): every site that
    # may produce EndpointEvent::drained() is reachable only over the FALSE edge of a test of exactly self.inner.is_drained()
    tests = [(br, f, t) for br, f, t in call_tests(F, st, 'Connection::is_drained', 'inner') if f != t]
    sites = may_sites(F, st, ['EndpointEvent::drained'], 1)
    free = st.reachable_from(0, avoid_edges={(br.bb, f) for br, f, t in tests})
    ctx.check(bool(tests) and bool(sites) and not (sites & free), 'g', 'state_drop_notifies_only_if_not_drained', st, st.where(), 'EndpointEvent::drained() only over !self.inner.is_drained()',
              'Drop for State can send EndpointEvent::drained() although the connection already emitted its final Drained (no test of exactly inner.is_drained() whose false edge '
              'is the only way to the send): the duplicate notification makes the endpoint forget the connection that reused the handle')
    he = ctx.qfn('endpoint::State::handle_events') if F.try_fn('endpoint::State::handle_events', 'quinn') else None
    if he is not None:
        ok = any(D.has_call(br.desc, 'EndpointEvent::is_drained') for br in branches(F, he)) and bool(he.calls_to('HashMap::remove'))
        ctx.check(ok, 'g', 'endpoint_driver_forgets_drained', he, he.where(), 'is_drained() -> senders.remove', 'the endpoint driver no longer forgets drained connections')
    tm = ctx.qfn('connection::State::terminate')
    who_may_call(ctx, 'g', 'terminate_callers', ['connection::State::terminate'], ['State::forward_app_events', 'State::close', 'State::process_conn_events', '<ConnectionDriver as Future>::poll', 'State::forward_endpoint_events', 'State::drive_transmit'], crate='quinn')


def run(ctx):
    rule_a(ctx)
    rule_b(ctx)
    rule_c(ctx)
    rule_d(ctx)
    rule_e(ctx)
    rule_f(ctx)
    rule_g(ctx)
