"""C03 — peer-controlled input never crashes or hangs an endpoint (structural part)."""
from engine.rulelib import *
from engine import desc as D
from engine import guarded as G
from rules import guard_table as GT

EXPLANATION = ("Static rules over quinn-proto MIR: (a) GUARDED-READ: each of the consuming buffer reads / slice indexings of the decode side "
               "(coding, varint, frame, packet, shared, transport_parameters, token, packet_crypto, header-protection) is controlled by a dominating length "
               "guard that covers the bytes consumed (built-in sufficiency idioms) or matches the guard relation confirmed by reading (frozen table); obligations "
               "exported to callers are checked at every caller; the ACK range validator agrees with the lazy ACK iterator; (b) ORDERED-BOUNDS at every clamp(); "
               "(c) every peer-fed container grows only under its cap test; (d) handle_packet's error->state match is total and its unreachable!() arms are for "
               "errors never constructed below packet processing; (f) frame-legality guards yield the prescribed transport error; (g) Endpoint::handle writes no "
               "per-connection state. Absence of every arithmetic overflow / unwrap whose safety is a data invariant is NOT decided.")
RULE = "rule instances = (rule, site) pairs: consuming-read sites, clamp sites, container growth sites, guards; non-trivial = bound to a real site"


# --------------------------------------------------------------------------
# local helpers (exact shapes)
# --------------------------------------------------------------------------

_ADD = ('saturating_add', 'checked_add', 'wrapping_add')
_SUB = ('saturating_sub', 'checked_sub', 'wrapping_sub')


def _arith(d, op, methods):
    """operands of an addition / subtraction written as an operator or as a saturating/checked/wrapping method; else None"""
    if d[0] == 'bin' and d[1] == op:
        return (d[2], d[3])
    if d[0] == 'call' and d[1].rsplit('::', 1)[-1] in methods and len(d[3]) == 2:
        return (d[3][0], d[3][1])
    return None


def _rel_edges(F, body, relpred):
    """(Branch, truth, target) of every branch edge on which a relation satisfying relpred(op, a, b) holds (no literal-offset
    filtering: for relations whose operands legitimately carry literals)"""
    out = []
    for br in branches(F, body):
        for truth in (True, False):
            rel = relation_on(br.desc, truth)
            if rel is not None and relpred(*rel):
                out.append((br, truth, br.target(1 if truth else 0)))
    return out


def _closure_bodies(F, d):
    """closure bodies constructed inside descriptor d"""
    res = []
    for x in walk(d):
        if x[0] == 'agg' and x[1] == 'closure':
            res.extend(b for b in F.bodies.values() if b.kind == 'closure' and b.canon == x[2])
    return res


def _int_consts(d):
    out = []
    for x in walk(d):
        if x[0] == 'const' and x[1] == 'int':
            try:
                out.append(int(x[2]))
            except (TypeError, ValueError):
                out.append(1 << 64)
    return out


def _reach_constrained(body, starts, choose, avoid=()):
    """blocks reachable from `starts` when choose(bb) (-> list of allowed successors or None) restricts switch blocks"""
    avoid = set(avoid)
    seen = set()
    stack = [s for s in starts]
    while stack:
        b = stack.pop()
        if b in seen or b in avoid:
            continue
        seen.add(b)
        succ = choose(b)
        if succ is None:
            succ = body.succ[b]
        stack.extend(x for x in succ if x not in seen)
    return seen


def _static_index(p):
    """bounds check of a literal index into a fixed-length local array with index < length (`buf[0]` of `[0; 8]`): true at compile
    time, consumes no peer byte.  Such a site is still classified (table), but how many times a function spells `buf[0]` is not
    something that must exist, so it does not count towards the site floor."""
    import re
    m = re.fullmatch(r'index \((\d+) Lt (\d+)\)', p['need']) if p['callee'] == '[bounds]' else None
    return bool(m) and int(m.group(1)) < int(m.group(2))


def _window_bounded(d):
    """Assembler value that a peer cannot inflate by re-sending data: built from literals and `end - bytes_read` (bytes between the
    read offset and the highest received offset; flow control / crypto_buffer_size bound it); anything else (self.buffered and
    self.allocated grow with every duplicate copy) only as an operand of min(_, bounded)."""
    if d[0] == 'const':
        return d[1] == 'int'
    if d[0] == 'phi':
        return all(_window_bounded(x) for x in d[1])
    sub = _arith(d, 'Sub', ('saturating_sub', 'wrapping_sub'))
    if sub and sub[0][0] == 'field' and sub[0][2] == 'end' and sub[1][0] == 'field' and sub[1][2] == 'bytes_read' and sub[0][1] == sub[1][1]:
        return True
    if d[0] == 'call' and d[1].rsplit('::', 1)[-1] == 'min' and len(d[3]) == 2:
        return any(_window_bounded(a) for a in d[3])
    if d[0] == 'call' and d[1].rsplit('::', 1)[-1] in ('max', 'saturating_add', 'saturating_mul', 'wrapping_add', 'wrapping_mul') and len(d[3]) == 2:
        return all(_window_bounded(a) for a in d[3])
    if d[0] == 'bin' and d[1] in ('Add', 'Mul'):
        return _window_bounded(d[2]) and _window_bounded(d[3])
    if d[0] == 'bin' and d[1] in ('Div', 'Shr', 'Sub', 'Rem'):
        return _window_bounded(d[2]) or (d[1] == 'Rem' and _window_bounded(d[3]))
    if sub:
        return _window_bounded(sub[0])
    return False


# ---- bounded iteration (loops of the CID ring) ------------------------------------------------------------------

_SMALL = 1 << 16
_RING_ADT = 'cid_queue::CidQueue'
_ITER_ADAPTERS = ('into_iter', 'iter', 'iter_mut', 'filter_map', 'map', 'filter', 'enumerate', 'rev', 'skip', 'by_ref', 'copied', 'cloned',
                  'step_by', 'skip_while', 'take_while', 'map_while', 'peekable', 'inspect', 'fuse')


def _fixed_array_field(F, d):
    """d is a field of a crate struct whose declared type is a fixed-size array `[T; N]` (iteration over it is bounded by N)"""
    if d[0] != 'field':
        return False
    for v in F.adt(_RING_ADT)['variants']:
        for f in v['fields']:
            if f[0] == d[2] and f[1].startswith('[') and ';' in f[1]:
                return True
    return False


def _small(F, d, guards=()):
    """integer descriptor bounded by a small constant whatever the peer sent: a literal / named const <= 65536, min(_, small),
    x % small, the length of a fixed-size array field, sums/products/max of small values, or a value that a dominating guard edge
    (`guards`: descriptors g with g < small established on the way in) bounds"""
    if d in guards:
        return True
    if d[0] == 'const':
        try:
            return d[1] == 'int' and 0 <= int(d[2]) <= _SMALL
        except (TypeError, ValueError):
            return False
    if d[0] == 'phi':
        return all(_small(F, x, guards) for x in d[1])
    if d[0] == 'call' and len(d[3]) == 2:
        m = d[1].rsplit('::', 1)[-1]
        if m == 'min':
            return any(_small(F, a, guards) for a in d[3])
        if m in ('max', 'saturating_add', 'saturating_mul', 'wrapping_add', 'wrapping_mul'):
            return all(_small(F, a, guards) for a in d[3])
        if m in ('saturating_sub', 'wrapping_div', 'rem_euclid'):
            return _small(F, d[3][0], guards) or (m == 'rem_euclid' and _small(F, d[3][1], guards))
    if d[0] == 'call' and len(d[3]) == 1 and d[1].rsplit('::', 1)[-1] == 'len':
        return _fixed_array_field(F, d[3][0])
    if d[0] == 'un' and d[1] == 'PtrMetadata':
        return _fixed_array_field(F, d[2])
    if d[0] == 'bin':
        if d[1] in ('Add', 'Mul'):
            return _small(F, d[2], guards) and _small(F, d[3], guards)
        if d[1] == 'Rem':
            return _small(F, d[2], guards) or _small(F, d[3], guards)
        if d[1] in ('Div', 'Shr', 'Sub', 'BitAnd'):
            return _small(F, d[2], guards) or (d[1] == 'BitAnd' and _small(F, d[3], guards))
    return False


def _bounded_iter(F, d, guards=(), depth=0):
    """iterator descriptor that yields a small number of items whatever the peer sent"""
    if d[0] == 'phi':
        return all(_bounded_iter(F, x, guards, depth) for x in d[1])
    if d[0] == 'agg' and d[1] == 'adt' and d[2].split('::')[-1] in ('Range', 'RangeInclusive') and len(d) > 4 and 'end' in d[4]:
        return _small(F, d[3][list(d[4]).index('end')], guards)
    if _fixed_array_field(F, d):
        return True
    if d[0] != 'call' or not d[3]:
        return False
    m = d[1].rsplit('::', 1)[-1]
    if d[1].endswith('RangeInclusive::new') and len(d[3]) == 2:
        return _small(F, d[3][1], guards)
    if m in _ITER_ADAPTERS:
        return _bounded_iter(F, d[3][0], guards, depth)
    if m == 'take' and len(d[3]) == 2:
        return _small(F, d[3][1], guards) or _bounded_iter(F, d[3][0], guards, depth)
    if m == 'zip' and len(d[3]) == 2:
        return any(_bounded_iter(F, a, guards, depth) for a in d[3])
    if m == 'chain' and len(d[3]) == 2:
        return all(_bounded_iter(F, a, guards, depth) for a in d[3])
    if d[2].startswith('quinn_proto::') and depth < 2:
        # a crate helper returning an iterator (CidQueue::iter): every value it returns is a bounded iterator in its own right
        # (its parameters are not substituted: a bound that depends on an argument is not accepted)
        bs = [b for b in F.bodies.values() if b.kind == 'fn' and b.canon == canon_of(d[2])]
        if len(bs) != 1:
            return False
        rds = [y for _, x in ret_descs(F, bs[0]) for y in flat(x)]
        return bool(rds) and all(_bounded_iter(F, x, (), depth + 1) for x in rds)
    return False


def canon_of(p):
    from engine.facts import canon
    return canon(p)


def _cycles(body):
    """strongly connected sets of live blocks that contain a cycle"""
    live = body.live_blocks()
    seen = set()
    out = []
    for b in sorted(live):
        if b in seen:
            continue
        fw = body.reachable_strict(b)
        if b not in fw:
            continue
        scc = {x for x in fw if b in body.reachable_from(x)}
        seen |= scc
        out.append(scc)
    return out


def _guards_into(F, body, header):
    """descriptors g for which `g < small` / `g <= small` holds whenever `header` is reached: the relation's branch dominates the
    header and the header cannot be reached over its other edge"""
    out = []
    for br, truth, tgt in _rel_edges(F, body, lambda o, a, b: o in ('Lt', 'Le') and _small(F, b)):
        if body.dominates(br.bb, header) and br.bb != header:
            other = [t for _, t in br.edges if t != tgt]
            if tgt not in other and not any(header in body.reachable_from(t, avoid=[br.bb]) for t in other):
                out.append(relation_on(br.desc, truth)[1])
    return tuple(out)


def loop_unbounded(F, body, scc):
    """None when the cycle `scc` has a bounded trip count, else the reason.  Bounded: some block that every iteration passes leaves
    the cycle either on the exhausted edge of `Iterator::next` over a bounded iterator, or on the failing edge of `i < N` /
    `i <= N` with N small."""
    n = len(body.blocks)
    seen_iter = []
    for br in branches(F, body):
        if br.bb not in scc or all(t in scc for _, t in br.edges):
            continue
        rest = scc - {br.bb}
        outside = set(range(n)) - rest
        if any(x in body.reachable_strict(x, avoid=outside) for x in rest):
            continue            # an inner cycle does not pass this exit
        header = min(scc, key=lambda x: (not any(p not in scc for p in body.pred[x]), x))
        guards = _guards_into(F, body, header)
        d = br.desc
        if d[0] == 'discr' and d[1][0] == 'call' and d[1][1].endswith('::next') and 'Iterator' in d[1][1] and d[1][3]:
            it = d[1][3][0]
            if _bounded_iter(F, it, guards):
                return None
            seen_iter.append(D.render(it)[:160])
            continue
        for truth in (True, False):
            rel = relation_on(d, truth)
            tgt = br.target(1 if truth else 0)
            if rel and rel[0] in ('Lt', 'Le') and tgt in scc and _small(F, rel[2], guards):
                return None
    if seen_iter:
        return 'it runs over %s, whose length the peer chooses (not min(_, small const) / a fixed-size array / a range guarded by a dominating `n < small` test)' % ' / '.join(seen_iter)
    return 'no exit taken on every iteration is the end of a bounded iterator or the failing edge of `i < small`'


def cid_ring_loops_bounded(ctx, rule, instance):
    """every loop executed while the CID ring handles a NEW_CONNECTION_ID / rotates has a trip count bounded by a small constant
    (the ring has LEN slots: nothing in it needs more than O(LEN) steps); sequence numbers and retire_prior_to are peer-chosen
    62-bit values, so a loop whose bound is derived from them without min(_, LEN) spins the endpoint driver."""
    F = ctx.facts
    roots = [b for b in F.code_bodies('quinn_proto') if b.kind == 'fn' and not b.trait and path_matches(b.self_ty or '', _RING_ADT)]
    ctx.floor(rule, 'cid_ring_methods', len(roots), 4)
    ids = reach_set(F, roots, depth=3)
    n = 0
    for bid in sorted(ids):
        b = F.bodies[bid]
        if b.crate != 'quinn_proto' or 'cid_queue' not in b.id:
            continue
        for scc in _cycles(b):
            n += 1
            why = loop_unbounded(F, b, scc)
            line = min([br.line for br in branches(F, b) if br.bb in scc] or [b.line])
            ctx.check(why is None, rule, instance, F.root_of(b), b.where(line), 'loop with a trip count bounded by a small constant',
                      'a loop of the CID ring is not bounded by a constant: ' + (why or ''))
    ctx.floor(rule, 'cid_ring_loops', n, 1)


def guarded_reads(ctx, rule='a'):
    F = ctx.facts
    ss = G.sites(F)
    n_auto = 0
    n_peer = 0
    used = set()
    for s in ss:
        p = G.profile(F, s)
        v = G.auto_verdict(p)
        where = '%s:%d' % (p['file'], p['line'])
        if not _static_index(p):
            n_peer += 1
        if v:
            n_auto += 1
            ctx.ok(rule, 'guarded_read', p['fn'], where, '%s need=%s: %s' % (p['callee'], p['need'][:40], v[1][:120]))
            continue
        ent = None
        for i, (fn, callee, needsub, req, reason) in enumerate(GT.TABLE):
            if fn == p['fn'] and callee == p['callee'] and needsub in p['need']:
                ent = (i, req, reason)
                break
        if ent is None:
            ctx.bad(rule, 'unguarded_read', p['fn_id'], where,
                    'consuming read %s (need %s) on %s is neither covered by a length guard nor a confirmed table entry; guards seen: %s' % (p['callee'], p['need'][:80], p['recv'][:40], p['all_guards'][:4]),
                    site_class=p['callee'].split('::')[-1])
            continue
        i, req, reason = ent
        used.add(i)
        missing = [r for r in req if r not in p['all_guards']]
        ctx.check(not missing, rule, 'guard_relation_changed', p['fn_id'], where, '%s need=%s: %s' % (p['callee'], p['need'][:40], reason[:100]),
                  'the guard(s) confirmed for %s (need %s) are gone or changed: missing %s; present: %s' % (p['callee'], p['need'][:60], missing, p['all_guards'][:5]),
                  site_class=p['callee'].split('::')[-1])
    # sites whose index / length depends on peer bytes or on the buffer (compile-time-true constant indexing excluded, see _static_index)
    ctx.floor(rule, 'consuming_read_sites', n_peer, GT.FLOOR_SITES)
    ctx.floor(rule, 'auto_discharged_sites', n_auto, GT.FLOOR_AUTO)
    # exported obligations: callers
    for callee, allowed in GT.EXPORTED.items():
        sites = [c for c in F.callers_of(callee, crate='quinn_proto') if not is_noise(c)]
        for c in sites:
            r = F.root_of(c.body)
            ctx.check(any(path_matches(r.id, a) for a in allowed), rule, 'exported_obligation_callers', r, c.where(), '%s called from profiled caller %s' % (callee, r.short),
                      '%s reads without a guard of its own and is called from %s, which is not one of the checked callers %s' % (callee, r.short, allowed))
    # consumed-count idiom of scan_ack_blocks
    sc = ctx.pfn('frame::scan_ack_blocks')
    rd = [y for _, x in ret_descs(F, sc) for y in flat(x)]
    ok = any(x[0] == 'agg' and 'Ok' in x[2] and x[3] and x[3][0][0] == 'bin' and x[3][0][1] == 'Sub' and D.has_call(x[3][0][3], 'Buf::remaining') and D.has_call(x[3][0][2], 'Buf::remaining') for x in rd)
    ctx.check(ok, rule, 'scan_returns_consumed_count', sc, sc.where(), 'Ok(total_len - buf.remaining())', 'scan_ack_blocks no longer returns the consumed byte count of the scanned buffer')
    # validator / lazy iterator agreement: both subtract gap + 2 and block
    ai = ctx.pfn('<AckIter as Iterator>::next')

    def gap_consts(b):
        out = set()
        d = describer(F, b)
        for i, j, pl, rv, line in b.assigns():
            if rv[0] == 'bin' and rv[1].startswith('Add'):
                x = d.rvalue(rv, i, j, 0)
                if x[0] == 'bin' and x[1] == 'Add' and (x[2][0] == 'const' or x[3][0] == 'const') and D.has_call(x, 'BufExt::get_var'):
                    k = x[2] if x[2][0] == 'const' else x[3]
                    out.add(str(k[2]))
        return out
    a, b_ = gap_consts(sc), gap_consts(ai)
    ctx.check(a == b_ and a == {'2'}, rule, 'ack_validator_matches_iterator', sc, sc.where(), 'scan_ack_blocks and AckIter::next both step by gap + 2',
              'the ACK range validator (gap + %s) and the unchecked AckIter::next (gap + %s) disagree: a frame accepted by the validator can underflow in the iterator' % (sorted(a), sorted(b_)))
    cs = [c for c in sc.calls_to('u64::checked_sub')]
    ctx.check(len(cs) >= 3, rule, 'ack_validator_checked_arithmetic', sc, sc.where(), '%d checked_sub sites' % len(cs), 'scan_ack_blocks lost a checked subtraction')


def rule_b(ctx):
    F = ctx.facts
    n = 0
    for cr in ('quinn_proto', 'quinn', 'quinn_udp'):
        for c in F.callers_of('Ord::clamp', 'clamp', crate=cr):
            if not short(c.f).endswith('clamp'):
                continue
            n += 1
            lo, hi = arg_desc(F, c, 1), arg_desc(F, c, 2)
            ok, why = ordered(lo, hi)
            r = F.root_of(c.body)
            ctx.check(ok, 'b', 'unordered_clamp_bounds', r, c.where(), why, 'clamp(lo, hi) with bounds not provably ordered (panics when lo > hi): lo=%s hi=%s' % (D.render(lo)[:120], D.render(hi)[:120]))
    ctx.floor('b', 'clamp_sites', n, 3)
    peer_threshold_subtractions_ordered(ctx, 'b', 'peer_threshold_subtraction_ordered')


# ---- ordered operands of subtractions over peer-copied thresholds ----------------------------------------------

_PEER_VALUE_TYPES = ('frame::',)          # decoded frames: every integer in them is the peer's choice (any varint)
_THRESHOLD_ADTS = ('spaces::PendingAcks',)
_TRANSPARENT_ARITH = _ADD + _SUB + ('min', 'max', 'wrapping_mul', 'saturating_mul', 'into_inner')


def _peer_fed_fields(ctx, adt):
    """fields of `adt` that receive a value taken from a parameter whose type is a decoded frame (any store, any function)"""
    F = ctx.facts
    out = []
    for v in F.adt(adt)['variants']:
        for f in v['fields']:
            for w, d in store_values(ctx, adt, f[0]):
                tys = w.body.locals
                if any(x[0] == 'param' and x[1] < len(tys) and any(t in (tys[x[1]][0] or '') for t in _PEER_VALUE_TYPES) for x in walk(d)):
                    out.append(f[0])
                    break
    return out


def _threshold_dep(b, d, adt, fields):
    """d is computed by plain arithmetic from a peer-fed field of the receiver (`self.f`, f in fields): the field itself, or an
    operator / saturating / wrapping / min / max / cast expression over such a value.  Results of other calls are values in
    their own right (their range is that callee's contract, not this subtraction's)."""
    if d[0] == 'field':
        base = d[1]
        return d[2] in fields and base[0] == 'param' and base[1] < len(b.locals) and adt.split('::')[-1] in (b.locals[base[1]][0] or '')
    if d[0] == 'bin':
        return _threshold_dep(b, d[2], adt, fields) or _threshold_dep(b, d[3], adt, fields)
    if d[0] == 'un':
        return _threshold_dep(b, d[2], adt, fields)
    if d[0] == 'phi':
        return any(_threshold_dep(b, x, adt, fields) for x in d[1])
    if d[0] == 'call' and d[1].rsplit('::', 1)[-1] in _TRANSPARENT_ARITH:
        return any(_threshold_dep(b, a, adt, fields) for a in d[3])
    return False


def _panicking_subs(F, b):
    """(block, line, minuend, subtrahend) of every subtraction of b that can underflow: operator `-` (overflow-checked in debug,
    wrapping in release) and wrapping_sub / unchecked_sub calls.  checked_sub / saturating_sub have a defined result."""
    d = describer(F, b)
    live = b.live_blocks()
    out = []
    for i, blk in enumerate(b.blocks):
        if i not in live or blk['c']:
            continue
        for j, st in enumerate(blk['s']):
            if st[0] == '=' and st[2][0] == 'bin' and D.BINOPS.get(st[2][1]) == 'Sub':
                out.append((i, st[-1], d.operand(st[2][2], i, j, 0), d.operand(st[2][3], i, j, 0)))
    for c in b.calls():
        if c.bb in live and short(c.f or '').rsplit('::', 1)[-1] in ('wrapping_sub', 'unchecked_sub') and len(c.args) == 2:
            out.append((c.bb, c.line, arg_desc(F, c, 0), arg_desc(F, c, 1)))
    return out


def peer_threshold_subtractions_ordered(ctx, rule, instance):
    """PendingAcks copies ack_eliciting_threshold / reordering_threshold verbatim from the peer's ACK_FREQUENCY frame (any
    62-bit value).  Every subtraction `x - y` in a PendingAcks method in which x or y is computed from such a field must be
    ordered for THESE operands: a dominating branch edge on which `y <= x` (or `y < x`) holds for exactly the two operand
    values, the subtraction being unreachable from the branch's other edges.  A guard that compares the threshold with some
    other packet number orders nothing: the peer picks the threshold between the two and the connection task panics (debug) or
    the loss-reporting interval wraps (release)."""
    F = ctx.facts
    n_fields = 0
    n = 0
    for adt in _THRESHOLD_ADTS:
        fields = _peer_fed_fields(ctx, adt)
        n_fields += len(fields)
        for b in F.code_bodies('quinn_proto'):
            r = F.root_of(b)
            if not path_matches(r.self_ty or '', adt):
                continue
            subs = [s for s in _panicking_subs(F, b) if _threshold_dep(b, s[2], adt, fields) or _threshold_dep(b, s[3], adt, fields)]
            if not subs:
                continue
            brs = branches(F, b)
            for bb, line, x, y in subs:
                n += 1
                covered = False
                for br in brs:
                    if not b.dominates(br.bb, bb):
                        continue
                    for truth in (True, False):
                        rel = relation_on(br.desc, truth)
                        if not (rel and rel[0] in ('Le', 'Lt') and rel[1] == y and rel[2] == x):
                            continue
                        tgt = br.target(1 if truth else 0)
                        other = [t for _, t in br.edges if t != tgt]
                        if tgt is not None and other and not any(bb in b.reachable_from(t, avoid=[br.bb]) for t in other):
                            covered = True
                ctx.check(covered, rule, instance, r, b.where(line), 'subtraction over a peer-copied threshold only on the edge `subtrahend <= minuend` of a dominating test of the same two values',
                          'a subtraction whose operand comes from the peer\'s ACK_FREQUENCY frame is not ordered by a dominating comparison of its own operands: %s - %s underflows for a threshold chosen by the peer (panic in debug builds, wrapped interval in release)'
                          % (D.render(x)[:100], D.render(y)[:100]))
    ctx.floor(rule, instance + '_peer_fed_fields', n_fields, 2)
    ctx.info(rule, '%d subtraction(s) over peer-copied ACK_FREQUENCY thresholds' % n)


def ordered(lo, hi):
    if lo[0] == 'const' and hi[0] == 'const' and lo[1] == 'int' and hi[1] == 'int':
        return int(lo[2]) <= int(hi[2]), 'constants %s <= %s' % (lo[2], hi[2])
    rl = D.render(lo)
    for x in walk(hi):
        if x[0] == 'call' and x[1].endswith('::max') and any(D.render(a) == rl for a in x[3]):
            return True, 'hi = max(_, lo)'
    rh = D.render(hi)
    for x in walk(lo):
        if x[0] == 'call' and x[1].endswith('::min') and any(D.render(a) == rh for a in x[3]):
            return True, 'lo = min(_, hi)'
    # both derived from constants through arithmetic on the same base (e.g. 2*B, 10*B)
    if lo[0] == 'bin' and hi[0] == 'bin' and lo[1] == hi[1] == 'Mul':
        cl = [c for c, _ in D.consts_in(lo)]
        ch = [c for c, _ in D.consts_in(hi)]
        try:
            pl = 1
            for c in cl:
                pl *= int(c)
            ph = 1
            for c in ch:
                ph *= int(c)
            if pl <= ph:
                return True, 'constant products %d <= %d' % (pl, ph)
        except ValueError:
            pass
    return False, ''


def rule_c(ctx):
    F = ctx.facts
    n = 0
    # 1. PathResponses::push
    b = ctx.pfn('PathResponses::push')
    pushes = [c.bb for c in b.calls_to('Vec::push')]
    guard_protects(ctx, 'c', 'path_responses_capped', b, lambda o, x, y: o == 'Le' and D.has_const(x, 16) and D.has_call(y, 'Vec::len'), pushes, what='pending.len() < MAX_PATH_RESPONSES')
    n += len(pushes)
    # 2. retire_cids in the NewConnectionId arm
    pp = ctx.pfn('Connection::process_payload')
    ext = [c for c in pp.calls() if c.is_('Vec::extend', 'Extend::extend') and D.has_field(arg_desc(F, c, 0), 'retire_cids')]
    ranges = [arg_desc(F, c, 1) for c in ext]

    def retired_cap(o, x, y):
        # MAX < len(retire_cids) + (R.end - R.start), R = the very range that is appended
        if not (o == 'Lt' and x[0] == 'const' and (x[3] == 'MAX_PENDING_RETIRED_CIDS' or x[3].endswith('::MAX_PENDING_RETIRED_CIDS'))):
            return False
        terms = _arith(y, 'Add', _ADD)
        if terms is None:
            return False
        for cur, new in (terms, terms[::-1]):
            if not (cur[0] == 'call' and cur[1].endswith('::len') and D.has_field(cur, 'retire_cids')):
                continue
            sub = _arith(new, 'Sub', _SUB)
            if sub and any(sub[0] == ('field', r, 'end') and sub[1] == ('field', r, 'start') for r in ranges):
                return True
        return False
    guard_error(ctx, 'c', 'pending_retired_cids_capped', pp, retired_cap,
                code='CONNECTION_ID_LIMIT_ERROR', protect=[c.bb for c in ext], what='len + (retired.end - retired.start) > MAX_PENDING_RETIRED_CIDS, retired = the appended range')
    ctx.floor('c', 'retire_cids_extend_sites', len(ext), 1)
    n += len(ext)
    # 3. CidQueue::insert index bound
    ci = ctx.pfn('CidQueue::insert')
    stores = [i for i, j, pl, rv, line in ci.assigns() if any(isinstance(e, list) and e[0] == 'f' and e[1] == 'buffer' for e in pl[1])]
    guard_error(ctx, 'c', 'cid_queue_insert_bounded', ci, lambda o, x, y: o == 'Le' and (D.has_const(x, named='LEN') or 'LEN' in D.render(x)) and D.has_call(y, 'u64::checked_sub') | ('sequence' in D.render(y)),
                variant=('InsertError', 'ExceedsLimit'), protect=stores, what='index >= LEN + retired_count')
    n += 1
    cid_ring_loops_bounded(ctx, 'c', 'cid_queue_loops_bounded')
    # 4. incoming buffers
    eh = ctx.pfn('Endpoint::handle')
    push = [c for c in eh.calls_to('Vec::push') if D.has_field(arg_desc(F, c, 0), 'datagrams')]
    okb = bool(push)
    missing = []

    def budget_fail_edges(br, counter, limit):
        """targets of the edges of br on which `counter + len <= config.<limit>` does NOT hold, or None when br is not that test.
        Accepted: `counter.checked_add(len).is_some_and(|n| n <= config.<limit>)` (the closure's returned value IS the relation with its
        parameter on the left), or a direct comparison of a sum over `counter` with `config.<limit>`."""
        d, neg = peel_not(br.desc)
        if d[0] == 'call' and d[1] == 'Option::is_some_and' and len(d[3]) == 2:
            recv = d[3][0]
            if not (recv[0] == 'call' and recv[1].endswith('::checked_add') and any(a[0] == 'field' and a[2] == counter for a in recv[3])):
                return None
            cbs = _closure_bodies(F, d[3][1])
            if len(cbs) != 1:
                return None
            rds = [y for _, x in ret_descs(F, cbs[0]) for y in flat(x)]
            if rds and all(x[0] == 'bin' and x[1] in ('Le', 'Lt') and x[2][0] == 'param' and x[3][0] == 'field' and x[3][2] == limit for x in rds):
                return [br.target(1 if neg else 0)]
            return None
        for truth in (True, False):
            rel = relation_on(br.desc, truth)
            if rel and rel[0] in ('Le', 'Lt') and rel[2][0] == 'field' and rel[2][2] == limit:
                terms = _arith(rel[1], 'Add', ('saturating_add',))
                if terms and any(a[0] == 'field' and a[2] == counter for a in terms) and not D.const_offsets(rel[1]):
                    return [br.target(0 if truth else 1)]
        return None
    for c in push:
        for counter, limit in (('total_bytes', 'incoming_buffer_size'), ('all_incoming_buffers_total_bytes', 'incoming_buffer_size_total')):
            found = False
            for br in branches(F, eh):
                if not eh.dominates(br.bb, c.bb):
                    continue
                fe = budget_fail_edges(br, counter, limit)
                if fe and not any(c.bb in eh.reachable_from(t, avoid=[br.bb]) for t in fe):
                    found = True
            if not found:
                okb = False
                missing.append('%s + len <= %s' % (counter, limit))
    ctx.check(okb, 'c', 'incoming_buffer_capped', eh, eh.where(), 'push only if both per-incoming and total byte budgets hold',
              'buffering of early datagrams is no longer capped by incoming_buffer_size / incoming_buffer_size_total: no dominating test %s whose failing edge avoids the push' % missing)
    n += len(push)
    hf = ctx.pfn('Endpoint::handle_first_packet')
    ins = [c for c in hf.calls_to('Slab::insert') if D.has_field(arg_desc(F, c, 0), 'incoming_buffers')]
    guard_protects(ctx, 'c', 'max_incoming_capped', hf, lambda o, x, y: o == 'Le' and D.has_field(x, 'max_incoming') and D.has_call(y, 'Slab::len'), [c.bb for c in ins], what='incoming_buffers.len() >= max_incoming')
    n += len(ins)
    # 5. PendingAcks::insert_one trims
    io = ctx.pfn('PendingAcks::insert_one')
    pm = io.calls_to('ArrayRangeSet::pop_min')
    ge = guard_edges(ctx, io, lambda o, x, y: o == 'Lt' and (D.has_const(x, named='MAX_ACK_BLOCKS') or 'MAX_ACK_BLOCKS' in D.render(x)) and D.has_call(y, 'ArrayRangeSet::len'))
    ctx.check(bool(pm) and bool(ge) and all(any(c.bb in io.reachable_from(t) for c in pm) for _, _, t in ge), 'c', 'pending_ack_ranges_capped', io, io.where(), 'len > MAX_ACK_BLOCKS -> pop_min', 'the pending ACK range set is no longer trimmed to MAX_ACK_BLOCKS')
    n += 1
    # 6. Assembler::insert -> TooManyChunks / defragment
    ai = ctx.pfn('Assembler::insert')
    why = assembler_defence(ctx, ai)
    ctx.check(not why, 'c', 'assembler_chunks_bounded', ai, ai.where(), 'push -> [threshold(buffered) < allocated - buffered] -> defragment() -> [N < data.len()] -> Err(TooManyChunks)',
              'Assembler::insert lost its over-allocation defence: ' + '; '.join(why))
    n += 1
    # 7. PacketSpace::sent forgets the non-ack-eliciting tail
    ps = ctx.pfn('PacketSpace::sent')
    ge = guard_edges(ctx, ps, lambda o, x, y: o == 'Lt' and D.has_const(x, 1000) and D.has_field(y, 'unacked_non_ack_eliciting_tail'))
    ctx.check(bool(ge) and bool(ps.calls_to('SentPackets::remove')), 'c', 'non_ack_eliciting_tail_capped', ps, ps.where(), 'tail > MAX -> remove oldest', 'sent-packet tracking of non-ack-eliciting packets is no longer bounded')
    n += 1
    ctx.floor('c', 'capped_containers', n, 8)


def assembler_defence(ctx, ai):
    """the chain push -> over-allocation test -> defragment -> chunk-count test -> Err(TooManyChunks); returns the list of broken links"""
    F = ctx.facts
    why = []
    rets = ai.return_blocks()
    defr = {c.bb for c in ai.calls_to('Assembler::defragment')}
    pushes = [c.bb for c in ai.calls() if c.is_('BinaryHeap::push', 'Vec::push', 'VecDeque::push_back') and D.has_field(arg_desc(F, c, 0), 'data')]
    too_many = effect_blocks(ctx, ai, variant=('assembler::TooManyChunks', 'TooManyChunks'))
    if not defr:
        why.append('no call of defragment()')
    if not pushes:
        why.append('no push to self.data found')
    if not too_many:
        why.append('TooManyChunks is never constructed')

    def over_alloc(o, x, y):
        # anchor: T < allocated - B
        sub = _arith(y, 'Sub', _SUB)
        return o == 'Lt' and sub is not None and sub[0][0] == 'field' and sub[0][2] == 'allocated'
    e1 = []
    for br, truth, tgt in _rel_edges(F, ai, over_alloc):
        # T < allocated - B is the defence only if neither T nor B can be inflated by the peer: `self.buffered` counts every
        # duplicate copy, so it may enter T and B only under min(_, end - bytes_read) (the receive-window occupancy, which
        # flow control bounds).  T must scale with the buffered bytes (not a constant) with literals <= 16 MiB.
        _, x, y = relation_on(br.desc, truth)
        s = _arith(y, 'Sub', _SUB)[1]
        bad = []
        if not (D.has_field(x, 'buffered') and all(k <= (1 << 24) for k in _int_consts(x))):
            bad.append('the threshold %s does not scale with the buffered bytes / has a literal > 16 MiB' % D.render(x)[:120])
        elif not _window_bounded(x):
            bad.append('the threshold %s grows with the duplicate-counting self.buffered (not capped by min(_, end - bytes_read)): re-sent data raises it as fast as the over-allocation' % D.render(x)[:120])
        if not D.has_field(s, 'buffered'):
            bad.append('the over-allocation is not allocated - buffered bytes: %s' % D.render(s)[:120])
        elif not _window_bounded(s):
            bad.append('the over-allocation subtracts %s, which counts duplicates (not capped by min(_, end - bytes_read)): exact-fit duplicates never show as over-allocation' % D.render(s)[:120])
        if bad:
            why.extend('over-allocation test at %s: %s' % (br.where(), b) for b in bad)
        else:
            e1.append((br, truth, tgt))
    if not e1 and not any(w.startswith('over-allocation test') for w in why):
        why.append('no test `threshold(buffered) < allocated - buffered` (threshold must depend on the buffered bytes; constants <= 16 MiB)')
    for br, truth, tgt in e1:
        if path_avoiding(ai, [tgt], rets, defr) is not None:
            why.append('over-allocation edge at %s can return without defragment()' % br.where())
    if e1 and pushes and not any(path_avoiding(ai, ai.succ[p], rets, {br.bb for br, _, _ in e1}) is None for p in pushes):
        why.append('no push to self.data is always followed by the over-allocation test')

    def chunk_count(o, x, y):
        return (o == 'Lt' and x[0] == 'const' and x[1] == 'int' and all(k <= (1 << 16) for k in _int_consts(x))
                and y[0] == 'call' and y[1].endswith('::len') and len(y[3]) == 1 and y[3][0][0] == 'field' and y[3][0][2] == 'data')
    e2 = _rel_edges(F, ai, chunk_count)
    if not e2:
        why.append('no test `N < self.data.len()` (N a literal <= 65536)')
    for br, truth, tgt in e2:
        if not too_many or path_avoiding(ai, [tgt], rets, too_many) is not None:
            why.append('chunk-count edge at %s can return without Err(TooManyChunks)' % br.where())
        if not any(ai.dominates(d, br.bb) for d in defr):
            why.append('chunk count at %s is not taken after defragment()' % br.where())
    if e2 and defr and path_avoiding(ai, [t for d in defr for t in ai.succ[d]], rets, {br.bb for br, _, _ in e2}) is not None:
        why.append('a path from defragment() to return skips the chunk-count test')
    # the error value is what is returned
    rd = [y for r, x in ret_descs(F, ai) for y in flat(x)]
    if not any(x[0] == 'agg' and x[2].endswith('Result::Err') and x[3] and x[3][0][0] == 'agg' and 'TooManyChunks' in x[3][0][2] for x in rd):
        why.append('Err(TooManyChunks) is not among the returned values')
    return why


def rule_d(ctx):
    F = ctx.facts
    hp = ctx.pfn('Connection::handle_packet')
    ce = F.adt('connection::ConnectionError')
    variants = [v['name'] for v in ce['variants']]
    ctx.check(len(variants) == 8, 'd', 'connection_error_variants', 'ConnectionError', '', str(variants), 'ConnectionError variant set changed (%d): re-confirm the error->state mapping' % len(variants))
    # unreachable!() arms: panics in handle_packet with messages
    pan = [c for c in hp.calls() if is_panic_call(c) and not any(m in ('debug_assert', 'debug_assert_eq', 'trace', 'debug', 'warn') for m in mac_names(c.mac))]
    # every panic site lies in an arm of the error->state match, and only in the arms confirmed by reading
    confirmed = ('TimedOut', 'LocallyClosed', 'CidsExhausted')
    dv = {int(v['discr']): v['name'] for v in ce['variants']}

    def is_err_payload(d):
        return d[0] == 'discr' and d[1][0] == 'field' and d[1][2] == '0' and d[1][1][0] == 'variant' and d[1][1][2] == 'Err' and D.has_call(d, 'Connection::process_decrypted_packet')
    sws = [br for br in branches(F, hp) if is_err_payload(br.desc) and all(v in dv for v, _ in br.edges if v is not None)]
    sws.sort(key=lambda br: -len(br.edges))
    live = hp.live_blocks()
    pan = [c for c in pan if c.bb in live]
    panicking = set()
    stray = []
    found = bool(sws) and len(sws[0].edges) >= 3
    if not found:
        ctx.bad('d', 'panic_sites_in_handle_packet', hp, hp.where(), 'the match on the ConnectionError produced by packet processing was not found in handle_packet: its panicking arms cannot be enumerated')
    else:
        sw = sws[0]
        arm_reach = {name: hp.reachable_from(sw.target(k), avoid=[sw.bb]) for k, name in dv.items()}
        for c in pan:
            vs = {name for name, rs in arm_reach.items() if c.bb in rs}
            if not vs or len(vs) == len(dv):
                stray.append(c.where())     # outside the match (or in its common tail)
            else:
                panicking |= vs
        extra = sorted(panicking - set(confirmed))
        ctx.check(not stray and not extra, 'd', 'panic_sites_in_handle_packet', hp, sw.where(), '%d panic sites, all inside the arms %s of the error->state match' % (len(pan), sorted(panicking)),
                  'new panic site in handle_packet: %s' % ('; '.join((['outside the error match: %s' % stray] if stray else []) + (['arm(s) %s now panic' % extra] if extra else []))))
    # the variants with a panicking arm are constructed nowhere below packet processing
    below = reach_set(F, [ctx.pfn('Connection::process_decrypted_packet'), ctx.pfn('Connection::decrypt_packet')])
    for v in (sorted(panicking, key=lambda n: list(dv.values()).index(n)) if found else confirmed):
        cons = [c for c in constructions(F, 'connection::ConnectionError', v, crate='quinn_proto') if F.root_of(c.body).id in below]
        ctx.check(not cons, 'd', 'unreachable_arm_is_dead_' + v, hp, hp.where(), 'ConnectionError::%s is never constructed below process_decrypted_packet (%d functions)' % (v, len(below)),
                  'ConnectionError::%s can now be produced by packet processing (%s) but handle_packet maps it to unreachable!()' % (v, [c.where() for c in cons]))

def reach_set(F, roots, depth=12):
    seen = set()
    stack = [(r, 0) for r in roots]
    while stack:
        b, d = stack.pop()
        if b.id in seen or d > depth:
            continue
        seen.add(b.id)
        for c, t in F.callees(b):
            if t.crate == 'quinn_proto' and t.id not in seen:
                stack.append((t, d + 1))
    return seen


def rule_f(ctx):
    F = ctx.facts
    pe = ctx.pfn('Connection::process_early_payload')
    pp = ctx.pfn('Connection::process_payload')
    n = 0

    def need_code(b, code, k, what):
        nonlocal n
        e = err_code_calls(ctx, b, code)
        n += len(e)
        ctx.check(len(e) >= k, 'f', 'legality_' + what, b, b.where(), '%d %s site(s)' % (len(e), code), '%s: expected at least %d %s exits in %s, found %d' % (what, k, code, b.short, len(e)))
    need_code(pe, 'PROTOCOL_VIOLATION', 1, 'illegal_frame_in_handshake')
    need_code(pp, 'PROTOCOL_VIOLATION', 5, 'data_space_protocol_violations')
    need_code(pp, 'STREAM_STATE_ERROR', 3, 'stream_state_errors')
    need_code(pp, 'FRAME_ENCODING_ERROR', 2, 'frame_encoding_errors')
    need_code(pp, 'CONNECTION_ID_LIMIT_ERROR', 2, 'cid_limit_errors')
    oa = ctx.pfn('Connection::on_ack_received')
    need_code(oa, 'PROTOCOL_VIOLATION', 1, 'ack_of_unsent')
    ca = ctx.pfn('PacketNumberFilter::check_ack')
    need_code(ca, 'PROTOCOL_VIOLATION', 1, 'ack_of_skipped')
    af = ctx.pfn('AckFrequencyState::ack_frequency_received')
    guard_error(ctx, 'f', 'ack_frequency_delay_too_small', af, lambda o, a, b: o == 'Lt' and D.has_const(b, named='TIMER_GRANULARITY') and D.has_call(a, 'Duration::from_micros'), code='PROTOCOL_VIOLATION', what='max_ack_delay < TIMER_GRANULARITY')
    cr = ctx.pfn('CidState::on_cid_retirement')
    need_code(cr, 'PROTOCOL_VIOLATION', 1, 'retire_unissued_cid')
    removes = [c.bb for c in cr.calls() if c.is_('HashSet::remove', 'BTreeSet::remove', 'HashMap::remove') and D.has_field(arg_desc(F, c, 0), 'active_seq')]
    guard_error(ctx, 'f', 'legality_retire_unissued_cid', cr, lambda o, a, b: o == 'Lt' and a[0] == 'field' and a[2] == 'issued' and b[0] == 'param' and b[2] == 'sequence',
                code='PROTOCOL_VIOLATION', protect=removes, what='sequence > self.issued')
    guard_error(ctx, 'f', 'legality_retire_unissued_cid', cr, lambda o, a, b: o == 'Eq' and any(x[0] == 'const' and str(x[2]) == '0' and y[0] == 'field' and y[2] == 'cid_len' for x, y in ((a, b), (b, a))),
                code='PROTOCOL_VIOLATION', protect=removes, what='cid_len == 0')
    ctx.floor('f', 'retire_cid_removal_sites', len(removes), 1)
    rms = ctx.pfn('StreamsState::received_max_streams')
    guard_error(ctx, 'f', 'max_streams_unrepresentable', rms, lambda o, a, b: o == 'Lt' and D.has_const(a, named='MAX_STREAM_COUNT') and D.has_param(b, name='count'), code='FRAME_ENCODING_ERROR', what='count > MAX_STREAM_COUNT')
    guard_error(ctx, 'f', 'streams_blocked_unrepresentable', pp, lambda o, a, b: o == 'Lt' and D.has_const(a, named='MAX_STREAM_COUNT'), code='FRAME_ENCODING_ERROR', what='limit > MAX_STREAM_COUNT')
    # 0-RTT frame legality
    why = zero_rtt_illegal_frames(ctx, pp, (('Crypto', None), ('Close', 'Application')))
    ctx.check(not why, 'f', 'zero_rtt_frame_legality', pp, pp.where(), 'in a 0-RTT packet Crypto and Close(Application) frames always end in PROTOCOL_VIOLATION', '0-RTT frame legality: ' + '; '.join(why))
    # server-only / client-only frames
    srv = [br for br in branches(F, pp) if br.desc[0] == 'call' and br.desc[1] == 'ConnectionSide::is_server']
    ctx.check(len(srv) >= 2, 'f', 'role_restricted_frames', pp, pp.where(), '%d is_server() tests' % len(srv), 'HANDSHAKE_DONE / role checks changed')
    ctx.floor('f', 'legality_error_sites', n, 16)


def zero_rtt_illegal_frames(ctx, pp, illegal):
    """for every (Frame variant, Close sub-variant|None) of `illegal`: with header.is_0rtt() true and the frame being that variant, the
    frame's arm of the main dispatch is either never entered or cannot get past PROTOCOL_VIOLATION.  Path-sensitive walk over the CFG in
    which the is_0rtt branches take their true edge and every switch on the frame's discriminant takes the variant's edge."""
    F = ctx.facts
    why = []
    fr = F.adt('frame::Frame')
    fv = {v['name']: int(v['discr']) for v in fr['variants']}
    cv = {v['name']: int(v['discr']) for v in F.adt('frame::Close')['variants']}
    brs = branches(F, pp)
    z = [br for br in brs if peel_not(br.desc)[0][0] == 'call' and peel_not(br.desc)[0][1] == 'Header::is_0rtt']
    if not z:
        return ['no is_0rtt() test in process_payload']
    # the frame: scrutinee of the main dispatch (the widest switch over Frame discriminants)
    disp = [br for br in brs if br.desc[0] == 'discr' and all(v in fv.values() for v, _ in br.edges if v is not None) and len({t for _, t in br.edges}) >= len(fv) // 2]
    if len({br.desc for br in disp}) != 1:
        return ['main frame dispatch not identified (%d candidates)' % len(disp)]
    main = max(disp, key=lambda br: len(br.edges))
    frame = main.desc[1]
    errs = err_code_calls(ctx, pp, 'PROTOCOL_VIOLATION')
    heads = {c.bb for c in pp.calls() if c.is_('Iterator::next') and walk_has(frame, c)}
    if not heads:
        return ['the frame iterator step was not found']
    by_bb = {br.bb: br for br in brs}
    for var, sub in illegal:
        if var not in fv or (sub is not None and sub not in cv):
            why.append('variant %s/%s does not exist' % (var, sub))
            continue

        def choose(bb):
            br = by_bb.get(bb)
            if br is None:
                return None
            d, neg = peel_not(br.desc)
            if d[0] == 'call' and d[1] == 'Header::is_0rtt':
                return [br.target(0 if neg else 1)]
            if d[0] == 'discr' and d[1] == frame:
                return [br.target(fv[var])]
            if sub is not None and d[0] == 'discr' and d[1] == ('field', ('variant', frame, var), '0'):
                return [br.target(cv[sub])]
            return None
        r = _reach_constrained(pp, [0], choose, avoid=errs)
        arm = main.target(fv[var])
        if main.bb not in r:
            continue        # rejected before the dispatch
        after = _reach_constrained(pp, [arm], choose, avoid=errs)
        if after & (set(pp.return_blocks()) | heads):
            why.append('a %s%s frame in a 0-RTT packet is processed (its arm at bb%d completes without PROTOCOL_VIOLATION)' % (var, '(%s)' % sub if sub else '', arm))
    return why


def walk_has(d, call):
    """descriptor d contains the result of call site `call`"""
    return any(x[0] == 'call' and len(x) > 4 and x[4] == call.bb and x[1] == short(call.f) for x in walk(d))


def rule_g(ctx):
    who_may_write(ctx, 'g', 'connection_meta_writers', 'endpoint::Endpoint', 'connections', ['Endpoint::handle_event', 'Endpoint::add_connection', 'Endpoint::send_new_identifiers', 'Endpoint::new'], floor=2,
                  why='Endpoint::handle must route only; per-connection endpoint state changes only through endpoint events of that connection')


def run(ctx):
    from rules.shared_rules import foreign_address_dropped_before_processing
    foreign_address_dropped_before_processing(ctx, 'f', 'foreign_address_dropped_before_processing')
    from rules.shared_rules import reset_final_size_guarded
    reset_final_size_guarded(ctx, 'f', 'reset_final_size_subtraction_guarded')
    from rules.shared_rules import incoming_slot_route_paired
    from rules.shared_rules import cid_replacement_only_for_retired
    cid_replacement_only_for_retired(ctx, 'c', 'cid_replacement_only_for_retired_cid')
    incoming_slot_route_paired(ctx, 'g', 'incoming_slot_freed_with_its_route')
    guarded_reads(ctx, 'a')
    rule_b(ctx)
    rule_c(ctx)
    rule_d(ctx)
    rule_f(ctx)
    rule_g(ctx)
    ctx.assume('the tested length covering the read is decided only for the built-in idioms; table entries pin the guard relation confirmed by reading')
