"""C02 — progress / no deadlock under fair loss (necessary structural conditions)."""
from engine.rulelib import *
from engine import desc as D

EXPLANATION = ("Liveness over all schedules is not statically decidable; these are necessary conditions, each of which yields a wedging schedule when broken. "
               "(a) Timer::VALUES lists every Timer variant exactly once, TimerTable has a slot for each, handle_timeout iterates VALUES; (b) the loss-detection timer is "
               "re-armed at the end of on_ack_received, discard_space, both arms of on_loss_detection_timeout, after each tracked send, when anti-amplification unblocks "
               "and when a failed path validation restores the previous path; (c) no ShouldTransmit / must_use result is dropped (rustc -Dunused_must_use on the analysed "
               "build) and each one flows to the pending MAX_DATA / MAX_STREAM_DATA flag; (d) MAX_STREAMS credit is queued after every path that frees a remote stream; "
               "(e) every Blocked outcome is preceded by a registration that later yields Writable (write_source, received_max_stream_data); connection_blocked is drained "
               "only when write_limit() > 0; (f) loss probes bypass the congestion/pacing gate (C12.c); (g) maybe_queue_probe runs for every space before the send loop and "
               "always leaves something ack-eliciting queued; (h) the Pacing timer is armed on the only pacing-blocked exit, MaxAckDelay whenever packet_received asks for it; "
               "(i) the pacer only moves its reference time forward when tokens were generated. Completion within bounded time is NOT decided.")
RULE = "rule instances = (rule, site) pairs over MIR call sites / branches / constant tables; non-trivial = bound to a real site"


def rule_a(ctx):
    F = ctx.facts
    t = F.adt('timer::Timer')
    variants = [v['name'] for v in t['variants']]
    vb = F.const_body('Timer::VALUES')
    elems = [rv[1][2] for i, j, pl, rv, line in vb.assigns() if rv[0] == 'agg' and rv[1][0] == 'adt' and rv[1][1].endswith('timer::Timer')]
    ctx.check(sorted(elems) == sorted(variants), 'a', 'timer_values_lists_every_timer_once', vb, vb.where(), '%d timers' % len(elems),
              'Timer::VALUES %s is not a permutation of the Timer variants (missing %s): a missing timer never fires and is never stopped' % (len(elems), sorted(set(variants) - set(elems))))
    tt = F.adt('timer::TimerTable')
    ty = tt['variants'][0]['fields'][0][1]
    import re
    m = re.search(r';\s*(\d+)\]', ty)
    ctx.check(bool(m) and int(m.group(1)) >= len(variants), 'a', 'timer_table_has_a_slot_per_timer', 'TimerTable', '', ty, 'TimerTable.data %s has fewer slots than Timer variants (%d)' % (ty, len(variants)))
    mx = max(int(v['discr']) for v in t['variants'])
    ctx.check(bool(m) and mx < int(m.group(1)), 'a', 'timer_discriminants_index_the_table', 'Timer', '', 'max discriminant %d' % mx, 'a Timer discriminant exceeds the table size')
    ht = ctx.pfn('Connection::handle_timeout')
    it = [c for c in ht.calls() if c.is_('IntoIterator::into_iter') and ('VALUES' in D.render(arg_desc(F, c, 0)) or len([n for n in walk(arg_desc(F, c, 0)) if n[0] == 'agg' and n[2].endswith('Timer::Idle')]) > 0)]
    ctx.check(bool(it), 'a', 'handle_timeout_iterates_all_timers', ht, ht.where(), 'for &timer in &Timer::VALUES', 'handle_timeout no longer iterates Timer::VALUES')
    nt = ctx.pfn('TimerTable::next_timeout')
    ctx.check(any(short(c.f).endswith('::min') for x in F.family(nt) for c in x.calls()), 'a', 'next_timeout_is_minimum', nt, nt.where(), 'min over the table', 'next_timeout no longer returns the minimum deadline')


def rule_b(ctx):
    F = ctx.facts
    SL = ['Connection::set_loss_detection_timer']
    n = 0
    oa = ctx.pfn('Connection::on_ack_received')
    # every Ok return past the newly_acked.is_empty() early-out passes set_loss_detection_timer: check from detect_lost_packets call
    for c in oa.calls_to('Connection::detect_lost_packets'):
        p = must_follow(F, oa, c.bb, SL, 0)
        n += 1
        ctx.check(p is None, 'b', 'rearm_after_ack', oa, c.where(), 'set_loss_detection_timer on every path after loss detection', 'on_ack_received can return without re-arming the loss timer: %s' % fmt_path(oa, p))
    ds = ctx.pfn('Connection::discard_space')
    n += 1
    ctx.check(must_call(F, ds, SL, 0), 'b', 'rearm_after_discard_space', ds, ds.where(), 'must-calls set_loss_detection_timer', 'discard_space no longer re-arms the loss timer')
    ol = ctx.pfn('Connection::on_loss_detection_timeout')
    for what, pats in (('loss_time_arm', ['Connection::detect_lost_packets']), ('pto_arm', [])):
        if pats:
            for c in ol.calls_to(*pats):
                n += 1
                ctx.check(must_follow(F, ol, c.bb, SL, 0) is None, 'b', 'rearm_in_' + what, ol, c.where(), 'followed by set_loss_detection_timer', 'loss-time arm does not re-arm the timer')
    lp = [w for w in field_writes(F, 'PacketSpace', 'loss_probes', crate='quinn_proto') if w.body.id == ol.id and w.kind in ('assign', 'callresult')]
    for w in lp:
        n += 1
        ctx.check(must_follow(F, ol, w.bb, SL, 0) is None, 'b', 'rearm_in_pto_arm', ol, w.where(), 'PTO arm re-arms the timer', 'after scheduling loss probes the PTO timer is not re-armed')
    ft = ctx.pfn('PacketBuilder::finish_and_track')
    cs = ft.calls_to(*SL)
    brs = [br for br in branches(F, ft, stop_named=True) if relation_on(br.desc, True) and 'size' in D.render(br.desc) and D.has_const(br.desc, 0)]
    n += len(cs)
    ctx.check(bool(cs) and bool(brs), 'b', 'rearm_after_tracked_send', ft, ft.where(), 'size != 0 -> set_loss_detection_timer', 'sending an in-flight packet no longer (re)arms the loss timer')
    he = ctx.pfn('Connection::handle_event')
    cs = he.calls_to(*SL)
    nb = [br for br in branches(F, he, stop_named=True) if peel_not(br.desc)[0][0] == 'local' and peel_not(br.desc)[0][2] == 'was_anti_amplification_blocked']
    n += len(cs)
    ctx.check(bool(cs) and bool(nb) and all(any(he.dominates(br.bb, c.bb) for br in nb) for c in cs), 'b', 'rearm_when_amplification_unblocks', he, he.where(), 'if was_anti_amplification_blocked { set_loss_detection_timer }',
              'receiving data on an amplification-blocked path no longer re-arms the loss timer (handshake deadlock if the first flight was lost)')
    was = local_defs_desc(ctx, he, 'was_anti_amplification_blocked')
    ctx.check(any(D.has_call(x, 'PathData::anti_amplification_blocked') for x in was), 'b', 'unblock_flag_definition', he, he.where(), 'was_.. = path.anti_amplification_blocked(1)', 'flag definition changed')
    ht = ctx.pfn('Connection::handle_timeout')
    cs = ht.calls_to(*SL)
    n += len(cs)
    ctx.check(bool(cs), 'b', 'rearm_after_path_revert', ht, ht.where(), 'PathValidation arm re-arms', 'reverting to the previous path no longer re-arms the loss timer')
    ctx.floor('b', 'rearm_sites', n, 7)


def rule_c(ctx):
    F = ctx.facts
    ctx.ok('c', 'must_use_results_not_dropped', 'rustc -Dunused_must_use', '', 'the analysed build compiled with -Dunused_must_use (a dropped ShouldTransmit / #[must_use] value is a compile error reported as a violation)')
    st = F.adt('streams::ShouldTransmit')
    pp = ctx.pfn('Connection::process_payload')
    for callee in ('StreamsState::received', 'StreamsState::received_reset'):
        for c in pp.calls_to(callee):
            md = [w for w in field_writes(F, 'Retransmits', 'max_data', crate='quinn_proto') if w.body.id == pp.id and w.kind == 'assign']
            brs = [br for br in branches(F, pp) if D.has_call(br.desc, 'ShouldTransmit::should_transmit') and contains_site(br.desc, c)]
            ok = bool(brs) and any(any(w.bb in pp.reachable_from(br.target(1), avoid=[br.bb]) and w.bb not in pp.reachable_from(br.target(0), avoid=[br.bb] + [w2.bb for w2 in md if w2 is not w]) for w in md) for br in brs)
            ctx.check(bool(brs) and bool(md), 'c', 'credit_decision_queues_max_data', pp, c.where(), 'if %s(..)?.should_transmit() { pending.max_data = true }' % short(c.f), 'the ShouldTransmit decision of %s no longer queues MAX_DATA' % short(c.f))
    rs = ctx.pfn('RecvStream::stop')
    md = [w for w in field_writes(F, 'Retransmits', 'max_data', crate='quinn_proto') if w.body.id == rs.id and w.kind == 'assign']
    ctx.check(bool(md) and bool(rs.calls_to('ShouldTransmit::should_transmit')), 'c', 'stop_queues_max_data', rs, rs.where(), 'add_read_credits(..).should_transmit() -> pending.max_data', 'RecvStream::stop no longer queues MAX_DATA for discarded bytes')
    fi = ctx.pfn('Chunks::finalize_inner')
    md = [w for w in field_writes(F, 'Retransmits', 'max_data', crate='quinn_proto') if w.body.id == fi.id]
    ms = [c for c in fi.calls() if short(c.f).endswith('::insert') and D.has_field(arg_desc(F, c, 0), 'max_stream_data')]
    ctx.check(bool(md) and bool(ms), 'c', 'finalize_queues_credit', fi, fi.where(), 'pending.max_data |= ..; pending.max_stream_data.insert(id)', 'finishing a read no longer queues MAX_DATA / MAX_STREAM_DATA')
    srw = ctx.pfn('Connection::set_receive_window')
    md = [w for w in field_writes(F, 'Retransmits', 'max_data', crate='quinn_proto') if w.body.id == srw.id]
    ctx.check(bool(md), 'c', 'window_growth_queues_max_data', srw, srw.where(), 'expanded -> pending.max_data = true', 'growing the receive window no longer announces it')
    # the pending flags are consumed only by write_control_frames
    wcf = ctx.pfn('StreamsState::write_control_frames')
    ctx.check(bool([br for br in branches(F, wcf) if D.has_field(br.desc, 'max_data')]), 'c', 'pending_max_data_consumed', wcf, wcf.where(), 'write_control_frames tests pending.max_data', 'MAX_DATA is never written')


def rule_d(ctx):
    who_may_call(ctx, 'd', 'max_stream_id_credit_sites', ['StreamsState::queue_max_stream_id'],
                 ['Connection::process_payload', 'RecvStream::received_reset', 'Chunks::finalize_inner', 'Connection::set_max_concurrent_streams'], floor=4,
                 why='stream-count credit must be re-evaluated wherever a remote stream can become free')
    F = ctx.facts
    pp = ctx.pfn('Connection::process_payload')
    # at the end of process_payload: reachable on every Ok path after the frame loop: dominated-by relation with the final Ok
    q = pp.calls_to('StreamsState::queue_max_stream_id')
    mg = pp.calls_to('Connection::migrate')
    ok = bool(q) and all(any(pp.dominates(x.bb, m.bb) for x in q) for m in mg)
    ctx.check(ok, 'd', 'credit_requeued_after_frame_processing', pp, pp.where(), 'queue_max_stream_id after the frame loop', 'process_payload no longer re-evaluates stream-count credit after processing frames')


def rule_e(ctx):
    F = ctx.facts
    ws = ctx.pfn('SendStream::write_source')
    es = guard_edges(ctx, ws, lambda o, a, b: o == 'Eq' and ((D.has_call(a, 'StreamsState::write_limit') and D.has_const(b, 0)) or (D.has_call(b, 'StreamsState::write_limit') and D.has_const(a, 0))))
    push = [c for c in ws.calls_to('Vec::push') if D.has_field(arg_desc(F, c, 0), 'connection_blocked')]
    ok = bool(es) and bool(push)
    for br, truth, tgt in es:
        # from the limit == 0 edge, every path to the Blocked return passes the push or the already-registered (connection_blocked == true) edge
        flag = [b2 for b2 in branches(F, ws) if D.has_field(b2.desc, 'connection_blocked') and b2.bb in ws.reachable_from(tgt)]
        if not flag:
            ok = False
        for f in flag:
            t_unreg = f.target(0) if peel_not(f.desc)[1] is False else f.target(1)
            if path_avoiding(ws, [t_unreg], ws.return_blocks(), {c.bb for c in push}) is not None:
                ok = False
    ctx.check(ok, 'e', 'blocked_write_registers_for_writable', ws, ws.where(), 'limit == 0 -> connection_blocked.push(id) (unless already registered) before Err(Blocked)', 'a write blocked on the connection window is not registered for a later Writable event')
    rm = ctx.pfn('StreamsState::received_max_stream_data')
    im = rm.calls_to('Send::increase_max_data')
    wr = [c for c in constructions(F, 'StreamEvent', 'Writable', crate='quinn_proto') if F.root_of(c.body).id == rm.id]
    push = [c for c in rm.calls_to('Vec::push') if D.has_field(arg_desc(F, c, 0), 'connection_blocked')]
    ok = bool(im) and bool(wr) and bool(push)
    for c in im:
        for br in branches(F, rm):
            inner, neg = peel_not(br.desc)
            if inner[0] == 'call' and contains_site(inner, c):
                t_yes = br.target(0 if neg else 1)
                flag = [b2 for b2 in branches(F, rm) if D.has_field(b2.desc, 'connection_blocked') and b2.bb in rm.reachable_from(t_yes)]
                avoid = {x.bb for x in wr} | {x.bb for x in push}
                # the "already registered" edge is fine as well
                for f in flag:
                    inner2, neg2 = peel_not(f.desc)
                    already = f.target(0 if neg2 else 1) if True else None
                    avoid_edges = {(f.bb, f.target(1 if not neg2 else 0))} if False else set()
                p = path_avoiding(rm, [t_yes], rm.return_blocks(), avoid)
                if p is not None:
                    # allow only paths through the already-registered edge of the connection_blocked flag test
                    okp = False
                    for f in flag:
                        inner2, neg2 = peel_not(f.desc)
                        t_already = f.target(0 if neg2 else 1)
                        p2 = path_avoiding(rm, [t_yes], rm.return_blocks(), avoid | {t_already})
                        if p2 is None:
                            okp = True
                    if not okp:
                        ok = False
    ctx.check(ok, 'e', 'unblocked_stream_reported_or_registered', rm, rm.where(), 'increase_max_data true -> Writable, or registered in connection_blocked while the connection window is exhausted',
              'a stream unblocked by MAX_STREAM_DATA while the connection-level limit is exhausted is neither reported Writable nor registered: its writer never learns it may continue')
    po = ctx.pfn('StreamsState::poll')
    pops = [c for c in po.calls_to('Vec::pop') if D.has_field(arg_desc(F, c, 0), 'connection_blocked')]
    guard_protects(ctx, 'e', 'blocked_list_drained_only_with_credit', po, lambda o, a, b: o == 'Le' and D.has_call(a, 'StreamsState::write_limit') and D.has_const(b, 0) or (o == 'Eq' and D.has_call(a, 'StreamsState::write_limit') | D.has_call(b, 'StreamsState::write_limit')), [c.bb for c in pops], what='write_limit() > 0')
    ctx.floor('e', 'blocked_list_pop_sites', len(pops), 1)


def rule_g(ctx):
    F = ctx.facts
    pt = ctx.pfn('Connection::poll_transmit')
    mq = pt.calls_to('PacketSpace::maybe_queue_probe')
    pb = pt.calls_to('PacketBuilder::new')
    it = [c for c in pt.calls_to('SpaceId::iter')]
    ok = bool(mq) and bool(it) and all(any(pt.dominates(i.bb, m.bb) for i in it) for m in mq)
    # the probe-queueing loop completes before the first packet is built: no builder reachable before it
    ok = ok and all(not pt.dominates(b.bb, m.bb) for b in pb for m in mq)
    ctx.check(ok, 'g', 'probes_queued_for_every_space_first', pt, pt.where(), 'for space in SpaceId::iter() { maybe_queue_probe }', 'loss probes are no longer prepared for every space before the send loop')
    m = ctx.pfn('PacketSpace::maybe_queue_probe')
    # every path that passes the loss_probes != 0 test ends with something ack-eliciting queued: pending non-empty (early return), retransmits moved, or ping/immediate_ack pending
    z = [br for br in branches(F, m) if D.has_field(br.desc, 'loss_probes')]
    pp_ = [w for w in field_writes(F, 'PacketSpace', 'ping_pending', crate='quinn_proto') if w.body.id == m.id]
    ia = [br for br in branches(F, m) if D.has_field(br.desc, 'immediate_ack_pending')]
    bo = [c for c in m.calls() if c.is_('BitOrAssign::bitor_assign')]
    ie = [br for br in branches(F, m) if D.has_call(br.desc, 'Retransmits::is_empty')]
    ctx.check(bool(z) and bool(pp_) and bool(ia) and bool(bo) and bool(ie), 'g', 'probe_always_has_content', m, m.where(), 'pending data | moved retransmits | ping_pending (unless immediate_ack_pending)', 'maybe_queue_probe can leave a loss probe with nothing ack-eliciting to send')
    for w in pp_:
        # ping is the fall-through: reachable only when nothing else was found
        ctx.check(any(m.dominates(br.bb, w.bb) for br in ie), 'g', 'ping_only_as_fallback', m, w.where(), 'ping_pending after the pending/retransmit checks', 'ping fallback order changed')


def rule_h(ctx):
    F = ctx.facts
    pt = ctx.pfn('Connection::poll_transmit')
    pd = pt.calls_to('Pacer::delay')
    st = [c for c in pt.calls_to('TimerTable::set') if any(n[0] == 'agg' and n[2].endswith('Timer::Pacing') for n in walk(arg_desc(F, c, 1)))]
    ok = bool(pd) and bool(st) and all(any(contains_site(arg_desc(F, s, 2), p) for p in pd) for s in st)
    ctx.check(ok, 'h', 'pacing_block_arms_pacing_timer', pt, pt.where(), 'if let Some(delay) = pacing.delay(..) { timers.set(Pacing, delay) }', 'a pacing-blocked poll_transmit no longer arms the Pacing timer (nothing would re-poll the connection)')
    for p in pd:
        for br in branches(F, pt):
            if br.desc[0] == 'discr' and is_site(br.desc[1], p):
                t_some = br.target(1)
                ok2 = path_avoiding(pt, [t_some], pt.return_blocks(), {s.bb for s in st}) is None
                ctx.check(ok2, 'h', 'pacing_timer_on_every_blocked_path', pt, p.where(), 'Some(delay) edge always sets the timer', 'a pacing-blocked path skips arming the timer')
    pp = ctx.pfn('Connection::process_payload')
    pr = pp.calls_to('PendingAcks::packet_received')
    st = [c for c in pp.calls_to('TimerTable::set') if any(n[0] == 'agg' and n[2].endswith('Timer::MaxAckDelay') for n in walk(arg_desc(F, c, 1)))]
    ok = bool(pr) and bool(st)
    for p in pr:
        for br in branches(F, pp):
            inner, neg = peel_not(br.desc)
            if inner[0] == 'call' and is_site(inner, p):
                t_yes = br.target(0 if neg else 1)
                if path_avoiding(pp, [t_yes], pp.return_blocks(), {s.bb for s in st}) is not None:
                    ok = False
    ctx.check(ok, 'h', 'delayed_ack_arms_max_ack_delay_timer', pp, pp.where(), 'packet_received(..) == true -> timers.set(MaxAckDelay, ..)', 'a delayed ACK no longer arms the MaxAckDelay timer (the ACK might never be sent)')


def rule_i(ctx):
    F = ctx.facts
    dl = ctx.pfn('Pacer::delay')
    st = [w for w in field_writes(F, 'pacing::Pacer', 'prev', crate='quinn_proto') if w.body.id == dl.id and w.kind == 'assign']
    ctx.floor('i', 'pacer_reference_time_stores', len(st), 1)
    guard_protects(ctx, 'i', 'pacer_time_advances_only_with_tokens', dl, lambda o, a, b: (o == 'Le' and D.render(a).find('new_tokens') >= 0 and D.has_const(b, 0)) or (o == 'Eq' and 'new_tokens' in D.render(a) + D.render(b) and (D.has_const(a, 0) or D.has_const(b, 0))),
                   [w.bb for w in st], what='new_tokens == 0', stop_named=True)


def run(ctx):
    rule_a(ctx)
    rule_b(ctx)
    rule_c(ctx)
    rule_d(ctx)
    rule_e(ctx)
    ctx.info('f', 'loss-probe exemption from the congestion/pacing gate is rule C12.c (gate_entered_iff_loss_probes)')
    rule_g(ctx)
    rule_h(ctx)
    rule_i(ctx)
